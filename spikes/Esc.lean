namespace Esc

def hexDigit (n : Nat) : Char := if n < 10 then Char.ofNat (48+n) else Char.ofNat (87+n)

def hexVal (c : Char) : Option Nat :=
  let n := c.toNat
  if 48 ≤ n ∧ n ≤ 57 then some (n - 48)
  else if 97 ≤ n ∧ n ≤ 102 then some (n - 87)
  else none

def hex4 (n : Nat) : List Char :=
  [hexDigit (n / 4096 % 16), hexDigit (n / 256 % 16), hexDigit (n / 16 % 16), hexDigit (n % 16)]

def parseHex4 (a b c d : Char) : Option Nat := do
  let x3 ← hexVal a; let x2 ← hexVal b; let x1 ← hexVal c; let x0 ← hexVal d
  pure (x3 * 4096 + x2 * 256 + x1 * 16 + x0)

def uEsc (n : Nat) : List Char := '\\' :: 'u' :: hex4 n

/-- Python json.dumps(ensure_ascii=True) escaping of one character. -/
def escChar (c : Char) : List Char :=
  if c = '"' then ['\\', '"']
  else if c = '\\' then ['\\', '\\']
  else if c = '\n' then ['\\', 'n']
  else if c = '\r' then ['\\', 'r']
  else if c = '\t' then ['\\', 't']
  else if c.toNat = 8 then ['\\', 'b']
  else if c.toNat = 12 then ['\\', 'f']
  else if 32 ≤ c.toNat ∧ c.toNat ≤ 126 then [c]
  else if c.toNat < 65536 then uEsc c.toNat
  else
    let v := c.toNat - 65536
    uEsc (55296 + v / 1024) ++ uEsc (56320 + v % 1024)

def esc (s : List Char) : List Char := s.flatMap escChar

/-- decode one (possibly escaped) character from the front -/
def unescOne : List Char → Option (Char × List Char)
  | '\\' :: '"' :: r => some ('"', r)
  | '\\' :: '\\' :: r => some ('\\', r)
  | '\\' :: 'n' :: r => some ('\n', r)
  | '\\' :: 'r' :: r => some ('\r', r)
  | '\\' :: 't' :: r => some ('\t', r)
  | '\\' :: 'b' :: r => some (Char.ofNat 8, r)
  | '\\' :: 'f' :: r => some (Char.ofNat 12, r)
  | '\\' :: 'u' :: a :: b :: c :: d :: r =>
    match parseHex4 a b c d with
    | none => none
    | some v =>
      if 55296 ≤ v ∧ v < 56320 then
        match r with
        | '\\' :: 'u' :: e :: f :: g :: h :: r' =>
          match parseHex4 e f g h with
          | none => none
          | some w => if 56320 ≤ w ∧ w < 57344 then some (Char.ofNat (65536 + (v - 55296) * 1024 + (w - 56320)), r') else none
        | _ => none
      else some (Char.ofNat v, r)
  | '\\' :: _ => none
  | '"' :: _ => none
  | c :: r => some (c, r)
  | [] => none

/-- read a string body up to the closing quote; fuel = input length -/
def unescFuel : Nat → List Char → Option (List Char × List Char)
  | 0, _ => none
  | _+1, '"' :: r => some ([], r)
  | n+1, l =>
    match unescOne l with
    | none => none
    | some (c, r) =>
      match unescFuel n r with
      | none => none
      | some (s, r') => some (c :: s, r')

theorem hexVal_hexDigit (d : Nat) (h : d < 16) : hexVal (hexDigit d) = some d := by
  have : ∀ d : Fin 16, hexVal (hexDigit d.val) = some d.val := by decide
  exact this ⟨d, h⟩

theorem parseHex4_hex4 (n : Nat) (h : n < 65536) :
    (match hex4 n with | [a,b,c,d] => parseHex4 a b c d | _ => none) = some n := by
  simp only [hex4, parseHex4]
  rw [hexVal_hexDigit _ (Nat.mod_lt _ (by omega)), hexVal_hexDigit _ (Nat.mod_lt _ (by omega)),
      hexVal_hexDigit _ (Nat.mod_lt _ (by omega)), hexVal_hexDigit _ (Nat.mod_lt _ (by omega))]
  simp only [Option.bind_eq_bind, Option.bind_some, Option.pure_def, Option.some.injEq]
  omega

end Esc
namespace Esc

theorem unescOne_uEsc_bmp (n : Nat) (h : n < 65536) (hs : ¬ (55296 ≤ n ∧ n < 56320)) (r : List Char) :
    unescOne (uEsc n ++ r) = some (Char.ofNat n, r) := by
  have hp := parseHex4_hex4 n h
  simp only [hex4] at hp
  simp only [uEsc, hex4, List.cons_append, List.nil_append, unescOne, hp, hs, if_false]

theorem unescOne_uEsc_pair (v w : Nat) (hv : 55296 ≤ v ∧ v < 56320) (hw : 56320 ≤ w ∧ w < 57344) (r : List Char) :
    unescOne (uEsc v ++ (uEsc w ++ r)) = some (Char.ofNat (65536 + (v - 55296) * 1024 + (w - 56320)), r) := by
  have hp := parseHex4_hex4 v (by omega)
  have hq := parseHex4_hex4 w (by omega)
  simp only [hex4] at hp hq
  simp only [uEsc, hex4, List.cons_append, List.nil_append, unescOne, hp, hq, hv, hw, and_self, if_true]

theorem char_eq_of_toNat (c : Char) (n : Nat) (h : c.toNat = n) : c = Char.ofNat n := by
  rw [← h, Char.ofNat_toNat]

theorem char_valid (c : Char) : c.toNat < 55296 ∨ (57343 < c.toNat ∧ c.toNat < 1114112) := by
  have := c.valid
  simp only [UInt32.isValidChar, Nat.isValidChar, Char.toNat] at *
  omega

theorem unescOne_plain (c : Char) (r : List Char) (h1 : c ≠ '"') (h2 : c ≠ '\\') :
    unescOne (c :: r) = some (c, r) := by
  unfold unescOne
  split <;> simp_all

theorem unescOne_escChar (c : Char) (r : List Char) : unescOne (escChar c ++ r) = some (c, r) := by
  unfold escChar
  split
  · next h => subst h; rfl
  split
  · next h => subst h; rfl
  split
  · next h => subst h; rfl
  split
  · next h => subst h; rfl
  split
  · next h => subst h; rfl
  split
  · next h => rw [char_eq_of_toNat c 8 h]; rfl
  split
  · next h => rw [char_eq_of_toNat c 12 h]; rfl
  split
  · next h1 h2 _ _ _ _ _ _ => exact unescOne_plain c r h1 h2
  split
  · next h =>
    have hv := char_valid c
    rw [unescOne_uEsc_bmp c.toNat h (by omega), Char.ofNat_toNat]
  · next h =>
    have hv := char_valid c
    simp only [List.append_assoc]
    rw [unescOne_uEsc_pair _ _ (by omega) (by omega)]
    have e : 65536 + (55296 + (c.toNat - 65536) / 1024 - 55296) * 1024 + (56320 + (c.toNat - 65536) % 1024 - 56320) = c.toNat := by omega
    rw [e, Char.ofNat_toNat]

theorem escChar_no_quote (c : Char) : ∀ r, escChar c ++ r ≠ '"' :: r' := by
  intro r
  unfold escChar
  repeat' split
  all_goals simp_all [uEsc]

end Esc

namespace Esc
theorem escChar_head_ne_quote (c : Char) (r : List Char) : ∃ h t, escChar c ++ r = h :: t ∧ h ≠ '"' := by
  unfold escChar
  repeat' split
  all_goals simp_all [uEsc]

theorem unesc_esc (s rest : List Char) (n : Nat) (hn : s.length < n) :
    unescFuel n (esc s ++ '"' :: rest) = some (s, rest) := by
  induction s generalizing n with
  | nil =>
    cases n with
    | zero => simp at hn
    | succ n => simp [esc, unescFuel]
  | cons c s ih =>
    cases n with
    | zero => simp at hn
    | succ n =>
      have hlen : s.length < n := by simp at hn; omega
      obtain ⟨h, t, e, hq⟩ := escChar_head_ne_quote c (esc s ++ '"' :: rest)
      have e' : esc (c :: s) ++ '"' :: rest = escChar c ++ (esc s ++ '"' :: rest) := by
        simp [esc, List.flatMap_cons, List.append_assoc]
      rw [e']
      have step : unescFuel (n+1) (h :: t) =
          (match unescOne (h :: t) with
           | none => none
           | some (c, r) => match unescFuel n r with
             | none => none
             | some (s, r') => some (c :: s, r')) := by
        exact unescFuel.eq_3 (h :: t) n (by intro r hr; exact hq (List.cons.inj hr).1)
      rw [e, step, ← e, unescOne_escChar]
      simp only [ih n hlen]

theorem esc_injective (s₁ s₂ : List Char) (h : esc s₁ = esc s₂) : s₁ = s₂ := by
  have a := unesc_esc s₁ [] (s₁.length + s₂.length + 1) (by omega)
  have b := unesc_esc s₂ [] (s₁.length + s₂.length + 1) (by omega)
  rw [h] at a
  rw [a] at b
  simpa using b
end Esc
#print axioms Esc.unesc_esc
#print axioms Esc.esc_injective
