"""C10 — object checkout converges, is idempotent, honours link types, spares the cache
(hashfile/checkout.py, diff.py, db/local.py, utils.py).  Shared machinery with C05."""
import itertools
import os
import stat

from . import gen, stores
from .util import md5hex, safe_call

LINKS = ["copy", "hardlink", "symlink"]


class Scene:
    """a cache store holding two directory objects, a workspace checked out from the first one"""

    def __init__(self, ctx, rng, local=None, with_state=None, root_link=False):
        from dvc_data.hashfile.state import State

        self.rng = rng
        self.root = ctx.mkdtemp()
        self.local = (rng.random() < 0.6) if local is None else local
        self.state = None
        cfg = {}
        if (rng.random() < 0.6) if with_state is None else with_state:
            self.state = State(root_dir=self.root, tmp_dir=os.path.join(self.root, "tmp"))
            cfg["state"] = self.state
        self.odb = stores.make_odb(os.path.join(self.root, "cache"), local=self.local, **cfg)
        self.fs = stores.fs_local()
        self.ws = os.path.join(self.root, "ws")
        self.root_link = root_link
        if root_link:
            # the checkout path itself is a symbolic link to the directory that holds the files (a data directory kept on
            # another disk and linked into the project)
            os.makedirs(os.path.join(self.root, "ws-real"))
            os.symlink(os.path.join(self.root, "ws-real"), self.ws)
        self.saved_link = False  # did the last checkout save a link record
        self.contents = {}

    def put_tree(self, files, skip=()):
        ents = {}
        for k, c in files.items():
            h = md5hex(c)
            ents[k] = h
            self.contents[h] = c
            if h not in skip:
                stores.put_raw(self.odb.path, h, c)
        raw = gen.canonical_listing(ents)
        oid = md5hex(raw) + ".dir"
        stores.put_raw(self.odb.path, oid, raw)
        return oid

    def obj(self, oid):
        from dvc_data.hashfile import load
        from dvc_data.hashfile.hash_info import HashInfo

        return load(self.odb, HashInfo("md5", oid))

    def checkout(self, oid, types, **kw):
        from dvc_data.hashfile.checkout import CheckoutError, LinkError, PromptError, checkout

        self.odb.cache_types = list(types)
        self.saved_link = False
        import dvc_data.hashfile.checkout as _co

        real_save_link = _co._save_link

        def capturing(path, fs, diff, updated_mtimes, state):
            # what checkout hands to _get_mtime_from_changes: its own bookkeeping, not a walk
            from dvc_data.hashfile.diff import ROOT

            unchanged = []
            for ch in diff.unchanged:
                if ch.old.key == ROOT:
                    continue
                m = ch.old.meta
                unchanged.append([fs.sep.join((path, *ch.old.key)), None if m is None else m.mtime])
            self.link_inputs = {"updated": dict(updated_mtimes), "unchanged": unchanged}
            return real_save_link(path, fs, diff, updated_mtimes, state)

        _co._save_link = capturing

        def f():
            return checkout(self.ws, self.fs, self.obj(oid), self.odb, state=self.state, **kw)

        if self.state is not None:
            # observe (from the harness process) whether this checkout saves a link record
            orig = self.state.set_link

            def noting(*a, **k):
                self.saved_link = True
                return orig(*a, **k)

            self.state.set_link = noting
        try:
            kind, res = safe_call(f, expected=(PromptError, CheckoutError, LinkError, FileNotFoundError))
        finally:
            _co._save_link = real_save_link
            if self.state is not None:
                del self.state.set_link
        if kind == "ok":
            return {"ok": bool(res)}
        return {"err": res}

    def cache_path(self, oid):
        return os.path.join(self.odb.path, oid[:2], oid[2:])

    def walk(self):
        """{relpath: (md5 of bytes or 'broken', link kind, points at the cache object of its content)}"""
        out = {}
        for r, ds, fsn in os.walk(self.ws):
            for f in fsn:
                p = os.path.join(r, f)
                rel = os.path.relpath(p, self.ws)
                try:
                    with open(p, "rb") as fh:
                        b = fh.read()
                except OSError:
                    out[rel] = ["broken", "symlink" if os.path.islink(p) else "copy", False]
                    continue
                h = md5hex(b)
                cp = self.cache_path(h)
                if os.path.islink(p):
                    kind, to = "symlink", os.path.realpath(p) == os.path.realpath(cp)
                elif os.stat(p).st_nlink > 1:
                    kind = "hardlink"
                    to = os.path.exists(cp) and os.stat(cp).st_ino == os.stat(p).st_ino
                else:
                    kind, to = "copy", True
                out[rel] = [h, kind, to, len(b)]
        return dict(sorted(out.items()))

    def bytes_snapshot(self):
        out = {}
        for r, ds, fsn in os.walk(self.ws):
            for f in fsn:
                p = os.path.join(r, f)
                try:
                    with open(p, "rb") as fh:
                        out[os.path.relpath(p, self.ws)] = fh.read()
                except OSError:
                    out[os.path.relpath(p, self.ws)] = None
        return out

    def cache_snapshot(self):
        return {o: md5hex(stores.read_obj(self.odb.path, o)) for o in stores.listing_of(self.odb.path)}

    def intact_in_cache(self, data):
        h = md5hex(data)
        p = self.cache_path(h)
        if not os.path.exists(p):
            return False
        with open(p, "rb") as f:
            return f.read() == data

    def user_edits(self, kinds=("replace_uncached", "replace_cached", "add", "delete")):
        """what a user does between checkouts; returns a description"""
        rng = self.rng
        done = []
        files = sorted(self.bytes_snapshot())
        for rel in files:
            r = rng.random()
            p = os.path.join(self.ws, rel)
            if r < 0.25 and "replace_uncached" in kinds:
                os.remove(p)
                with open(p, "wb") as f:
                    f.write(b"user-edit-%d-" % rng.randrange(10**6) + rel.encode())
                done.append(["replace_uncached", rel])
            elif r < (0.75 if "restore" in kinds else 0.33) and "replace_uncached" in kinds and not os.path.islink(p):
                # a different file of the same size with the old timestamps moved into place (cp -p, rsync -t, a restore):
                # only the inode tells it from the checked-out one
                st = os.stat(p)
                old = open(p, "rb").read()
                new = bytes((b ^ 0x55) for b in old) if old else b""
                if new != old:
                    tmp = p + ".user-tmp"
                    with open(tmp, "wb") as f:
                        f.write(new)
                    os.utime(tmp, ns=(st.st_atime_ns, st.st_mtime_ns))
                    os.replace(tmp, p)
                    done.append(["replace_same_size_and_mtime", rel])
            elif r < 0.4 and "replace_cached" in kinds and self.contents:
                os.remove(p)
                with open(p, "wb") as f:
                    f.write(rng.choice(sorted(self.contents.values())))
                done.append(["replace_cached", rel])
            elif r < 0.5 and "delete" in kinds:
                os.remove(p)
                done.append(["delete", rel])
        if rng.random() < 0.4 and "add" in kinds:
            rel = "user-file-%d" % rng.randrange(100)
            with open(os.path.join(self.ws, rel), "wb") as f:
                f.write(b"precious-%d" % rng.randrange(10**6))
            done.append(["add_uncached", rel])
        if rng.random() < 0.12 and "dangling" in kinds and os.path.isdir(self.ws):
            # a symbolic link to nothing next to the tracked files (a moved target, a half-extracted archive)
            sub = rng.choice([""] + sorted({os.path.dirname(r) for r in files if os.path.dirname(r)}))
            rel = os.path.join(sub, "dangling-link")
            if os.path.isdir(os.path.join(self.ws, sub)) and not os.path.lexists(os.path.join(self.ws, rel)):
                os.symlink(os.path.join(self.root, "nowhere"), os.path.join(self.ws, rel))
                done.append(["add_dangling_symlink", rel])
        return done

    def link_record(self):
        """(the link record saved for the checkout path, what the path is now: its own inode - the link's when it is a
        symbolic link - and the mtime token of what is under it, does the record's consumer State.get_unused_links
        recognise the untouched path); or the name of the error"""
        from dvc_data.hashfile.utils import get_mtime_and_size

        rel = os.path.relpath(self.ws, self.root)

        def f():
            saved = self.state.links.get(rel)
            now = (os.lstat(self.ws).st_ino, get_mtime_and_size(self.ws, self.fs)[0])
            return (tuple(saved) if saved is not None else None, now, rel in self.state.get_unused_links([], self.fs))

        return safe_call(f)[1]

    def close(self):
        if self.state is not None:
            self.state.close()


def model_req(scene, before, target_files, cache_oids, cfg):
    ws = [{"key": rel.split("/"), "oid": v[0], "link": v[1], "to_cache": bool(v[2])} for rel, v in before.items()]
    target = [{"key": list(k), "oid": md5hex(c)} for k, c in target_files.items()]
    return {"op": "obj_checkout", "ws": ws, "target": target, "cache": sorted(cache_oids), **cfg}


def canon_ws(walked, types):
    """oid and link kind per path; hard-linking an empty file creates a fresh file, so for an empty file only
    'symbolic link' versus 'regular file' is observable"""
    out = {}
    for rel, v in walked.items():
        out[rel] = [v[0], (v[1] if (len(v) < 4 or v[3] > 0) else ("symlink" if v[1] == "symlink" else "regular"))]
    return out


def canon_model_ws(ans, sizes):
    out = {}
    for e in ans["ws"]:
        rel = "/".join(e["key"])
        out[rel] = [e["oid"], e["link"] if sizes.get(e["oid"], 1) > 0 else ("symlink" if e["link"] == "symlink" else "regular")]
    return dict(sorted(out.items()))


def link_token_corr(ctx, sc, case):
    """LinkRecord.fromChanges ~ _get_mtime_from_changes: the dictionary checkout tokenises (from its own bookkeeping) against the
    model's, and against what a walk of the workspace gives - for a directory workspace whose record was just saved"""
    from dvc_data.fsutils import _localfs_info
    from dvc_data.hashfile.utils import _tokenize_mtimes

    li = getattr(sc, "link_inputs", None)
    if not li or not os.path.isdir(sc.ws) or sc.state is None:
        return
    walk = {}
    for fp in sc.fs.find(sc.ws):
        try:
            walk[fp] = _localfs_info(fp)["mtime"]
        except OSError:
            continue
    floats = sorted({t for t in list(li["updated"].values()) + [t for _, t in li["unchanged"] if t is not None] + list(walk.values())})
    rank = {t: i for i, t in enumerate(floats)}
    ans = ctx.driver.ask({"op": "link_token", "ws": [[p, rank[t]] for p, t in walk.items()],
                          "updated": [[p, rank[t]] for p, t in li["updated"].items()],
                          "unchanged": [[p, None if t is None else rank[t]] for p, t in li["unchanged"]]})
    model_dict = {p: floats[i] for p, i in ans.get("from_changes", [])}
    saved = sc.state.links.get(os.path.relpath(sc.ws, sc.root))
    ctx.count("link_token corr")
    ctx.corr("LinkRecord.fromChanges~_get_mtime_from_changes (token of the saved record)", case,
             None if saved is None else saved[1], _tokenize_mtimes(model_dict))
    ctx.corr("LinkRecord.canon ws~get_mtime_and_size (token of a walk)", case,
             _tokenize_mtimes(walk), _tokenize_mtimes({p: floats[i] for p, i in ans.get("walk", [])}))


def link_record_oracle(ctx, sc, case, rec):
    link_token_corr(ctx, sc, case)
    """C10, last clause: the link record a checkout saved matches the resulting workspace - the inode of the checkout path itself
    (not of what a symbolic link there points at) and the mtime token - so that the untouched path is recognised as a link of ours"""
    ctx.count("link_record_checked")
    if os.path.islink(sc.ws):
        ctx.count("link_record_checked:checkout_path_is_a_symlink")
    if not isinstance(rec, tuple):
        ctx.oracle(False, case, {"why": "the saved link record could not be compared with the workspace", "error": str(rec)})
        return
    saved, now, recognised = rec
    ctx.oracle(saved == now, case, {"why": "the saved link record does not match the resulting workspace", "saved": str(saved), "workspace": str(now),
                                    "checkout_path_is_a_symlink": os.path.islink(sc.ws)})
    ctx.oracle(recognised, case, {"why": "the path is exactly as checkout left it, yet State.get_unused_links does not recognise it from the saved link record",
                                  "saved": str(saved), "workspace": str(now)})


def check_force(ctx, rng):
    """C10: forced checkout from an arbitrary prior state; idempotence; relink; cache untouched; link record"""
    sc = Scene(ctx, rng, root_link=rng.random() < 0.2)
    try:
        prior = gen.rand_tree(rng, max_files=5, allow_odd=False)
        existing = rng.choice(LINKS)
        configured = rng.choice(LINKS)
        relink = rng.random() < 0.5
        dup = None
        keys = sorted(prior)
        if relink and len(keys) >= 2 and rng.random() < 0.6:
            # two paths with the same non-empty content whose current link types will differ
            k1, k2 = rng.sample(keys, 2)
            prior[k1] = prior[k2] = b"shared-content-%d" % rng.randrange(1000)
            dup = (k1, k2)
        t1 = sc.put_tree(prior)
        r0 = sc.checkout(t1, [existing], force=True)
        if "ok" not in r0:
            c0 = {"force_checkout": {"prior": {"/".join(k): v.decode("latin1") for k, v in prior.items()}, "existing": existing}}
            ctx.case(c0)
            ctx.oracle(False, c0, {"why": "forced checkout of a cached tree into an empty location failed", "result": r0})
            return
        if dup is not None:
            victim = os.path.join(sc.ws, *dup[rng.randrange(2)])
            data = prior[dup[0]]
            os.remove(victim)
            with open(victim, "wb") as f:  # an independent copy of the same (cached) bytes
                f.write(data)
        # the target agrees in kind with the workspace: same directory skeleton, files changed/added/removed
        target = dict(prior)
        for k in list(prior):
            r = rng.random()
            if dup is not None and k in dup:
                continue
            if r < 0.25:
                target[k] = prior[k] + b"^"
            elif r < 0.4 and len(target) > 1:
                del target[k]
            elif r < 0.5:
                target[k] = rng.choice(list(prior.values()))  # duplicate content
        if rng.random() < 0.5:
            target[(rng.choice(["extra", "more"]),)] = rng.choice([b"", b"new-content"])
        edits = sc.user_edits(kinds=("replace_uncached", "replace_cached", "add", "delete", "dangling")) if rng.random() < 0.6 else []
        dangling = any(e[0] == "add_dangling_symlink" for e in edits)
        t2 = sc.put_tree(target)
        before = sc.walk()
        cache_before = sc.cache_snapshot()
        case = {"force_checkout": {"prior": {"/".join(k): v.decode("latin1") for k, v in prior.items()},
                                    "target": {"/".join(k): v.decode("latin1") for k, v in target.items()},
                                    "existing": existing, "configured": configured, "relink": relink, "edits": edits,
                                    "local": sc.local, "state": sc.state is not None, "root_is_symlink": sc.root_link}}
        res = sc.checkout(t2, [configured], force=True, relink=relink)
        after = sc.walk()
        link_rec = None
        if sc.state is not None and "ok" in res and (relink or sc.saved_link) and not dangling:
            link_rec = sc.link_record()
        res2 = sc.checkout(t2, [configured], force=True, relink=False)
        after2 = sc.walk()
        cache_after = sc.cache_snapshot()
        ctx.case(case, nontrivial=existing != configured or bool(edits))
        ctx.count("links:%s->%s relink=%s" % (existing, configured, relink))
        ctx.count("store=%s" % ("local" if sc.local else "generic"))
        if sc.root_link:
            ctx.count("workspace_root_is_a_symlink")
        sizes = {md5hex(c): len(c) for c in list(target.values()) + list(prior.values())}
        ans = ctx.driver.ask(model_req(sc, before, target, [o for o in cache_before if not o.endswith(".dir")],
                                       {"force": True, "relink": relink, "types": [configured]}))
        m_out = ans["outcome"]
        impl_view = {"outcome": "ok" if "ok" in res else res["err"], "ws": canon_ws(after, [configured])}
        model_view = {"outcome": "ok" if "ok" in m_out else m_out["err"], "ws": canon_model_ws(ans, sizes)}
        if not relink:
            # without relinking, untouched files keep whatever link they had: compare contents only there
            impl_view["ws"] = {k: v[0] for k, v in impl_view["ws"].items()}
            model_view["ws"] = {k: v[0] for k, v in model_view["ws"].items()}
        ctx.corr("Checkout.checkout~checkout() (forced)", case, impl_view, model_view)
        # ---- oracle
        want = {"/".join(k): md5hex(c) for k, c in target.items()}
        got = {k: v[0] for k, v in after.items()}
        if dangling:
            ctx.count("prior_with_dangling_symlink")
            # known finding: the workspace cannot be read, checkout passes the error on (and touches nothing) instead of converging
            untouched = res.get("err") == "FileNotFoundError" and after == before
            ctx.oracle("ok" in res and got == want, case, {"why": "forced checkout over a workspace that holds a symbolic link to nothing did not converge", "result": res},
                       signature="prior-workspace-holds-a-dangling-symlink" if untouched else None)
            return
        ctx.oracle("ok" in res and got == want, case, {"why": "forced checkout did not leave exactly the target", "result": res, "got": got, "want": want})
        ctx.oracle(res2 == {"ok": False} and after2 == after, case, {"why": "a second checkout did not report 'nothing to do'", "second": res2})
        if relink and "ok" in res:
            bad = {k: v[1] for k, v in after.items() if v[3] > 0 and (v[1] != configured or not v[2])}
            # empty files: a hard link cannot be told from a copy, but a symbolic link can
            bad.update({k: v[1] for k, v in after.items() if v[3] == 0 and ((v[1] == "symlink") != (configured == "symlink"))})
            ctx.oracle(not bad, case, {"why": "a relinking checkout left files with another link type", "files": bad, "configured": configured})
        ctx.oracle(all(cache_after.get(o) == h for o, h in cache_before.items()), case,
                   {"why": "checkout changed the bytes of a cache object", "changed": [o for o, h in cache_before.items() if cache_after.get(o) != h]})
        if sc.root_link:
            ctx.oracle(os.path.islink(sc.ws) and os.path.isdir(sc.ws), case, {"why": "checkout replaced the symbolic link the workspace is reached through"})
        if link_rec is not None:
            link_record_oracle(ctx, sc, case, link_rec)
        if len(ctx.samples) < 2:
            ctx.sample({"case": case["force_checkout"], "result": res})
    finally:
        sc.close()


def check_commit_between(ctx, rng):
    """one process, one cache: contents the workspace held while they were not cached are committed later (or an object is
    collected and fetched again); a checkout of a target the workspace already equals reports nothing to do, and a relinking
    one links to the object that is in the cache now"""
    sc = Scene(ctx, rng)
    try:
        prior = gen.rand_tree(rng, max_files=4, allow_odd=False)
        t1 = sc.put_tree(prior)
        link = rng.choice(LINKS)
        r0 = sc.checkout(t1, [link], force=True)
        if "err" in r0:
            ctx.oracle(False, {"commit_between": {"prior": {"/".join(k): v.decode("latin1") for k, v in prior.items()}, "link": link}},
                       {"why": "a forced checkout of a cached target into an empty workspace failed", "result": r0})
            return
        # the user writes new contents (not in the cache) ...
        fresh = {}
        for k in sorted(prior)[: rng.randrange(1, len(prior) + 1)]:
            fresh[k] = b"uncommitted-%d-" % rng.randrange(10**6) + "/".join(k).encode()
            p = os.path.join(sc.ws, *k)
            os.remove(p)
            with open(p, "wb") as f:
                f.write(fresh[k])
        # ... a forced checkout of the old version throws them away (the diff has now looked at them while they were uncached) ...
        r1 = sc.checkout(t1, [link], force=True)
        # ... then re-creates and commits them
        target = {**prior, **fresh}
        for k, c in fresh.items():
            p = os.path.join(sc.ws, *k)
            os.remove(p)
            with open(p, "wb") as f:
                f.write(c)
        t2 = sc.put_tree(target)
        refetch = None
        if link == "hardlink" and rng.random() < 0.5:
            # an object of an unchanged file is collected and fetched again: same bytes, another inode
            same = [k for k in prior if k not in fresh and prior[k]]
            if same:
                refetch = "/".join(same[0])
                cp = sc.cache_path(md5hex(prior[same[0]]))
                os.chmod(cp, 0o644)
                os.remove(cp)
                stores.put_raw(sc.odb.path, md5hex(prior[same[0]]), prior[same[0]])
        relink = rng.random() < 0.5
        r2 = sc.checkout(t2, [link], force=False, relink=relink)
        after = sc.walk()
        r3 = sc.checkout(t2, [link], force=False, relink=False)
        case = {"commit_between": {"prior": {"/".join(k): v.decode("latin1") for k, v in prior.items()}, "committed_later": sorted("/".join(k) for k in fresh),
                                    "link": link, "relink": relink, "refetched": refetch, "local": sc.local, "state": sc.state is not None}}
        ctx.case(case, nontrivial=True)
        ctx.count("commit_between link=%s relink=%s refetch=%s" % (link, relink, refetch is not None))
        want = {"/".join(k): md5hex(c) for k, c in target.items()}
        ctx.oracle("ok" in r1 and "ok" in r2 and {k: v[0] for k, v in after.items()} == want, case,
                   {"why": "checkout after the contents were committed did not leave the target", "first": r1, "second": r2})
        if not relink:
            ctx.oracle(r2 == {"ok": False}, case, {"why": "a checkout over a workspace that equals the (now cached) target did not report 'nothing to do'", "result": r2})
        ctx.oracle(r3 == {"ok": False}, case, {"why": "a further checkout did not report 'nothing to do'", "result": r3})
        if relink and "ok" in r2:
            bad = {k: v[1] for k, v in after.items() if v[3] > 0 and (v[1] != link or not v[2])}
            ctx.oracle(not bad, case, {"why": "a relinking checkout left files that are not links of the configured type to the object now in the cache", "files": bad})
    finally:
        sc.close()


def check_single_file(ctx, rng):
    """a single-file target (its only entry is the root entry): converge, relink to the configured type, second checkout is a no-op"""
    sc = Scene(ctx, rng)
    try:
        v1 = b"single-file-content-%d" % rng.randrange(1000)
        v2 = v1 if rng.random() < 0.6 else v1 + b"-v2"
        for c in (v1, v2):
            stores.put_raw(sc.odb.path, md5hex(c), c)
        existing, configured = rng.choice(LINKS), rng.choice(LINKS)
        relink = rng.random() < 0.7
        r0 = sc.checkout(md5hex(v1), [existing], force=True)
        res = sc.checkout(md5hex(v2), [configured], force=True, relink=relink)
        link_rec = sc.link_record() if sc.state is not None and "ok" in r0 and "ok" in res and (relink or sc.saved_link) else None
        case = {"single_file": {"same_content": v1 == v2, "existing": existing, "configured": configured, "relink": relink,
                                "local": sc.local, "state": sc.state is not None}}
        ctx.case(case, nontrivial=existing != configured)
        ctx.count("single_file:%s->%s relink=%s" % (existing, configured, relink))
        p = sc.ws
        ok = os.path.isfile(p) or os.path.islink(p)
        data = open(p, "rb").read() if ok else None
        ctx.oracle("ok" in r0 and "ok" in res and data == v2, case, {"why": "single-file checkout did not leave the target content", "first": r0, "second": res})
        if ok and "ok" in res and (relink or v1 != v2):
            cp = sc.cache_path(md5hex(v2))
            if os.path.islink(p):
                kind = "symlink" if os.path.realpath(p) == os.path.realpath(cp) else "symlink-elsewhere"
            elif os.stat(p).st_nlink > 1 and os.stat(p).st_ino == os.stat(cp).st_ino:
                kind = "hardlink"
            else:
                kind = "copy"
            ctx.oracle(kind == configured, case, {"why": "a relinking checkout of a single file left another link type", "got": kind, "configured": configured})
        if link_rec is not None:
            link_record_oracle(ctx, sc, case, link_rec)
        res2 = sc.checkout(md5hex(v2), [configured], force=True, relink=False)
        ctx.oracle(res2 == {"ok": False}, case, {"why": "a second checkout of a single file did not report 'nothing to do'", "second": res2})
    finally:
        sc.close()


MOVES = ["copied", "hardlinked", "alias"]


def move_cache(sc, mode):
    """the project is pointed at another cache directory that holds the same objects: `copied` (cp -r / a transfer: same
    names and bytes, other inodes), `hardlinked` (cp -al: same inodes under another directory) or `alias` (the new path is a
    symbolic link to the old directory).  Returns the store that was configured before."""
    old = sc.odb
    new_path = os.path.join(sc.root, "cache-moved")
    if mode == "alias":
        os.symlink(old.path, new_path)
    else:
        for o in stores.listing_of(old.path):
            src = os.path.join(old.path, o[:2], o[2:])
            if mode == "hardlinked":
                os.makedirs(os.path.join(new_path, o[:2]), exist_ok=True)
                os.link(src, os.path.join(new_path, o[:2], o[2:]))
            else:
                stores.put_raw(new_path, o, stores.read_obj(old.path, o), mode=stat.S_IMODE(os.stat(src).st_mode))
    cfg = {"state": sc.state} if sc.state is not None else {}
    sc.odb = stores.make_odb(new_path, local=sc.local, **cfg)
    return old


def check_cache_moved(ctx, rng):
    """C10, 'the configured link type ... to the cache object' over histories in which the configured cache changes: the
    workspace holds links into the cache directory that was configured before; a relinking checkout against another directory
    with the same objects must leave every file a link of the configured type to the object *of the configured cache* (so that
    the old directory can be thrown away), from every existing link type, for an unchanged or a changed target"""
    sc = Scene(ctx, rng)
    try:
        prior = gen.rand_tree(rng, max_files=4, allow_odd=False)
        if not any(prior.values()):
            prior[("nonempty",)] = b"non-empty-%d" % rng.randrange(1000)
        existing = rng.choice(LINKS)
        # the diagonal is where only the link's target tells a file that is fine from one that has to be relinked
        configured = existing if rng.random() < 0.4 else rng.choice(LINKS)
        mode = rng.choice(MOVES)
        relink = rng.random() < 0.8
        shared = rng.random() < 0.25
        t1 = sc.put_tree(prior)
        target = dict(prior)
        if rng.random() < 0.4:
            for k in sorted(prior):
                r = rng.random()
                if r < 0.3:
                    target[k] = prior[k] + b"^"
                elif r < 0.4 and len(target) > 1:
                    del target[k]
            if rng.random() < 0.5:
                target[("extra",)] = rng.choice([b"", b"new-content"])
        t2 = sc.put_tree(target)
        case = {"cache_moved": {"prior": {"/".join(k): v.decode("latin1") for k, v in prior.items()},
                                 "target": {"/".join(k): v.decode("latin1") for k, v in target.items()},
                                 "existing": existing, "configured": configured, "relink": relink, "move": mode, "objects_have_other_hard_links": shared,
                                 "local": sc.local, "state": sc.state is not None}}
        ctx.case(case, nontrivial=True)
        ctx.count("cache_moved:%s %s->%s relink=%s" % (mode, existing, configured, relink))
        if shared:
            ctx.count("cache_moved:objects have other hard links")
        r0 = sc.checkout(t1, [existing], force=True)
        if "ok" not in r0:
            ctx.oracle(False, case, {"why": "forced checkout of a cached tree into an empty location failed", "result": r0})
            return
        old = move_cache(sc, mode)
        if shared:
            # another checkout of the same data elsewhere on the disk uses hard links: the objects have further names
            for o in stores.listing_of(sc.odb.path):
                if not o.endswith(".dir"):
                    os.makedirs(os.path.join(sc.root, "other-ws"), exist_ok=True)
                    os.link(os.path.join(sc.odb.path, o[:2], o[2:]), os.path.join(sc.root, "other-ws", o))
        snap = lambda path: {o: md5hex(stores.read_obj(path, o)) for o in stores.listing_of(path)}  # noqa: E731
        old_before, new_before = snap(old.path), snap(sc.odb.path)
        before = sc.walk()
        res = sc.checkout(t2, [configured], force=True, relink=relink)
        after = sc.walk()  # link targets are judged against the store that is configured now
        link_rec = sc.link_record() if sc.state is not None and "ok" in res and (relink or sc.saved_link) else None
        res2 = sc.checkout(t2, [configured], force=True, relink=False)
        after2 = sc.walk()
        want = {"/".join(k): md5hex(c) for k, c in target.items()}
        got = {k: v[0] for k, v in after.items()}
        ctx.oracle("ok" in res and got == want, case, {"why": "forced checkout after the cache directory changed did not leave exactly the target", "result": res, "got": got, "want": want})
        ctx.oracle(res2 == {"ok": False} and after2 == after, case, {"why": "a second checkout did not report 'nothing to do'", "second": res2})
        if "ok" in res:
            # relinking: every file; otherwise: the files this checkout had to write (new or changed content)
            judged = {k: v for k, v in after.items() if relink or k not in before or before[k][0] != v[0]}
            bad = {k: [v[1], "to the configured cache" if v[2] else "elsewhere"] for k, v in judged.items()
                   if v[3] > 0 and (v[1] != configured or not v[2])}
            bad.update({k: [v[1]] for k, v in judged.items() if v[3] == 0 and ((v[1] == "symlink") != (configured == "symlink"))})
            # finding (unchanged library): a symbolic link to an object that has more than one name (st_nlink > 1: the cache was
            # hard-linked into the new directory, or another workspace hard-links the object) is taken for a hard link to it by
            # _needs_relink - the stat follows the link, so the inode is the object's - and is left a symbolic link
            sig = None
            if bad and configured == "hardlink" and relink and got == want and all(
                    v[0] == "symlink" and os.path.islink(os.path.join(sc.ws, k)) and os.stat(os.path.join(sc.ws, k)).st_nlink > 1 for k, v in bad.items()):
                sig = "symlink-to-an-object-with-several-names-taken-for-a-hard-link"
                ctx.count("cache_moved:symlink to a multiply-named object left in place under hardlink")
            ctx.oracle(not bad, case, {"why": "after the configured cache directory changed, a %s left files that are not links of the configured type to "
                                              "the object of the configured cache" % ("relinking checkout" if relink else "checkout"), "files": bad, "configured": configured,
                                       "readlink": {k: os.readlink(os.path.join(sc.ws, k)) for k in bad if os.path.islink(os.path.join(sc.ws, k))}}, signature=sig)
        ctx.oracle(snap(sc.odb.path) == new_before and snap(old.path) == old_before, case, {"why": "checkout changed the bytes of a cache object"})
        if link_rec is not None:
            link_record_oracle(ctx, sc, case, link_rec)
        if relink and "ok" in res and mode == "copied":
            # nothing in the workspace depends on the directory that is no longer configured
            import shutil

            for r, ds, fsn in os.walk(old.path):
                os.chmod(r, 0o755)
            shutil.rmtree(old.path)
            ctx.count("cache_moved:old directory removed")
            left = {k: (None if b is None else md5hex(b)) for k, b in sc.bytes_snapshot().items()}
            ctx.oracle(left == want, case, {"why": "after a relinking checkout against the new cache directory the workspace still depended on the old one: "
                                                   "removing it changed what the files read", "got": left, "want": want})
    finally:
        sc.close()


def relink_table(ctx):
    """exhaustive: _needs_relink over configured type lists x actual link kind x points-at-cache x cache meta known"""
    from dvc_data.hashfile.checkout import _needs_relink
    from dvc_data.hashfile.meta import Meta

    class FakeCache:
        def __init__(self, types):
            self.cache_types = types

        def oid_to_path(self, oid):
            return "/cache/" + oid

    rows, impl = [], []
    type_lists = [list(p) for n in (1, 2, 3) for p in itertools.permutations(LINKS + ["reflink"], n)]
    for types in type_lists:
        for link in LINKS:
            for to_cache in (True, False):
                for cache_known in (True, False):
                    # a symbolic link's metadata is its target's: the object it points at may have one name or several (F28)
                    for nlink in ((1, 2, 3) if link == "symlink" else (2, 3) if link == "hardlink" else (1,)):
                        meta = Meta(is_link=(link == "symlink"), nlink=nlink, inode=11,
                                    destination=("/cache/oid" if to_cache else "/elsewhere") if link == "symlink" else None)
                        cmeta = Meta(inode=11 if to_cache else 99) if cache_known else None
                        k, v = safe_call(lambda: _needs_relink("/ws/f", FakeCache(types), meta, cmeta, "oid"))
                        impl.append("1" if v is True else "0" if v is False else "?")
                        rows.append({"types": types, "link": link, "to_cache": to_cache, "cache_known": cache_known})
    ans = ctx.driver.ask({"op": "needs_relink", "rows": rows})["r"]
    ctx.evaluations += len(rows)
    ctx.exhaustive["_needs_relink over %d (type list, link kind, target, cache meta) rows" % len(rows)] = True
    bad = [i for i, (a, b) in enumerate(zip(impl, ans)) if a != b]
    if bad:
        ctx.corr("Checkout.needsRelink~_needs_relink (table)", rows[bad[0]], impl[bad[0]], ans[bad[0]])
    else:
        ctx.traces += len(rows)


def run(ctx):
    ctx.rule = (
        "exhaustive _needs_relink table; (prior, target) pairs over nested trees with duplicate contents and empty files, the 3x3 "
        "(existing link type, configured link type) matrix, relink on/off, both store classes, with/without state, user edits "
        "between the checkouts, the workspace root reached directly or through a symbolic link to the directory; single-file targets over the same link matrix "
        "(under the symbolic link type the checkout path itself is a link); each followed by a second checkout; whenever a checkout with a state saved a link "
        "record (observed by wrapping State.set_link) the record is compared with the lstat inode of the checkout path and the mtime token, and "
        "State.get_unused_links must recognise the untouched path; histories in one process where contents seen uncached are committed (or an object is collected and re-fetched) before the next checkout; histories in which the configured cache directory changes between the checkouts (the same objects copied or hard-linked into another directory, or the old directory reached through a symbolic link) over the 3x3 link matrix, unchanged and changed targets: every file must become a link of the configured type to the object of the cache configured now, and (copied) the workspace must survive removing the old directory. non-trivial = link type changes or the user edited the workspace"
    )
    ctx.assumptions = ["reflink is unavailable in the sandbox (copy is what runs)", "hard-linking an empty file creates a fresh empty file: for empty files only symbolic link versus regular file is compared"]
    relink_table(ctx)
    for _ in range(ctx.n(110, 1200)):
        check_force(ctx, ctx.rng)
    for _ in range(ctx.n(40, 400)):
        check_single_file(ctx, ctx.rng)
    for _ in range(ctx.n(40, 400)):
        check_commit_between(ctx, ctx.rng)
    for _ in range(ctx.n(60, 600)):
        check_cache_moved(ctx, ctx.rng)


def search(ctx):
    for _ in range(1000):
        check_force(ctx, ctx.rng)
    for _ in range(300):
        check_single_file(ctx, ctx.rng)
    for _ in range(300):
        check_commit_between(ctx, ctx.rng)
    for _ in range(300):
        check_cache_moved(ctx, ctx.rng)


def replay(ctx, payload):
    run(ctx)
