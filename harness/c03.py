"""C03 — a directory's identifier is a canonical, deterministic function of its contents (tree.py, build.py)."""
import json
import os

from . import gen
from .util import md5hex, safe_call


# ----------------------------------------------------------------- conversions


def meta_to_json(m):
    if m is None:
        return None
    return {
        "isdir": bool(m.isdir), "size": m.size, "nfiles": m.nfiles, "isexec": bool(m.isexec),
        "version_id": m.version_id, "etag": m.etag, "checksum": m.checksum, "md5": m.md5, "remote": m.remote,
        "inode": m.inode, "mtime": None if m.mtime is None else int(m.mtime),
    }


def hi_to_json(h):
    if h is None:
        return None
    return {"name": h.name, "value": h.value}


def entries_json(entries):
    return [{"key": list(k), "meta": meta_to_json(m), "hi": hi_to_json(h)} for k, (m, h) in entries]


def canon_tree(tree_json):
    """model tree -> comparable form {relkey: (hash name, hash value)}"""
    out = {}
    for e in tree_json:
        h = e["hi"] or {}
        out["/".join(e["key"])] = [h.get("name"), h.get("value")]
    return dict(sorted(out.items()))


def canon_impl_tree(tree):
    out = {}
    for k, m, h in tree:
        out["/".join(k)] = [h.name if h else None, h.value if h else None]
    return dict(sorted(out.items()))


def rand_entries(rng):
    from dvc_data.hashfile.hash_info import HashInfo
    from dvc_data.hashfile.meta import Meta

    files = gen.rand_tree(rng, max_files=7)
    ents = []
    algo = rng.choice(["md5", "md5", "md5", "md5-dos2unix", "sha256", "etag"])
    for k, c in files.items():
        r = rng.random()
        if r < 0.05:
            hi = None
        elif r < 0.1:
            hi = HashInfo(algo, "")
        else:
            hi = HashInfo(algo, md5hex(c))
        r = rng.random()
        if r < 0.25:
            meta = Meta()
        elif r < 0.6:
            meta = Meta(size=len(c))
        elif r < 0.8:
            meta = Meta(size=len(c), isexec=rng.random() < 0.5, md5=rng.choice([None, "", md5hex(c), "other"]),
                        etag=rng.choice([None, "", "E"]), nfiles=rng.choice([None, 0, 3]))
        else:
            meta = Meta(isdir=rng.random() < 0.2, size=rng.choice([0, 7]), version_id=rng.choice([None, "v1"]),
                        checksum=rng.choice([None, "c"]), remote=rng.choice([None, "r"]))
        ents.append((k, (meta, hi)))
    return ents


def impl_tree(ents, order):
    from dvc_data.hashfile.tree import Tree

    t = Tree()
    for i in order:
        k, (m, h) = ents[i]
        t.add(k, m, h)
    return t


def run_entry_sets(ctx, n):
    rng = ctx.rng
    cases = []
    for _ in range(n):
        ents = rand_entries(rng)
        wm = rng.random() < 0.4
        cases.append((ents, wm))
    answers = ctx.driver.batch([{"op": "tree_bytes", "with_meta": wm, "entries": entries_json(ents)} for ents, wm in cases])
    prev = None
    for (ents, wm), ans in zip(cases, answers):
        case = {"with_meta": wm, "entries": entries_json(ents)}
        ctx.case(case, nontrivial=len(ents) >= 2)
        ctx.count("entries:%d" % min(len(ents), 8))
        ctx.count("with_meta:%s" % wm)
        orders = [list(range(len(ents)))] + [rng.sample(range(len(ents)), len(ents)) for _ in range(5)]
        obs = []
        for o in orders:
            def f(o=o):
                t = impl_tree(ents, o)
                b = t.as_bytes(with_meta=wm)
                t.digest(with_meta=wm)
                return {"bytes": b.decode("ascii"), "oid": t.oid}
            k, v = safe_call(f)
            obs.append(v if k == "ok" else {"err": v})
        model = {"bytes": ans.get("bytes"), "oid": ans.get("oid")}
        ctx.corr("Tree.asBytes/digest~Tree.as_bytes/digest", case, obs[0], model)
        ctx.oracle(ans.get("reparsed_ok") is True, case, {"why": "model parser does not invert the model renderer", "model": ans})
        # oracle: order independence + independent encoder
        same = all(o == obs[0] for o in obs)
        ctx.oracle(same, case, {"why": "serialisation depends on insertion order", "observations": obs[:3]})
        if "err" not in obs[0]:
            ctx.oracle(all(ord(c) < 128 for c in obs[0]["bytes"]), case, {"why": "non-ascii output"})
            exp = {}
            for k, (m, h) in ents:
                d = dict(_meta_dict(m)) if wm else {}
                if h is not None and h.value and h.name:
                    d["md5" if h.name == "md5-dos2unix" else h.name] = h.value
                d["relpath"] = "/".join(k)
                exp["/".join(k)] = d
            lst = [exp[k] for k in sorted(exp)]
            b = json.dumps(lst, sort_keys=True)
            ctx.oracle(obs[0]["bytes"] == b, case, {"why": "bytes differ from the independent canonical encoder", "impl": obs[0]["bytes"], "expected": b})
            # identifier ignores metadata: digest() hashes the listing without meta
            t2 = impl_tree([(k, (None if False else _other_meta(m), h)) for k, (m, h) in ents], orders[1])
            k2, v2 = safe_call(lambda: (t2.digest(), t2.oid)[1])
            t3 = impl_tree(ents, orders[2])
            k3, v3 = safe_call(lambda: (t3.digest(), t3.oid)[1])
            ctx.oracle(v2 == v3, case, {"why": "identifier depends on metadata", "with_other_meta": v2, "orig": v3})
            # injectivity against the previous (different) entry set
            cur = (frozenset((k, (h.name, h.value) if h and h.value else None) for k, (m, h) in ents), v3)
            if prev is not None and prev[0] != cur[0]:
                ctx.oracle(prev[1] != cur[1], case, {"why": "two different entry sets share an identifier", "oid": v3})
            prev = cur
        ctx.sample({"case": {"with_meta": wm, "keys": [list(k) for k, _ in ents][:4]}, "oid": obs[0].get("oid")})


def _meta_dict(m):
    d = {}
    if m is None:
        return d
    if m.isdir:
        d["isdir"] = True
    if m.size is not None:
        d["size"] = m.size
    if m.nfiles is not None:
        d["nfiles"] = m.nfiles
    if m.isexec:
        d["isexec"] = True
    for f in ("version_id", "etag", "checksum", "md5", "remote"):
        v = getattr(m, f)
        if v:
            d[f] = v
    return d


def _other_meta(m):
    from dvc_data.hashfile.meta import Meta

    return Meta(size=12345, isexec=True, md5="meta-md5", inode=7, mtime=1.5)


def run_roundtrip(ctx, n):
    """as_list -> json -> from_list / Tree.load: serialising and re-parsing is the identity"""
    from dvc_objects.fs.local import LocalFileSystem

    from dvc_data.hashfile.db import HashFileDB
    from dvc_data.hashfile.hash_info import HashInfo
    from dvc_data.hashfile.tree import Tree

    rng = ctx.rng
    odb = HashFileDB(LocalFileSystem(), os.path.join(ctx.mkdtemp(), "odb"))
    cases = []
    for _ in range(n):
        files = gen.rand_tree(rng, max_files=6)
        ents = [(k, (None, HashInfo("md5", md5hex(c)))) for k, c in files.items()]
        cases.append(ents)
    reqs = []
    for ents in cases:
        t = impl_tree(ents, range(len(ents)))
        lst = json.loads(t.as_bytes())
        reqs.append({"op": "tree_fromlist", "hash_name": None, "list": [[[k, v] for k, v in d.items()] for d in lst]})
    answers = ctx.driver.batch(reqs)
    for ents, ans in zip(cases, answers):
        case = {"roundtrip": entries_json(ents)}
        ctx.case(case, nontrivial=len(ents) >= 2)
        t = impl_tree(ents, range(len(ents)))
        t.digest()

        def f():
            t2 = Tree.from_list(json.loads(t.as_bytes()))
            odb.add(t.path, t.fs, t.oid)
            t3 = Tree.load(odb, t.hash_info)
            t3b = Tree.from_list(json.loads(t.as_bytes()))
            t3b.digest()
            return {"from_list": canon_impl_tree(t2), "load": canon_impl_tree(t3), "oid_again": t3b.oid}

        k, v = safe_call(f)
        orig = canon_impl_tree(t)
        model = canon_tree(ans["tree"]) if "tree" in ans else ans
        if k == "ok":
            ctx.corr("Tree.fromList~Tree.from_list", case, v["from_list"], model)
            ctx.oracle(v["from_list"] == orig and v["load"] == orig and v["oid_again"] == t.oid, case,
                       {"why": "re-parsed listing differs from the tree that was serialised", "impl": v, "orig": orig, "oid": t.oid})
        else:
            ctx.oracle(False, case, {"why": "round trip raised", "impl": v})


def run_escape_exhaustive(ctx, full):
    """escStr against json.dumps for every Unicode scalar value (BMP only in the quick tier)"""
    hi = 0x110000 if full else 0x10000
    step = 0x8000
    total = 0
    ok = True
    for lo in range(0, hi, step):
        ans = ctx.driver.ask({"op": "esc_range", "lo": lo, "hi": min(lo + step, hi)})["esc"]
        cps = [c for c in range(lo, min(lo + step, hi)) if not (0xD800 <= c <= 0xDFFF)]
        impl = [json.dumps(chr(c))[1:-1] for c in cps]
        total += len(cps)
        if impl != ans:
            ok = False
            i = next(i for i, (a, b) in enumerate(zip(impl, ans)) if a != b)
            ctx.corr("Json.esc~json.dumps (per code point)", {"codepoint": cps[i]}, impl[i], ans[i])
            break
    if not full:
        # sample the astral planes too
        cps = [ctx.rng.randrange(0x10000, 0x110000) for _ in range(3000)] + [0x10000, 0x10FFFF, 0x1F600]
        ans = ctx.driver.batch([{"op": "esc_range", "lo": c, "hi": c + 1} for c in cps])
        for c, a in zip(cps, ans):
            ctx.corr("Json.esc~json.dumps (astral sample)", {"codepoint": c}, [json.dumps(chr(c))[1:-1]], a["esc"])
        total += len(cps)
    ctx.evaluations += total
    ctx.traces += total
    ctx.exhaustive["string escaping for every Unicode scalar value" if full else "string escaping for every BMP scalar value (+3000 astral samples)"] = ok


def run_build(ctx, n):
    """staging real directories: jobs / large-file path / cold-warm state / walk order; sub-directory objects"""
    from dvc_objects.fs.local import LocalFileSystem

    from dvc_data.hashfile.build import build
    from dvc_data.hashfile.db.local import LocalHashFileDB
    from dvc_data.hashfile.state import State

    rng = ctx.rng
    fs = LocalFileSystem()
    reqs, work = [], []
    for i in range(n):
        root = ctx.mkdtemp()
        files = gen.rand_tree(rng, max_files=7)
        large = rng.random() < 0.25
        if large:
            # >= 2 files above the 1 MiB threshold route hashing through the unordered thread pool
            ks = list(files)
            for j in range(min(len(ks), rng.choice([2, 3]))):
                # mixed sizes: the first one is much larger, so the pool finishes the files out of submission order
                n = (6 * 2**20 if j == 0 else 2**20) + 1 + rng.randrange(0, 4096)
                files[ks[j]] = bytes([65 + j]) * n + files[ks[j]]
        ws = os.path.join(root, "ws")
        gen.materialize(ws, files, rng)
        use_state = rng.random() < 0.6
        state = State(root_dir=root, tmp_dir=os.path.join(root, "tmp")) if use_state else None
        kw = {"state": state} if state else {}
        odb = LocalHashFileDB(fs, os.path.join(root, "odb"), **kw)
        jobs = rng.choice([None, 1, 2, 8])
        warm = rng.choice(["cold", "warm", "partial", "warm-other-algorithm"]) if use_state else "nostate"
        if warm == "warm-other-algorithm":
            # text with CRLF line endings: the two md5 flavours differ exactly there
            files[("crlf-text.txt",)] = b"first line\r\nsecond line\r\n" + bytes(rng.choice(b"xyz") for _ in range(3))
            gen.materialize(ws, {("crlf-text.txt",): files[("crlf-text.txt",)]})
        ents = gen.tree_entries(files)
        case = {"build": True, "files": {"/".join(k): (v.hex() if len(v) < 64 else "len:%d" % len(v)) for k, v in files.items()},
                "jobs": jobs, "state": warm, "large": large}

        def f():
            if warm in ("warm", "partial"):
                build(odb, ws, fs, "md5", checksum_jobs=jobs)
            if warm == "warm-other-algorithm":
                # the shared hash-state cache already holds the legacy flavour's hashes of the very same files
                build(odb, ws, fs, "md5-dos2unix", checksum_jobs=jobs)
            if warm == "partial":
                # touch/add some files so that only part of the cache hits
                for k in list(files)[::2]:
                    p = os.path.join(ws, *k)
                    with open(p, "ab") as fh:
                        fh.write(b"+")
                    files[k] = files[k] + b"+"
                extra = ("zz-new",)
                if extra not in files and not any(kk[0] == "zz-new" for kk in files):
                    files[extra] = b"fresh"
                    gen.materialize(ws, {extra: b"fresh"})
            staging, meta, obj = build(odb, ws, fs, "md5", checksum_jobs=jobs)
            res = {"oid": obj.oid, "tree": canon_impl_tree(obj), "nfiles": meta.nfiles, "size": meta.size,
                   "bytes": obj.as_bytes().decode("ascii")}
            # sub-directory object vs direct build
            subs = sorted({k[:1] for k in files if len(k) > 1})
            if subs:
                p = subs[0]
                sub = obj.get_obj(staging, p)
                _, _, direct = build(odb, os.path.join(ws, *p), fs, "md5", checksum_jobs=jobs)
                res["sub"] = [list(p), sub.oid if sub is not None else None, direct.oid]
            return res

        k, v = safe_call(f)
        if state:
            state.close()
        ents = gen.tree_entries(files)
        ctx.case(case)
        ctx.count("build:state=%s" % warm)
        ctx.count("build:jobs=%s" % jobs)
        ctx.count("build:large=%s" % large)
        if k != "ok":
            ctx.oracle(False, case, {"why": "build raised", "impl": v})
            continue
        exp_tree = {"/".join(kk): ["md5", vv] for kk, vv in sorted(ents.items())}
        good = v["tree"] == dict(sorted(exp_tree.items())) and v["oid"] == gen.canonical_oid(ents)
        good = good and v["nfiles"] == len(files) and v["size"] == sum(len(c) for c in files.values())
        ctx.oracle(good, case, {"why": "staged tree is not the canonical function of the directory contents",
                                "impl": {kk: v[kk] for kk in ("oid", "tree", "nfiles", "size")}, "expected_oid": gen.canonical_oid(ents)})
        if "sub" in v:
            p, sub_oid, direct_oid = v["sub"]
            sub_ents = {kk[len(p):]: vv for kk, vv in ents.items() if list(kk[: len(p)]) == p and len(kk) > len(p)}
            ctx.oracle(sub_oid == direct_oid == gen.canonical_oid(sub_ents), case,
                       {"why": "sub-directory object differs from the object built directly", "get_obj": sub_oid, "direct": direct_oid})
        from dvc_data.hashfile.hash_info import HashInfo

        mreq = {"op": "tree_bytes", "with_meta": False,
                "entries": [{"key": list(kk), "meta": None, "hi": {"name": "md5", "value": vv}} for kk, vv in ents.items()]}
        reqs.append(mreq)
        work.append((case, v))
    for (case, v), ans in zip(work, ctx.driver.batch(reqs)):
        ctx.corr("Tree.digest(buildTree files)~build()", case, {"oid": v["oid"], "bytes": v["bytes"]}, {"oid": ans["oid"], "bytes": ans["bytes"]})


_CHUNK = 2**20  # the library reads (and, for the text-normalising flavour, converts) files in 1 MiB pieces
_FLAVOURS = ["md5-dos2unix", "md5", "sha256"]
_LARGE_KINDS = ["crlf-text", "lf-text", "binary-with-crlf"]


def _large_content(rng, kind, size):
    """a file body above the large-file threshold; no CRLF pair straddles a 1 MiB boundary, and text/binary-ness is the same
    in every piece, so that 'convert the whole file' and 'convert piece by piece' are the same function of the bytes"""
    if kind == "binary-with-crlf":
        block = b"\x00\x01bin\r\n" + bytes(rng.randrange(256) for _ in range(48)) + b"\r\n\x00tail\r\n"
        body = bytearray((block * (size // len(block) + 1))[:size])
    else:
        eol = b"\r\n" if kind == "crlf-text" else b"\n"
        lines = [bytes(rng.choice(b"abcdefgh,;01 ") for _ in range(rng.randrange(3, 40))) + eol for _ in range(rng.randrange(1, 6))]
        block = b"".join(lines)
        body = bytearray((block * (size // len(block) + 1))[:size])
        if kind == "crlf-text" and rng.random() < 0.5:
            body += b"last line without end"
    for cut in range(_CHUNK, len(body), _CHUNK):
        if body[cut - 1: cut + 1] == b"\r\n":
            body[cut - 1: cut + 1] = b"--"
    return bytes(body)


def ref_file_digest(name, content):
    """independent per-file digest: what `name` means for the bytes of one file, whatever else is in the directory"""
    import hashlib

    if name == "md5-dos2unix":
        is_text = 0 not in content[:512]
        assert all((0 not in content[c: c + 512]) == is_text for c in range(0, len(content), _CHUNK))
        return md5hex(content.replace(b"\r\n", b"\n") if is_text else content)
    if name == "md5":
        return md5hex(content)
    return hashlib.new(name, content).hexdigest()


def ref_listing_oid(name, digests):
    """independent encoder of the listing for any file-hash flavour (both md5 flavours are stored under the key 'md5')"""
    field = "md5" if name == "md5-dos2unix" else name
    lst = sorted(({field: v, "relpath": "/".join(k)} for k, v in digests.items()), key=lambda e: e["relpath"])
    return md5hex(json.dumps(lst, sort_keys=True).encode("utf-8")) + ".dir"


def run_build_flavours(ctx, n):
    """staging real directories under every file-hash flavour x 0..3 files above the large-file threshold at one directory
    level x kind of large body (CRLF text / LF text / binary holding CRLF): every entry carries the file's own digest (an
    independent per-file reference), the identifier is the identifier of that listing, and neither changes with the number of
    hashing threads, the large-file threshold, the presence of large siblings or a cold/warm hash-state cache"""
    import inspect

    from dvc_objects.fs.local import LocalFileSystem

    from dvc_data.hashfile import build as build_mod
    from dvc_data.hashfile.db.local import LocalHashFileDB
    from dvc_data.hashfile.state import State

    rng = ctx.rng
    fs = LocalFileSystem()
    has_threshold = "large_file_threshold" in inspect.signature(build_mod._build_files).parameters
    for i in range(n):
        # the grid flavour x number of large files is walked systematically; everything else is drawn
        name = _FLAVOURS[i % len(_FLAVOURS)]
        nlarge = [2, 3, 1, 0][(i // len(_FLAVOURS)) % 4]
        root = ctx.mkdtemp()
        files = gen.rand_tree(rng, max_files=4)
        level = rng.choice(sorted({k[:-1] for k in files}))
        kinds = rng.sample(_LARGE_KINDS, len(_LARGE_KINDS))[:nlarge]
        big = []
        for j, kind in enumerate(kinds):
            key = (*level, "big-%d.csv" % j)
            files[key] = _large_content(rng, kind, _CHUNK + 1 + rng.randrange(0, 3 * _CHUNK // 2))
            big.append(key)
        ws = os.path.join(root, "ws")
        gen.materialize(ws, files, rng)
        state_mode = rng.choice(["nostate", "cold", "warm"])
        state = State(root_dir=root, tmp_dir=os.path.join(root, "tmp")) if state_mode != "nostate" else None
        odb = LocalHashFileDB(fs, os.path.join(root, "odb"), **({"state": state} if state else {}))
        jobs = rng.choice([None, 1, 2, 8])
        case = {"build_flavours": True, "name": name, "jobs": jobs, "state": state_mode, "large": dict(zip(("/".join(k) for k in big), kinds)),
                "files": {"/".join(k): (v.hex() if len(v) < 64 else "len:%d md5:%s" % (len(v), md5hex(v))) for k, v in files.items()}}

        def f():
            res = {"builds": []}
            for _ in range(2 if state_mode == "warm" else 1):
                _, meta, obj = build_mod.build(odb, ws, fs, name, checksum_jobs=jobs)
                res["builds"].append({"oid": obj.hash_info.value, "tree": canon_impl_tree(obj), "nfiles": meta.nfiles})
            # the directory level holding the large files, hashed afresh (no cache) under other configurations
            d = os.path.join(ws, *level)
            here = sorted(k[-1] for k in files if k[:-1] == level)
            infos = {fn: fs.info(os.path.join(d, fn)) for fn in here}
            res["level"] = {}
            confs = [("jobs=%s" % j, {"jobs": j}) for j in (1, 2, 8)]
            if has_threshold:
                confs += [("threshold=%d,jobs=%s" % (t, jobs), {"jobs": jobs, "large_file_threshold": t}) for t in (2**10, 2**20, 2**40)]
            for label, kw in confs:
                objs = build_mod._build_files(d, dict(infos), fs, name, dry_run=True, **kw)
                res["level"][label] = {fn: [hi.name, hi.value] for fn, (_m, hi) in objs.items()}
            for key in big[:1]:
                objs = build_mod._build_files(d, {key[-1]: infos[key[-1]]}, fs, name, dry_run=True, jobs=jobs)
                res["level"]["alone:" + key[-1]] = {fn: [hi.name, hi.value] for fn, (_m, hi) in objs.items()}
            return res

        k, v = safe_call(f)
        if state:
            state.close()
        ctx.case(case)
        ctx.count("build_flavours:name=%s" % name)
        ctx.count("build_flavours:large=%d" % nlarge)
        ctx.count("build_flavours:state=%s" % state_mode)
        for kind in kinds:
            ctx.count("build_flavours:large-kind=%s" % kind)
        if k != "ok":
            ctx.oracle(False, case, {"why": "build raised", "impl": v})
            continue
        digests = {kk: ref_file_digest(name, c) for kk, c in files.items()}
        exp_tree = dict(sorted(("/".join(kk), [name, d]) for kk, d in digests.items()))
        exp_oid = ref_listing_oid(name, digests)
        for nth, b in enumerate(v["builds"]):
            wrong = {p: [b["tree"].get(p), e] for p, e in exp_tree.items() if b["tree"].get(p) != e}
            ctx.oracle(b["tree"] == exp_tree and b["oid"] == exp_oid and b["nfiles"] == len(files), case,
                       {"why": "staged tree is not the canonical function of the directory contents (entry: [recorded, file's own digest])",
                        "build": ["cold", "warm"][nth] if state_mode == "warm" else state_mode, "wrong_entries": wrong,
                        "oid": b["oid"], "expected_oid": exp_oid})
        exp_level = {kk[-1]: [name, d] for kk, d in digests.items() if kk[:-1] == level}
        for label, got in v["level"].items():
            exp = {fn: exp_level[fn] for fn in got} if label.startswith("alone:") else exp_level
            ctx.oracle(got == exp, case,
                       {"why": "digests recorded for one directory level depend on the hashing configuration (threads / large-file threshold / siblings)",
                        "configuration": label, "wrong_entries": {fn: [got.get(fn), e] for fn, e in exp.items() if got.get(fn) != e}})


def run_tree_history(ctx, n):
    """one Tree object that is queried (sub-tree, filter, listing) and then updated in place - entries re-added with a new hash,
    entries added - and queried again: every answer must equal the answer of a tree built afresh from the current entries"""
    from dvc_data.hashfile.hash_info import HashInfo
    from dvc_data.hashfile.tree import Tree

    rng = ctx.rng
    for _ in range(n):
        files = gen.rand_tree(rng, max_files=6, allow_odd=False)
        cur = {k: md5hex(v) for k, v in files.items()}
        t = Tree()
        for k, h in cur.items():
            t.add(k, None, HashInfo("md5", h))
        ops = []

        def view(tree, pfx):
            out = {}
            try:
                out["filter"] = sorted(("/".join(k), hi.value) for k, (_m, hi) in (tree.filter(pfx)._dict.items() if tree.filter(pfx) is not None else []))
            except Exception as e:  # noqa: BLE001
                out["filter"] = type(e).__name__
            try:
                o = tree.get_obj(None, pfx)
                if o is None:
                    out["get_obj"] = None
                elif hasattr(o, "digest"):
                    o.digest()
                    out["get_obj"] = o.hash_info.value
                else:
                    out["get_obj"] = o.value
            except Exception as e:  # noqa: BLE001
                out["get_obj"] = type(e).__name__
            try:
                out["ls"] = sorted(str(x) for x in tree.ls(pfx)) if hasattr(tree, "ls") else None
            except Exception as e:  # noqa: BLE001
                out["ls"] = type(e).__name__
            return out

        bad = None
        for step in range(rng.randrange(3, 8)):
            prefixes = sorted({k[:i] for k in cur for i in range(1, len(k))}) or [()]
            pfx = rng.choice(prefixes)
            r = rng.random()
            if r < 0.45:
                fresh = Tree()
                for k, h in cur.items():
                    fresh.add(k, None, HashInfo("md5", h))
                a, b = view(t, pfx), view(fresh, pfx)
                ops.append(["query", list(pfx)])
                if a != b and bad is None:
                    bad = {"why": "a tree updated in place answers differently from a tree built afresh from the same entries",
                           "prefix": list(pfx), "updated": a, "fresh": b}
            elif r < 0.8:
                k = rng.choice(sorted(cur))
                cur[k] = md5hex(b"new-%d" % rng.randrange(10**6))
                t.add(k, None, HashInfo("md5", cur[k]))
                ops.append(["re-add", list(k)])
            else:
                k = rng.choice(prefixes) + ("added-%d" % step,) if prefixes != [()] else ("added-%d" % step,)
                cur[k] = md5hex(b"add-%d" % rng.randrange(10**6))
                t.add(k, None, HashInfo("md5", cur[k]))
                ops.append(["add", list(k)])
        t.digest()
        case = {"tree_history": {"files": {"/".join(k): v for k, v in files.items() and {kk: md5hex(vv) for kk, vv in files.items()}.items()}, "ops": ops}}
        ctx.case(case, nontrivial=any(o[0] == "re-add" for o in ops))
        ctx.count("tree_history:ops=%d" % len(ops))
        ctx.oracle(bad is None, case, bad)
        ctx.oracle(t.hash_info.value == gen.canonical_oid(cur), case,
                   {"why": "identifier of a tree updated in place is not the canonical identifier of its entries", "got": t.hash_info.value})


def _listing_view(raw, hash_name="md5"):
    """what the bytes of a directory object say, read independently of where they came from: the entries, the identifier of
    those entries (parsed, serialised again without metadata, hashed), and the md5 of the bytes as they are; a listing written
    with metadata names no hash field of its own, it is parsed by saying which field is the hash (hash_name) - which reads a
    listing written without metadata just as well"""
    from dvc_data.hashfile.tree import Tree

    parsed = Tree.from_list(json.loads(raw), hash_name=hash_name)
    again = Tree.from_list(parsed.as_list())
    again.digest()
    return {"tree": canon_impl_tree(parsed), "oid": again.oid, "raw": md5hex(raw) + ".dir"}


def run_referenced_history(ctx, n):
    """one Tree object digested again and again while it keeps being amended (entries added, entries re-added with a new hash,
    digest with/without metadata); after each digest the object just produced is handed out the ways the library itself hands it
    out - the (path, fs, identifier) handle kept by a caller, a by-reference staging store (add_update_tree / build()'s staging),
    or copied into an object store at once.  An identifier names ONE listing for good: whenever later, and whatever happened to
    the Tree object since, every object obtained under an earlier identifier X (handle bytes, Tree.load from staging, the copy
    made by a late add() or transfer() into a real store) must still be the listing X was computed from"""
    from dvc_objects.fs import MemoryFileSystem
    from dvc_objects.fs.local import LocalFileSystem

    from dvc_data.hashfile.build import build
    from dvc_data.hashfile.db import add_update_tree
    from dvc_data.hashfile.db.local import LocalHashFileDB
    from dvc_data.hashfile.db.reference import ReferenceHashFileDB
    from dvc_data.hashfile.hash_info import HashInfo
    from dvc_data.hashfile.meta import Meta
    from dvc_data.hashfile.transfer import transfer
    from dvc_data.hashfile.tree import Tree

    rng = ctx.rng
    fs = LocalFileSystem()
    for _ in range(n):
        root = ctx.mkdtemp()
        opening = rng.choice(["entries", "entries", "build"])
        files = gen.rand_tree(rng, max_files=5, allow_odd=(opening == "entries"))
        cur = {k: md5hex(c) for k, c in files.items()}
        early = LocalHashFileDB(fs, os.path.join(root, "early"))  # copies made at once
        late = LocalHashFileDB(fs, os.path.join(root, "late"))  # copies made at the end of the history
        staging = ReferenceHashFileDB(MemoryFileSystem(), "memory://c03-referenced-%032x" % rng.getrandbits(128), hash_name="md5")
        snaps = []  # one per digest: identifier, the entries it was computed from, how the object was handed out
        ops = []
        bad = []

        def snapshot(tree, how, with_meta, store=None):
            snaps.append({"oid": tree.oid, "entries": dict(cur), "how": how, "with_meta": with_meta,
                          "handle": (tree.path, tree.fs), "store": store, "via": how})

        def audit(when):
            """every identifier handed out so far still names its own listing, wherever it can be read without writing"""
            # one identifier may have been handed out both with and without metadata (same entries): a store keeps either form
            plain = {s["oid"] for s in snaps} - {s["oid"] for s in snaps if s["with_meta"]}
            for i, s in enumerate(snaps):
                exp = {"tree": {"/".join(k): ["md5", v] for k, v in sorted(s["entries"].items())}, "oid": gen.canonical_oid(s["entries"])}
                if s["oid"] != exp["oid"]:
                    bad.append({"why": "identifier is not the canonical identifier of the entries it was computed from", "digest#": i,
                                "got": s["oid"], "expected": exp["oid"], "when": when})
                reads = []
                path, hfs = s["handle"]
                reads.append(("handle", not s["with_meta"], lambda: hfs.cat_file(path)))
                if s["store"] is not None:
                    def from_store(s=s):
                        o = s["store"].get(s["oid"])
                        return o.fs.cat_file(o.path)
                    reads.append((s["via"], s["oid"] in plain, from_store))
                for label, exact, rd in reads:
                    k, v = safe_call(lambda: _listing_view(rd()))
                    ok = k == "ok" and v["tree"] == exp["tree"] and v["oid"] == s["oid"] and (not exact or v["raw"] == s["oid"])
                    if not ok:
                        bad.append({"why": "the object handed out under an identifier is no longer the listing that identifier was computed from",
                                    "digest#": i, "identifier": s["oid"], "read_via": label, "when": when,
                                    "listing_then": sorted(exp["tree"]), "object_now": v if k != "ok" else
                                    {"listing": sorted(v["tree"]), "identifier_of_listing": v["oid"], "md5_of_bytes": v["raw"]}})
                if s["store"] is not None:
                    k, v = safe_call(lambda: canon_impl_tree(Tree.load(s["store"], HashInfo("md5", s["oid"]), hash_name="md5")))
                    if k != "ok" or v != exp["tree"]:
                        bad.append({"why": "Tree.load under an identifier does not give the listing that identifier was computed from",
                                    "digest#": i, "identifier": s["oid"], "store": s["via"], "when": when,
                                    "listing_then": sorted(exp["tree"]), "loaded": v if k != "ok" else sorted(v)})

        def history():
            if opening == "build":
                ws = os.path.join(root, "ws")
                gen.materialize(ws, files, rng)
                bstaging, _meta, t = build(late, ws, fs, "md5")
                snapshot(t, "build-staging", False, bstaging)
                ops.append(["build"])
                stage = bstaging  # later digests are staged where build() staged the first one
            else:
                t, stage = Tree(), staging
                for k in rng.sample(sorted(cur), len(cur)):
                    t.add(k, Meta(size=len(files[k])), HashInfo("md5", cur[k]))
            for step in range(rng.randrange(2, 6)):
                r = rng.random()
                if not (opening == "entries" and step == 0):
                    if r < 0.55:
                        k = (*rng.choice(sorted({kk[:-1] for kk in cur})), "added-%d" % step)
                        c = b"added-%d" % rng.randrange(10**6)
                        if opening == "build":
                            # the file shows up in the directory too (existing files are left alone: the earlier listings stay usable)
                            gen.materialize(ws, {k: c})
                        cur[k] = md5hex(c)
                        t.add(k, Meta(size=len(c)), HashInfo("md5", cur[k]))
                        ops.append(["add", list(k)])
                    elif r < 0.85 and opening == "entries":
                        k = rng.choice(sorted(cur))
                        cur[k] = md5hex(b"new-%d" % rng.randrange(10**6))
                        t.add(k, Meta(size=5), HashInfo("md5", cur[k]))
                        ops.append(["re-add", list(k)])
                    else:
                        ops.append(["unchanged"])
                # with metadata only in the in-memory opening: a listing staged with metadata cannot be read back without naming the
                # hash field, which transfer() does not do (build() itself never stages one)
                wm = opening == "entries" and rng.random() < 0.3
                t.digest(with_meta=wm)
                how = rng.choice(["handle", "staging", "staging", "store-now"])
                ops.append(["digest", {"with_meta": wm, "handed_out": how}])
                if how == "handle":
                    snapshot(t, how, wm)
                elif how == "staging":
                    snapshot(t, how, wm)
                    add_update_tree(stage, t)
                    snaps[-1]["store"] = stage
                else:
                    snapshot(t, how, wm)
                    add_update_tree(early, t)
                    snaps[-1]["store"] = early
                audit("after digest #%d" % (len(snaps) - 1))
            # the end of the history: the objects handed out by reference are finally copied into a real store
            for i, s in enumerate(snaps):
                if s["how"] == "store-now":
                    continue
                if s["how"] == "build-staging":
                    res = transfer(s["store"], late, {HashInfo("md5", s["oid"])}, shallow=False)
                    if res.failed:
                        bad.append({"why": "transfer of a staged directory failed", "digest#": i, "failed": sorted(h.value for h in res.failed)})
                        continue
                else:
                    path, hfs = s["handle"]
                    late.add(path, hfs, s["oid"])
                snaps[i] = dict(s, via="late %s of the object handed out by %s" % ("transfer" if s["how"] == "build-staging" else "add", s["how"]),
                                store=late)
            audit("after the late copies")
            if opening == "build":
                _, _, again = build(late, ws, fs, "md5")
                if again.oid != t.oid or t.oid != gen.canonical_oid(cur):
                    bad.append({"why": "amended tree and a fresh build of the directory disagree", "amended": t.oid, "fresh": again.oid})

        k, v = safe_call(history)
        case = {"referenced_history": {"opening": opening, "files": {"/".join(kk): md5hex(c) for kk, c in files.items()}, "ops": ops}}
        ctx.case(case, nontrivial=sum(1 for o in ops if o[0] in ("add", "re-add")) >= 1 and len(snaps) >= 2)
        ctx.count("referenced_history:opening=%s" % opening)
        ctx.count("referenced_history:digests=%d" % len(snaps))
        for s in snaps:
            ctx.count("referenced_history:handed_out=%s" % s["how"])
        if k != "ok" and not bad:
            ctx.oracle(False, case, {"why": "history raised", "impl": v})
            continue
        ctx.oracle(not bad, case, bad[0] if bad else None)


# regular files that stat() with st_size == 0 although reading them yields bytes (procfs; sysfs and many FUSE mounts behave alike);
# only entries whose content is stable are listed, and each is probed before use
_ZERO_STAT_CANDIDATES = ["/proc/sys/kernel/ostype", "/proc/sys/kernel/osrelease", "/proc/version", "/proc/filesystems",
                         "/proc/sys/kernel/pid_max", "/proc/sys/kernel/version", "/proc/cmdline"]
_SIZE_REPORTS = ["zero", "absent", "shorter", "longer", "above-large-file-threshold"]


def _zero_stat_sources():
    """{path: bytes} of the host's regular files whose stat() says 'empty' and whose reads say otherwise"""
    import stat

    out = {}
    for p in _ZERO_STAT_CANDIDATES:
        try:
            st = os.stat(p)
            if not stat.S_ISREG(st.st_mode) or st.st_size != 0:
                continue
            with open(p, "rb") as fh:
                a = fh.read()
            with open(p, "rb") as fh:
                b = fh.read()
        except OSError:
            continue
        if a and a == b and len(a) < 2**16:
            out[p] = a
    return out


def _reported_size(rng, how, true_size):
    if how == "zero":
        return 0
    if how == "absent":
        return None
    if how == "shorter":
        return rng.randrange(0, true_size) if true_size else 0
    if how == "longer":
        return true_size + rng.randrange(1, 5000)
    return 2**21 + 1 + rng.randrange(0, 2**30)


def _misreporting_memfs(reported):
    """a private in-memory file system whose listings, walk(detail=True) and info() report, for the paths in `reported`, the size
    given there (None: no size at all) instead of the number of bytes a read yields; reads are untouched"""
    from dvc_objects.fs import MemoryFileSystem
    from fsspec.implementations.memory import MemoryFileSystem as FsspecMemoryFileSystem

    class _Inner(FsspecMemoryFileSystem):
        cachable = False

        def _fix(self, e):
            if isinstance(e, dict) and e.get("type") == "file" and e.get("name") in reported:
                e = dict(e)
                if reported[e["name"]] is None:
                    e.pop("size", None)
                else:
                    e["size"] = reported[e["name"]]
            return e

        def ls(self, path, detail=True, **kwargs):
            out = [self._fix(e) for e in super().ls(path, detail=True, **kwargs)]
            return out if detail else sorted(e["name"] for e in out)

        def info(self, path, **kwargs):
            return self._fix(super().info(path, **kwargs))

    inner = _Inner()
    inner.store = {}
    inner.pseudo_dirs = [""]
    return MemoryFileSystem(fs=inner)


def run_build_stat_views(ctx, n):
    """one set of (relative path, content) pairs staged through several views that differ ONLY in what stat()/listings say about
    the files: a plain local directory; the same directory where some entries are symlinks to regular files that stat as empty
    but read as non-empty (procfs, when the host has it); an in-memory file system that reports the truth; the same file system
    reporting, for some files, a size of 0 / no size / too short / too long / above the large-file threshold.  Under every view,
    file-hash flavour, job count, dry-run / by-reference / upload staging (and a cold, then warm, hash-state cache on the local
    views) the listing carries each file's own digest and the identifier is the identifier of that listing; staging one of the
    misreported files on its own gives that file's digest too"""
    from dvc_objects.fs.local import LocalFileSystem

    from dvc_data.hashfile import build as build_mod
    from dvc_data.hashfile.db.local import LocalHashFileDB
    from dvc_data.hashfile.state import State

    rng = ctx.rng
    local = LocalFileSystem()
    sources = _zero_stat_sources()
    ctx.count("stat_views:zero-stat files on this host=%d" % len(sources))
    for i in range(n):
        root = ctx.mkdtemp()
        files = gen.rand_tree(rng, max_files=5)
        keys = sorted(files)
        odd = rng.sample(keys, min(len(keys), rng.choice([1, 1, 2, 3])))
        # every second case (when the host has such files) the misreported entries hold what a zero-stat file of the host holds,
        # so that the symlink view can be staged next to the others; otherwise they keep their drawn content, made non-empty
        linked = {}
        if sources and i % 2 == 0:
            for k in odd:
                linked[k] = rng.choice(sorted(sources))
                files[k] = sources[linked[k]]
        else:
            for k in odd:
                files[k] = files[k] or bytes(rng.choice(b"abcdefgh\n") for _ in range(rng.randrange(1, 30)))
        how = {k: (_SIZE_REPORTS[(i // 2 + j) % len(_SIZE_REPORTS)] if j == 0 else rng.choice(_SIZE_REPORTS)) for j, k in enumerate(odd)}
        name = _FLAVOURS[i % len(_FLAVOURS)]
        jobs = rng.choice([None, 1, 2, 8])
        # one hash-state cache shared by all the stagings of the local views: the first staging of a view finds it cold, the later ones warm
        state_mode = rng.choice(["nostate", "cold-then-warm"])

        mroot = "/c03-stat-views-%032x/ws" % rng.getrandbits(128)
        reported = {"/".join((mroot, *k)): _reported_size(rng, how[k], len(files[k])) for k in odd}
        views = {}
        ws = os.path.join(root, "regular")
        gen.materialize(ws, files, rng)
        views["local:regular files"] = (local, ws)
        if linked:
            ws2 = os.path.join(root, "symlinks")
            gen.materialize(ws2, {k: c for k, c in files.items() if k not in linked}, rng)
            for k, src in linked.items():
                os.makedirs(os.path.dirname(os.path.join(ws2, *k)), exist_ok=True)
                os.symlink(src, os.path.join(ws2, *k))
            views["local:symlinks to files that stat as empty"] = (local, ws2)
        for label, rep in (("memory:true sizes", {}), ("memory:misreported sizes", reported)):
            mfs = _misreporting_memfs(rep)
            for k in rng.sample(keys, len(keys)):
                p = "/".join((mroot, *k))
                mfs.fs.mkdirs(p.rsplit("/", 1)[0], exist_ok=True)
                mfs.fs.pipe_file(p, files[k])
            views[label] = (mfs, mroot)

        modes = ["dry-run", "by-reference"] + (["upload"] if name == "md5" else [])
        case = {"build_stat_views": True, "name": name, "jobs": jobs, "state": state_mode,
                "files": {"/".join(k): v.hex() if len(v) < 64 else "len:%d md5:%s" % (len(v), md5hex(v)) for k, v in files.items()},
                "misreported": {"/".join(k): {"size_reported": how[k], "as": reported["/".join((mroot, *k))], "true_size": len(files[k]),
                                              "symlink_to": linked.get(k)} for k in odd}}
        state = State(root_dir=root, tmp_dir=os.path.join(root, "state")) if state_mode != "nostate" else None

        def f():
            res = {}
            for label, (vfs, path) in views.items():
                for mode in modes:
                    kw = {"dry_run": True} if mode == "dry-run" else {"upload": True} if mode == "upload" else {}
                    st = state if vfs is local else None
                    odb = LocalHashFileDB(local, os.path.join(root, "odb-%d" % len(res)), **({"state": st} if st else {}))
                    _, meta, obj = build_mod.build(odb, path, vfs, name, checksum_jobs=jobs, **kw)
                    res["%s / %s" % (label, mode)] = {"oid": obj.hash_info.value, "tree": canon_impl_tree(obj), "nfiles": meta.nfiles}
                    # one of the misreported files staged on its own: the identifier of a file is its digest
                    k0 = odd[0]
                    _, _m, fobj = build_mod.build(odb, vfs.join(path, *k0), vfs, name, **kw)
                    res["%s / %s / %s alone" % (label, mode, "/".join(k0))] = {"file": fobj.hash_info.value}
            return res

        k, v = safe_call(f)
        if state:
            state.close()
        ctx.case(case)
        ctx.count("stat_views:name=%s" % name)
        ctx.count("stat_views:state=%s" % state_mode)
        ctx.count("stat_views:views=%d" % len(views))
        for kk in odd:
            ctx.count("stat_views:size reported=%s" % how[kk])
        if linked:
            ctx.count("stat_views:symlinks to zero-stat files=%d" % len(linked))
            if any(_zero_stat_sources().get(src) != sources[src] for src in linked.values()):
                # the host changed the content under us: nothing can be concluded from this case
                ctx.count("stat_views:zero-stat source changed during the case")
                continue
        if k != "ok":
            ctx.oracle(False, case, {"why": "build raised", "impl": v})
            continue
        digests = {kk: ref_file_digest(name, c) for kk, c in files.items()}
        exp_tree = dict(sorted(("/".join(kk), [name, d]) for kk, d in digests.items()))
        exp_oid = ref_listing_oid(name, digests)
        for label, got in v.items():
            if "file" in got:
                exp = digests[odd[0]]  # (the object got back from a store carries the store's hash name: only the value is compared)
                ctx.oracle(got["file"] == exp, case,
                           {"why": "a file staged on its own is not identified by the digest of its content (what stat() reports about it matters)",
                            "view / staging": label, "got": got["file"], "file's own digest": exp})
                continue
            wrong = {p: [got["tree"].get(p), e] for p, e in exp_tree.items() if got["tree"].get(p) != e}
            ctx.oracle(got["tree"] == exp_tree and got["oid"] == exp_oid and got["nfiles"] == len(files), case,
                       {"why": "the identifier of a directory depends on what stat()/listings report about its files, not only on the "
                               "(relative path, content digest) pairs (entry: [recorded, file's own digest])",
                        "view / staging": label, "wrong_entries": wrong, "oid": got["oid"], "expected_oid": exp_oid})


def run_path(ctx, n):
    rng = ctx.rng
    keys = []
    for _ in range(n):
        keys.append([gen.rand_name(rng) if rng.random() < 0.9 else "" for _ in range(rng.randrange(1, 5))])
    strings = ["/".join(k) for k in keys] + ["", "/", "a//b", "/a", "a/"]
    ans = ctx.driver.ask({"op": "path", "keys": keys, "strings": strings})
    for k, j in zip(keys, ans["joined"]):
        ctx.corr("Path.joinC~'/'.join", {"key": k}, "/".join(k), j)
    for s, sp in zip(strings, ans["split"]):
        ctx.corr("Path.splitC~str.split", {"string": s}, s.split("/"), sp)
    ctx.evaluations += len(keys) + len(strings)


def run(ctx):
    ctx.rule = (
        "entry sets (1-7 files, nested, odd names incl. quotes/backslash/newline/non-ASCII/'.dir', empty or missing hashes, "
        "every Meta field combination) x 6 insertion orders x with/without meta; real directories staged with jobs in "
        "{None,1,2,8}; Tree objects queried, updated in place (entries re-added with new hashes) and queried again; >=2 files over 1 MiB (thread-pool path), state cold/warm/partially warm/warm with the other md5 flavour's hashes, creation order permuted; "
        "real directories staged under each file-hash flavour {md5-dos2unix, md5, sha256} x 0-3 files over 1 MiB at one directory level "
        "(CRLF text / LF text / binary holding CRLF) x jobs x state none/cold/warm, every entry compared with an independent per-file "
        "digest, and that level re-hashed under jobs {1,2,8}, large-file thresholds {1 KiB, 1 MiB, 1 TiB} and with a large file on its own; "
        "one Tree object (entries added in memory, or build() of a real directory) digested 2-6 times with/without metadata while it is amended "
        "(entries added, re-added with a new hash, left unchanged), each digest handed out as a (path, fs) handle / to a by-reference staging "
        "store (add_update_tree, build()'s staging) / copied into a store at once, every earlier identifier re-read after every later digest and "
        "after a late add()/transfer() into a real store: its object is still the listing it was computed from; "
        "one set of (relative path, content) pairs staged through views that differ only in what stat()/listings report about 1-3 of the files "
        "(plain local directory; symlinks to the host's regular files that stat as empty but read as non-empty (procfs), when there are any; "
        "an in-memory file system reporting true sizes; the same reporting size 0 / no size / too short / too long / above the large-file "
        "threshold) x flavour {md5-dos2unix, md5, sha256} x jobs x dry-run / by-reference / upload staging x state none / cold-then-warm on the local "
        "views, plus one misreported file staged on its own: every listing carries each file's own digest and every view gives the one identifier; "
        "non-trivial = >= 2 entries; distinct = sha256 of the canonical case"
    )
    ctx.assumptions = [
        "real thread scheduling is represented by 'any completion order' in the model",
        "file names are valid Unicode (no lone surrogates)",
        "distinct listings collide under MD5 only with negligible probability (theorems are about the bytes)",
    ]
    run_escape_exhaustive(ctx, full=(ctx.tier == "thorough"))
    run_path(ctx, ctx.n(200, 2000))
    run_entry_sets(ctx, ctx.n(400, 5000))
    run_roundtrip(ctx, ctx.n(150, 2000))
    run_build(ctx, ctx.n(60, 500))
    run_build_flavours(ctx, ctx.n(24, 144))
    run_tree_history(ctx, ctx.n(120, 1500))
    run_referenced_history(ctx, ctx.n(100, 1000))
    run_build_stat_views(ctx, ctx.n(24, 300))


def search(ctx):
    run_entry_sets(ctx, 5000)
    run_roundtrip(ctx, 2000)
    run_build(ctx, 400)
    run_build_flavours(ctx, 144)
    run_tree_history(ctx, 1500)
    run_referenced_history(ctx, 1000)
    run_build_stat_views(ctx, 300)


def replay(ctx, payload):
    # every case derives from the run's PRNG: replay re-runs the recorded (tier, seed)
    run(ctx)
