"""C16, transfer(..., verify=True): two writers of one object, the interleaving pinned with audit hooks and the public
`validate_status` hook of transfer().

  B  finishes its status query (object absent)                      A  waits
  A  copies and renames the object into place                       B  waits
  B  truncating probe of the final name (open O_TRUNC)              A  waits at its post-copy verification
  A  verifies: reads the now empty file, decides to remove it       B  unlinks its probe, copies, renames its own good copy
  A  removes the object (B's good copy), reports it as failed       B  verifies: FileNotFoundError is swallowed, reports success

Prints one JSON line: {"A": ..., "B": ..., "object_ok": bool}."""
import hashlib
import json
import logging
import os
import sys
import tempfile
import threading

HERE = os.path.dirname(os.path.dirname(os.path.abspath(__file__)))
REPO = os.environ.get("DVC_DATA_REPO", "/repo")
sys.path.insert(0, HERE)
sys.path.insert(0, os.path.join(REPO, "src"))


def main():
    logging.disable(logging.CRITICAL)
    from dvc_objects.fs.local import LocalFileSystem

    from dvc_data.hashfile.build import build
    from dvc_data.hashfile.db.local import LocalHashFileDB
    from dvc_data.hashfile.state import State
    from dvc_data.hashfile.transfer import transfer

    root = tempfile.mkdtemp(prefix="c16-verify-", dir=sys.argv[1] if len(sys.argv) > 1 else None)
    fs = LocalFileSystem()
    odbp = os.path.join(root, "odb")
    os.makedirs(odbp)
    data = b"verified content\n"
    oid = hashlib.md5(data).hexdigest()
    P = os.path.join(odbp, oid[:2], oid[2:])
    for w in "AB":
        os.makedirs(os.path.join(root, "ws-" + w))
        with open(os.path.join(root, "ws-" + w, "f"), "wb") as f:
            f.write(data)
    a_at_read, b_at_unlink, a_done, b_checked = (threading.Event() for _ in range(4))
    a_at_remove, b_renamed = threading.Event(), threading.Event()
    renamed = {"A": False, "B": False}
    T = 40

    def hook(ev, args):
        n = threading.current_thread().name
        if n == "A":
            if ev == "os.rename" and args[1] == P:
                renamed["A"] = True
            elif ev == "open" and args[0] == P and renamed["A"] and not a_at_read.is_set():
                a_at_read.set()
                b_at_unlink.wait(T)
            elif ev == "os.remove" and args[0] == P and a_at_read.is_set() and not a_at_remove.is_set():
                a_at_remove.set()
                b_renamed.wait(T)
        elif n == "B":
            if ev == "os.remove" and args[0] == P and a_at_read.is_set() and not b_at_unlink.is_set():
                b_at_unlink.set()
                a_at_remove.wait(T)
            elif ev == "os.rename" and args[1] == P:
                renamed["B"] = True
            elif ev == "open" and args[0] == P and renamed["B"] and not b_renamed.is_set():
                b_renamed.set()
                a_done.wait(T)

    sys.addaudithook(hook)
    out = {}

    def writer(w):
        st = State(root_dir=root, tmp_dir=os.path.join(root, "state"))
        odb = LocalHashFileDB(fs, odbp, state=st)
        if w == "A":
            b_checked.wait(T)
        staging, _, obj = build(odb, os.path.join(root, "ws-" + w, "f"), fs, "md5")

        def vs(status):
            if w == "B":
                b_checked.set()
                a_at_read.wait(T)

        try:
            res = transfer(staging, odb, {obj.hash_info}, shallow=False, verify=True, validate_status=vs)
            out[w] = {"failed": sorted(h.value for h in res.failed)}
        except BaseException as e:  # noqa: BLE001
            out[w] = {"raised": type(e).__name__}
        if w == "A":
            a_done.set()
        st.close()

    ts = [threading.Thread(target=writer, args=(w,), name=w) for w in "AB"]
    for t in ts:
        t.start()
    for t in ts:
        t.join()
    ok = os.path.exists(P) and open(P, "rb").read() == data
    print(json.dumps({"A": out.get("A"), "B": out.get("B"), "object_ok": ok, "oid": oid,
                      "pinned": all(e.is_set() for e in (a_at_read, b_at_unlink, a_at_remove, b_renamed))}))


if __name__ == "__main__":
    main()
