"""Controlled interleaving of real writer threads (C16).

usage: python -m harness.sched_child <job.json>      (prints one JSON line)

job = {"root": dir, "uid": int|null, "writers": [{"oid": .., "src": path}, ..], "schedule": [writer index, ..]}

Every writer is a real thread doing `LocalHashFileDB(...).add(src, fs, oid)` with its own store
handle and its own State handle on the shared store / state database.  Each operation on an
object's *final* name (the existence check's stat, the integrity check's read, the reflink
probe's open(O_TRUNC), unlink, rename into place, chmod) and the hash-state transaction is a
schedule point: the thread blocks there until the controller, following the given schedule,
lets it perform that one operation.  Operations on private temp names are not schedule points
(they commute with everything other writers do: `exec_frame_tmp`).  After every step the
controller records what is under every final name.  Nothing is patched in /repo; the
interception (audit hook + two wrapped functions) lives in this process only.
"""
import json
import os
import stat
import sys
import threading

sys.dont_write_bytecode = True
HERE = os.path.dirname(os.path.dirname(os.path.abspath(__file__)))
REPO = os.environ.get("DVC_DATA_REPO", "/repo")
sys.path.insert(0, HERE)
sys.path.insert(0, os.path.join(REPO, "src"))
import logging  # noqa: E402

logging.disable(logging.CRITICAL)
import hashlib  # noqa: E402


class Controller:
    def __init__(self, n, odb_path, oids):
        self.n = n
        self.odb = odb_path
        self.oids = oids
        self.cv = threading.Condition()
        self.waiting = {}  # widx -> (kind, oid)
        self.finished = {}  # widx -> outcome
        self.granted = None
        self.steps = []
        self.active = True

    # ---- writer side
    def arrive(self, i, kind, oid):
        with self.cv:
            self.waiting[i] = (kind, oid)
            self.cv.notify_all()
            while self.granted != i:
                self.cv.wait()
            self.granted = None
            del self.waiting[i]
            self.running = i

    def finish(self, i, outcome):
        with self.cv:
            self.finished[i] = outcome
            self.cv.notify_all()

    # ---- controller side
    def snapshot(self):
        out = {}
        for oid in self.oids:
            p = os.path.join(self.odb, oid[:2], oid[2:])
            try:
                with open(p, "rb") as f:
                    b = f.read()
                m = stat.S_IMODE(os.stat(p).st_mode)
                out[oid] = {"len": len(b), "ok": hashlib.md5(b).hexdigest() == oid.split(".")[0], "prot": m == 0o444}
            except FileNotFoundError:
                out[oid] = None
        return out

    def settled(self, i):
        return i in self.waiting or i in self.finished

    def run(self, schedule):
        sched = list(schedule)
        rr = 0
        while True:
            with self.cv:
                # wait until every writer is at a schedule point or finished (or blocked behind a paused one)
                ok = self.cv.wait_for(lambda: all(self.settled(i) for i in range(self.n)), timeout=20.0)
                ready = sorted(self.waiting)
                if not ready:
                    if len(self.finished) == self.n:
                        return
                    if not ok:
                        raise RuntimeError("deadlock: no writer at a schedule point; finished=%s" % sorted(self.finished))
                    continue
                pick = None
                while sched:
                    c = sched.pop(0)
                    if c in ready:
                        pick = c
                        break
                if pick is None:
                    pick = ready[rr % len(ready)]
                    rr += 1
                kind, oid = self.waiting[pick]
                self.granted = pick
                self.cv.notify_all()
                # wait until that writer reaches its next point / finishes
                self.cv.wait_for(lambda: self.granted is None and self.settled(pick), timeout=20.0)
            self.steps.append({"w": pick, "kind": kind, "oid": oid, "after": self.snapshot(),
                               "done": self.finished.get(pick)})


def main():
    job = json.load(open(sys.argv[1]))
    root = job["root"]
    odb_path = os.path.join(root, "odb")

    from dvc_objects.fs.local import LocalFileSystem

    import dvc_data.hashfile.db.local as dblocal
    from dvc_data.hashfile.db.local import LocalHashFileDB
    from dvc_data.hashfile.state import State
    import dvc_objects.fs.generic  # noqa: F401
    import dvc_data.hashfile.hash  # noqa: F401
    import sqlite3  # noqa: F401
    import diskcache  # noqa: F401

    writers = job["writers"]
    oids = sorted({w["oid"] for w in writers} | set(job.get("watch", [])))
    ctl = Controller(len(writers), odb_path, oids)
    prefix = odb_path + os.sep

    def final_oid(p):
        try:
            p = os.fspath(p)
        except TypeError:
            return None
        if not isinstance(p, str) or not p.startswith(prefix):
            return None
        parts = p[len(prefix):].split(os.sep)
        if len(parts) != 2 or len(parts[0]) != 2 or parts[1].endswith(".tmp"):
            return None
        return parts[0] + parts[1]

    def me():
        return getattr(threading.current_thread(), "widx", None)

    def hook(event, args):
        i = me()
        if i is None or not ctl.active:
            return
        if event == "open":
            oid = final_oid(args[0])
            if oid is None:
                return
            flags = args[2] if isinstance(args[2], int) else 0
            mode = args[1] if isinstance(args[1], str) else ""
            if flags & os.O_TRUNC or "w" in mode:
                ctl.arrive(i, "probe", oid)
            else:
                ctl.arrive(i, "read", oid)
        elif event == "os.rename":
            oid = final_oid(args[1])
            if oid is not None:
                ctl.arrive(i, "rename", oid)
        elif event == "os.remove":
            oid = final_oid(args[0])
            if oid is not None:
                ctl.arrive(i, "unlink", oid)
        elif event == "os.chmod":
            oid = final_oid(args[0])
            if oid is not None:
                ctl.arrive(i, "chmod:%o" % args[1], oid)

    sys.addaudithook(hook)
    real_info = dblocal._localfs_info

    def info(path):
        i = me()
        oid = final_oid(path)
        if i is not None and oid is not None and ctl.active:
            ctl.arrive(i, "stat", oid)
        return real_info(path)

    dblocal._localfs_info = info
    real_save_many = State.save_many

    def save_many(self, items, fs):
        items = list(items)
        i = me()
        os_ = [final_oid(it[0]) for it in items]
        os_ = [o for o in os_ if o]
        if i is not None and os_ and ctl.active:
            ctl.arrive(i, "save", os_[0])
        return real_save_many(self, items, fs)

    State.save_many = save_many

    if job.get("uid") is not None:
        os.setgid(job["uid"])
        os.setuid(job["uid"])

    fs = LocalFileSystem()

    def writer(i):
        w = writers[i]
        st = None
        try:
            st = State(root_dir=root, tmp_dir=os.path.join(root, "state"))
            odb = LocalHashFileDB(fs, odb_path, state=st)
            odb.add(w["src"], fs, w["oid"], check_exists=w.get("check_exists", True))
            out = "ok"
        except BaseException as e:  # noqa: BLE001
            out = "error:%s" % type(e).__name__
        finally:
            if st is not None:
                try:
                    st.close()
                except Exception:  # noqa: BLE001
                    pass
        ctl.finish(i, out)

    ths = []
    for i in range(len(writers)):
        t = threading.Thread(target=writer, args=(i,), name="w%d" % i, daemon=True)
        t.widx = i
        ths.append(t)
    for t in ths:
        t.start()
    err = None
    try:
        ctl.run(job["schedule"])
    except RuntimeError as e:
        err = str(e)
    ctl.active = False
    print(json.dumps({"steps": ctl.steps, "outcomes": [ctl.finished.get(i) for i in range(len(writers))],
                      "final": ctl.snapshot(), "error": err}))
    sys.stdout.flush()
    os._exit(0)


if __name__ == "__main__":
    main()
