"""C16 — concurrent writers cannot corrupt a shared store or state database
(db/__init__.py, db/local.py, build.py, cache.py, state.py)."""
import json
import os
import random
import subprocess
import sys
import threading
import time

from . import core, gen, stores
from .c15 import audit, conformance
from .util import md5hex, safe_call

PY = sys.executable
_POOL = None


def content_pool():
    """contents whose md5 share 2-hex prefixes (so that different writers create / reuse the same fan-out directories)"""
    global _POOL
    if _POOL is None:
        by = {}
        i = 0
        while sum(1 for v in by.values() if len(v) >= 4) < 5:
            b = b"blob-%d" % i
            by.setdefault(md5hex(b)[:2], []).append(b)
            i += 1
        _POOL = [b for v in by.values() if len(v) >= 4 for b in v[:4]]
    return _POOL


def make_workspaces(rng, root, nwriters, rounds):
    pool = content_pool()
    plan = []
    for w in range(nwriters):
        ws_list = []
        for r in range(rounds):
            files = {}
            for j in range(rng.randrange(2, 6)):
                files[("f%d" % j,) if rng.random() < 0.6 else ("sub", "g%d" % j)] = rng.choice(pool)
            if rng.random() < 0.6:
                files[("copy_of_f",)] = files[sorted(files)[0]]  # identical bytes at the same level
                if ("f0",) in files:
                    files[("f0_again",)] = files[("f0",)]
            d = os.path.join(root, "ws-%d-%d" % (w, r))
            gen.materialize(d, files)
            ws_list.append((d, files))
        plan.append(ws_list)
    return plan


def expected(plan):
    objs = set()
    trees = []
    for ws_list in plan:
        for d, files in ws_list:
            ents = gen.tree_entries(files)
            objs.update(ents.values())
            toid = gen.canonical_oid(ents)
            objs.add(toid)
            trees.append((d, toid, ents))
    return objs, trees


def run_threads(ctx, rng, nwriters, rounds):
    from dvc_data.hashfile.build import build
    from dvc_data.hashfile.db.local import LocalHashFileDB
    from dvc_data.hashfile.state import State
    from dvc_data.hashfile.transfer import transfer

    root = ctx.mkdtemp()
    plan = make_workspaces(rng, root, nwriters, rounds)
    fs = stores.fs_local()
    odb_path = os.path.join(root, "odb")
    os.makedirs(odb_path)
    errors, results = [], []
    perturb = random.Random(rng.randrange(10**9))
    lock = threading.Lock()
    on = {"v": True}

    def hook(event, args):
        if on["v"] and event in ("open", "os.rename", "os.mkdir", "os.chmod", "os.remove", "os.link", "shutil.copyfile") and args and isinstance(args[0], str) and args[0].startswith(root):
            with lock:
                r = perturb.random()
            if r < 0.25:
                time.sleep(0.0005 + r / 100)
            elif r < 0.5:
                time.sleep(0)

    sys.addaudithook(hook)

    def writer(w):
        st = State(root_dir=root, tmp_dir=os.path.join(root, "state"))
        try:
            odb = LocalHashFileDB(fs, odb_path, state=st)  # every writer has its own handle on the shared store
            for d, files in plan[w]:
                staging, meta, obj = build(odb, d, fs, "md5")
                res = transfer(staging, odb, {obj.hash_info}, shallow=False)
                if res.failed:
                    raise RuntimeError("transfer reported failures: %s" % sorted(h.value for h in res.failed))
                results.append((d, obj.oid))
        except BaseException as e:  # noqa: BLE001
            errors.append("%s: %s" % (type(e).__name__, e))
        finally:
            st.close()

    ts = [threading.Thread(target=writer, args=(w,)) for w in range(nwriters)]
    for t in ts:
        t.start()
    for t in ts:
        t.join(timeout=120)
    on["v"] = False
    return root, plan, errors, results


def run_processes(ctx, rng, nwriters, rounds):
    root = ctx.mkdtemp()
    plan = make_workspaces(rng, root, nwriters, 1)
    os.makedirs(os.path.join(root, "odb"))
    procs = []
    for w in range(nwriters):
        env = dict(os.environ, VERIF_WRITER_WS=plan[w][0][0])
        tf = os.path.join(root, "trace-%d.json" % w)
        procs.append((w, tf, subprocess.Popen([PY, "-m", "harness.crash_child", root, "writer", "-1", "none", tf], cwd=core.VERIF,
                                              stdout=subprocess.PIPE, stderr=subprocess.PIPE, text=True, env=env)))
    errors, results, traces = [], [], []
    for w, tf, p in procs:
        out, err = p.communicate(timeout=180)
        if p.returncode != 0:
            errors.append("writer %d exit %d: %s" % (w, p.returncode, err[-300:]))
        for line in out.splitlines():
            if line.startswith("TREE "):
                results.append((plan[w][0][0], line.split()[1]))
        if os.path.exists(tf):
            traces.append(json.load(open(tf)))
    return root, plan, errors, results, traces


def check(ctx, mode, root, plan, errors, results, case):
    objs, trees = expected(plan)
    probs, valid, present = audit(root, after_rerun=True)
    ctx.oracle(not errors, case, {"why": "a concurrent writer failed", "errors": errors[:3]})
    for p in probs:
        ctx.oracle(False, case, p)
    missing = sorted(objs - set(valid))
    ctx.oracle(not missing, case, {"why": "an object some writer requested is missing or invalid afterwards", "missing": missing})
    extra = sorted(set(present) - objs)
    ctx.oracle(not extra, case, {"why": "the final store depends on the interleaving: unexpected objects", "extra": extra})
    got = dict(results)
    for d, toid, ents in trees:
        if d in got:
            ctx.oracle(got[d] == toid, case, {"why": "a writer's directory object does not list exactly what it staged", "ws": os.path.basename(d),
                                              "got": got[d], "expected": toid})
        if toid in valid:
            lst = json.loads(stores.read_obj(os.path.join(root, "odb"), toid))
            ctx.oracle({e["relpath"]: e["md5"] for e in lst} == {"/".join(k): v for k, v in ents.items()}, case,
                       {"why": "a directory object in the store lists something else than its writer staged", "oid": toid})


def run(ctx):
    ctx.rule = (
        "N writers (2-8 threads with their own store handles and state handles in one process; 2-4 separate processes) stage and "
        "transfer 1-3 workspaces each into one local store sharing one hash-state database; contents are drawn from a pool whose "
        "md5s share fan-out prefixes, with identical files at the same level; thread scheduling is perturbed by sleeps/yields "
        "injected from an audit hook at filesystem-operation boundaries. non-trivial = every run (heavy overlap by construction)"
    )
    ctx.assumptions = ["the GIL, SQLite busy-timeouts and C-level races are not exhibited by the model; the perturbed runs are supporting evidence",
                       "a second writer's reflink probe on a name another writer is just creating is a transient the step model does not show"]
    rng = ctx.rng
    for i in range(ctx.n(14, 150)):
        n = rng.choice([2, 3, 4, 8])
        rounds = rng.choice([1, 2, 3])
        root, plan, errors, results = run_threads(ctx, rng, n, rounds)
        case = {"mode": "threads", "writers": n, "rounds": rounds, "run": i,
                "workspaces": [[{"/".join(k): md5hex(v) for k, v in files.items()} for _, files in wl] for wl in plan]}
        ctx.case(case)
        ctx.count("threads:%d" % n)
        check(ctx, "threads", root, plan, errors, results, case)
        stores  # noqa: B018
    for i in range(ctx.n(5, 40)):
        n = rng.choice([2, 3, 4])
        root, plan, errors, results, traces = run_processes(ctx, rng, n, 1)
        case = {"mode": "processes", "writers": n, "run": i,
                "workspaces": [[{"/".join(k): md5hex(v) for k, v in files.items()} for _, files in wl] for wl in plan]}
        ctx.case(case)
        ctx.count("processes:%d" % n)
        check(ctx, "processes", root, plan, errors, results, case)
        for tr in traces:
            conformance(ctx, "writer", tr, root, None)


def search(ctx):
    run(ctx)


def replay(ctx, payload):
    run(ctx)
