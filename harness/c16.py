"""C16 — concurrent writers cannot corrupt a shared store or state database
(db/__init__.py, db/local.py, build.py, cache.py, state.py)."""
import json
import os
import random
import subprocess
import sys
import threading
import time

from . import core, gen, stores
from .c15 import audit, conformance
from .util import md5hex, safe_call

PY = sys.executable
_POOL = None


def content_pool():
    """contents whose md5 share 2-hex prefixes (so that different writers create / reuse the same fan-out directories)"""
    global _POOL
    if _POOL is None:
        by = {}
        i = 0
        while sum(1 for v in by.values() if len(v) >= 4) < 5:
            b = b"blob-%d" % i
            by.setdefault(md5hex(b)[:2], []).append(b)
            i += 1
        _POOL = [b for v in by.values() if len(v) >= 4 for b in v[:4]]
    return _POOL


def make_workspaces(rng, root, nwriters, rounds, large=False):
    pool = content_pool()
    if large:
        # files above the large-file threshold of very different sizes: the hashing pool finishes them out of order
        pool = pool[:6] + [b"L" * (5 * 2**20 + 7), b"M" * (2**20 + 11), b"N" * (2**20 + 13), b"O" * (3 * 2**20 + 1)]
    plan = []
    for w in range(nwriters):
        ws_list = []
        for r in range(rounds):
            files = {}
            for j in range(rng.randrange(2, 6)):
                files[("f%d" % j,) if rng.random() < 0.6 else ("sub", "g%d" % j)] = rng.choice(pool)
            if large:
                for j, c in enumerate(rng.sample(pool[6:], 3)):
                    files[("big%d" % j,)] = c
            if rng.random() < 0.6:
                files[("copy_of_f",)] = files[sorted(files)[0]]  # identical bytes at the same level
                if ("f0",) in files:
                    files[("f0_again",)] = files[("f0",)]
            d = os.path.join(root, "ws-%d-%d" % (w, r))
            gen.materialize(d, files)
            ws_list.append((d, files))
        plan.append(ws_list)
    return plan


def expected(plan):
    objs = set()
    trees = []
    for ws_list in plan:
        for d, files in ws_list:
            ents = gen.tree_entries(files)
            objs.update(ents.values())
            toid = gen.canonical_oid(ents)
            objs.add(toid)
            trees.append((d, toid, ents))
    return objs, trees


def run_threads(ctx, rng, nwriters, rounds, large=False, identical=False):
    from dvc_data.hashfile.build import build
    from dvc_data.hashfile.db.local import LocalHashFileDB
    from dvc_data.hashfile.state import State
    from dvc_data.hashfile.transfer import transfer

    root = ctx.mkdtemp()
    plan = make_workspaces(rng, root, nwriters, rounds, large)
    if identical:
        # every writer stages a byte-identical directory: the same directory object from all of them, at the same time
        import shutil

        for w in range(1, nwriters):
            for r in range(len(plan[w])):
                shutil.rmtree(plan[w][r][0])
                shutil.copytree(plan[0][r][0], plan[w][r][0])
                plan[w][r] = (plan[w][r][0], dict(plan[0][r][1]))
    barrier = threading.Barrier(nwriters) if identical else None

    def meet():
        if barrier is not None:
            try:
                barrier.wait(timeout=1.5)
            except threading.BrokenBarrierError:
                pass

    from fsspec.callbacks import Callback

    class MeetCb(Callback):
        # `set_size` fires right after a batch's sources were opened: let everybody open before anybody copies
        def set_size(self, size):
            meet()
            return super().set_size(size)

    fs = stores.fs_local()
    odb_path = os.path.join(root, "odb")
    os.makedirs(odb_path)
    errors, results = [], []
    perturb = random.Random(rng.randrange(10**9))
    lock = threading.Lock()
    on = {"v": True}

    def hook(event, args):
        if on["v"] and event in ("open", "os.rename", "os.mkdir", "os.chmod", "os.remove", "os.link", "shutil.copyfile") and args and isinstance(args[0], str) and args[0].startswith(root):
            with lock:
                r = perturb.random()
            if r < 0.25:
                time.sleep(0.0005 + r / 100)
            elif r < 0.5:
                time.sleep(0)

    sys.addaudithook(hook)

    def writer(w):
        st = State(root_dir=root, tmp_dir=os.path.join(root, "state"))
        try:
            odb = LocalHashFileDB(fs, odb_path, state=st)  # every writer has its own handle on the shared store
            for d, files in plan[w]:
                staging, meta, obj = build(odb, d, fs, "md5")
                meet()
                res = transfer(staging, odb, {obj.hash_info}, shallow=False, **({"callback": MeetCb()} if identical else {}))
                if res.failed:
                    raise RuntimeError("transfer reported failures: %s" % sorted(h.value for h in res.failed))
                results.append((d, obj.oid))
        except BaseException as e:  # noqa: BLE001
            errors.append("%s: %s" % (type(e).__name__, e))
        finally:
            st.close()

    ts = [threading.Thread(target=writer, args=(w,)) for w in range(nwriters)]
    for t in ts:
        t.start()
    for t in ts:
        t.join(timeout=120)
    on["v"] = False
    return root, plan, errors, results


def run_processes(ctx, rng, nwriters, rounds):
    root = ctx.mkdtemp()
    plan = make_workspaces(rng, root, nwriters, 1)
    os.makedirs(os.path.join(root, "odb"))
    procs = []
    for w in range(nwriters):
        env = dict(os.environ, VERIF_WRITER_WS=plan[w][0][0])
        tf = os.path.join(root, "trace-%d.json" % w)
        procs.append((w, tf, subprocess.Popen([PY, "-m", "harness.crash_child", root, "writer", "-1", "none", tf], cwd=core.VERIF,
                                              stdout=subprocess.PIPE, stderr=subprocess.PIPE, text=True, env=env)))
    errors, results, traces = [], [], []
    for w, tf, p in procs:
        out, err = p.communicate(timeout=180)
        if p.returncode != 0:
            errors.append("writer %d exit %d: %s" % (w, p.returncode, err[-300:]))
        for line in out.splitlines():
            if line.startswith("TREE "):
                results.append((plan[w][0][0], line.split()[1]))
        if os.path.exists(tf):
            traces.append(json.load(open(tf)))
    return root, plan, errors, results, traces


def check(ctx, mode, root, plan, errors, results, case):
    objs, trees = expected(plan)
    probs, valid, present = audit(root, after_rerun=True)
    ctx.oracle(not errors, case, {"why": "a concurrent writer failed", "errors": errors[:3]})
    for p in probs:
        ctx.oracle(False, case, p)
    missing = sorted(objs - set(valid))
    ctx.oracle(not missing, case, {"why": "an object some writer requested is missing or invalid afterwards", "missing": missing})
    extra = sorted(set(present) - objs)
    ctx.oracle(not extra, case, {"why": "the final store depends on the interleaving: unexpected objects", "extra": extra})
    got = dict(results)
    for d, toid, ents in trees:
        if d in got:
            ctx.oracle(got[d] == toid, case, {"why": "a writer's directory object does not list exactly what it staged", "ws": os.path.basename(d),
                                              "got": got[d], "expected": toid})
        if toid in valid:
            lst = json.loads(stores.read_obj(os.path.join(root, "odb"), toid))
            ctx.oracle({e["relpath"]: e["md5"] for e in lst} == {"/".join(k): v for k, v in ents.items()}, case,
                       {"why": "a directory object in the store lists something else than its writer staged", "oid": toid})


# ---------------------------------------------------------------- one writer held mid-copy, the other runs up to its store listings
class _Listing:
    """an `os.scandir` iterator that reports when the listing has been taken completely (exhausted or closed)"""

    def __init__(self, it, done):
        self._it, self._done, self._fired, self._names = it, done, False, set()

    def _fire(self):
        if not self._fired:
            self._fired = True
            self._done(self._names)

    def __iter__(self):
        return self

    def __next__(self):
        try:
            e = next(self._it)
        except StopIteration:
            self._fire()
            raise
        self._names.add(e.name)
        return e

    def close(self):
        self._it.close()
        self._fire()

    def __enter__(self):
        return self

    def __exit__(self, *exc):
        self.close()
        return False


def held_workspaces(root, tag, sizes, nshared):
    """one directory per writer; the first `nshared` files of every writer have the same contents (same objects, same
    fan-out directories), the others are the writer's own; a few files live in a subdirectory; identical bytes twice"""
    plan = []
    for w, n in enumerate(sizes):
        files = {}
        for i in range(n):
            c = (b"held-%d-common-%d" % (tag, i)) if i < nshared else (b"held-%d-own-%d-%d" % (tag, w, i))
            files[("sub", "g%03d" % i) if i % 7 == 3 else ("f%03d" % i,)] = c
        files[("copy_of_first",)] = files[sorted(files)[0]]
        d = os.path.join(root, "ws-%d-0" % w)
        gen.materialize(d, files)
        plan.append([(d, files)])
    return plan


def run_held(ctx, rng, sizes, nshared, hold_at, max_holds, shared_state):
    """Schedule family: writer 0 is stopped inside a copy into the store when its temporary file is complete and the rename
    into place is still to come (first at its `hold_at`-th copy, then at every later one, `max_holds` times at most); only
    then do the other writers start (writer 1, and optionally a free-running writer 2).  Whenever another thread has taken a
    *directory listing* below the store that shows the stopped writer's temporary file, writer 0 is released and the lister
    waits until the rename has happened - what it listed is stale when it goes on.  When writer 1 has finished, writer 0
    is released for good.  Events only, no sleeps."""
    import dvc_objects.fs.local as objects_local
    from dvc_data.hashfile.build import build
    from dvc_data.hashfile.db.local import LocalHashFileDB
    from dvc_data.hashfile.state import State
    from dvc_data.hashfile.transfer import transfer

    root = ctx.mkdtemp()
    plan = held_workspaces(root, rng.randrange(10**6), sizes, nshared)
    fs = stores.fs_local()
    odb_path = os.path.join(root, "odb")
    os.makedirs(odb_path)
    below_store = odb_path + os.sep
    ws0 = plan[0][0][0] + os.sep
    WAIT = 60
    started = threading.Event()   # writer 0 is stopped for the first time (or is gone)
    info = {"hold": None, "copies": 0, "holds": 0, "stale_listings": 0, "store_listings": 0, "others_done": False, "stuck": []}
    lock = threading.Lock()
    errors, results = [], []

    orig_copyfile, orig_scandir, orig_listdir = objects_local.copyfile, os.scandir, os.listdir
    orig_replace, orig_rename = os.replace, os.rename

    def copyfile(src, dest, *a, **kw):
        ret = orig_copyfile(src, dest, *a, **kw)
        if isinstance(src, str) and isinstance(dest, str) and src.startswith(ws0) and dest.startswith(below_store):
            hold = None
            with lock:
                k = info["copies"]
                info["copies"] += 1
                if k >= hold_at and info["holds"] < max_holds and info["hold"] is None and not info["others_done"]:
                    hold = info["hold"] = {"tmp": dest, "thread": threading.current_thread(), "go": threading.Event(),
                                           "renamed": threading.Event()}
                    info["holds"] += 1
            if hold is not None:
                started.set()
                if not hold["go"].wait(WAIT):
                    info["stuck"].append("the stopped writer was never released")
        return ret

    def mover(orig):
        def move(src, dst, *a, **kw):
            try:
                return orig(src, dst, *a, **kw)
            finally:
                with lock:
                    hold = info["hold"]
                    if hold is not None and src == hold["tmp"]:
                        info["hold"] = None
                        hold["renamed"].set()
        return move

    def listed(path, names):
        if not (isinstance(path, str) and (path + os.sep).startswith(below_store)):
            return
        with lock:
            info["store_listings"] += 1
            hold = info["hold"]
            if hold is None or hold["thread"] is threading.current_thread() or hold["go"].is_set():
                return
            if os.path.dirname(hold["tmp"]) != os.path.normpath(path) or os.path.basename(hold["tmp"]) not in names:
                return
            info["stale_listings"] += 1
        hold["go"].set()
        if not hold["renamed"].wait(WAIT):
            info["stuck"].append("the stopped writer's rename never happened")

    def scandir(path=".", *a, **kw):
        it = orig_scandir(path, *a, **kw)
        if isinstance(path, str) and (path + os.sep).startswith(below_store):
            return _Listing(it, lambda names: listed(path, names))
        return it

    def listdir(path=".", *a, **kw):
        ret = orig_listdir(path, *a, **kw)
        listed(path, set(ret))
        return ret

    def release_for_good():
        with lock:
            info["others_done"] = True
            hold = info["hold"]
        if hold is not None:
            hold["go"].set()

    one_state = State(root_dir=root, tmp_dir=os.path.join(root, "state")) if shared_state else None

    def writer(w):
        st = one_state or State(root_dir=root, tmp_dir=os.path.join(root, "state"))
        try:
            if w > 0 and not started.wait(WAIT):
                info["stuck"].append("writer 0 never reached its copy")
            odb = LocalHashFileDB(fs, odb_path, state=st)
            for d, files in plan[w]:
                staging, meta, obj = build(odb, d, fs, "md5")
                res = transfer(staging, odb, {obj.hash_info}, shallow=False)
                if res.failed:
                    raise RuntimeError("transfer reported failures: %s" % sorted(h.value for h in res.failed)[:5])
                results.append((d, obj.oid))
        except BaseException as e:  # noqa: BLE001
            errors.append("writer %d: %s: %s" % (w, type(e).__name__, e))
        finally:
            if w == 0:      # never leave the others waiting for a writer that is gone
                started.set()
                with lock:
                    hold, info["hold"] = info["hold"], None
                if hold is not None:
                    hold["renamed"].set()
            elif w == 1:
                release_for_good()
            if one_state is None:
                st.close()

    objects_local.copyfile, os.scandir, os.listdir = copyfile, scandir, listdir
    os.replace, os.rename = mover(orig_replace), mover(orig_rename)
    try:
        ts = [threading.Thread(target=writer, args=(w,)) for w in range(len(plan))]
        for t in ts:
            t.start()
        for t in ts:
            t.join(timeout=4 * WAIT)
        alive = [t for t in ts if t.is_alive()]
    finally:
        release_for_good()
        objects_local.copyfile, os.scandir, os.listdir = orig_copyfile, orig_scandir, orig_listdir
        os.replace, os.rename = orig_replace, orig_rename
        if one_state is not None:
            one_state.close()
    if alive or info["stuck"]:
        raise core.Infra("held-writer round did not follow its schedule: %s" % (info["stuck"] or "a writer is stuck"))
    return root, plan, errors, results, info


def held_rounds(ctx, n_rounds):
    """sizes of (stopped writer, running writer): a few files / a few hundred (every size-dependent path of the status query)"""
    rng = ctx.rng
    for i in range(n_rounds):
        big0, big1 = [(False, True), (True, True), (False, True), (True, False), (False, False)][i % 5]
        sizes = [rng.randrange(280, 340) if big else rng.randrange(2, 9) for big in (big0, big1)]
        free_writer = rng.random() < 0.3
        if free_writer:
            sizes.append(rng.randrange(2, 40))
        nshared = max(1, int(min(sizes[:2]) * rng.choice([1.0, 1.0, 0.5, 0.2])))
        hold_at = rng.choice([0, 0, 0, 1, 2, rng.randrange(0, min(sizes[0], 6))])
        max_holds = rng.choice([1, 1, 3, 10**6])
        shared_state = rng.random() < 0.5
        root, plan, errors, results, info = run_held(ctx, rng, sizes, nshared, hold_at, max_holds, shared_state)
        case = {"mode": "held-writer", "run": i, "files_per_writer": sizes, "first_files_shared": nshared, "first_stop_at_copy": hold_at,
                "stops_at_most": max_holds, "one_state_handle": shared_state, "free_writer": free_writer, "stops": info["holds"],
                "store_listings_by_others": info["store_listings"], "listings_showing_the_stopped_writers_temp_file": info["stale_listings"],
                "workspaces": "ws-<w>-0: file i is 'held-<tag>-common-<i>' for i < first_files_shared else 'held-<tag>-own-<w>-<i>'"}
        ctx.case(case)
        ctx.count("held-writer:stopped=%s running=%s" % ("large" if big0 else "small", "large" if big1 else "small"))
        ctx.count("held-writer:released-by-%s" % ("stale-store-listing" if info["stale_listings"] else "end-of-other-writer"))
        ctx.count("held-writer:one-state-handle=%s" % shared_state)
        ctx.count("held-writer:writer-0-was-stopped=%s" % (info["holds"] > 0))
        check(ctx, "held-writer", root, plan, errors, results, case)


# ---------------------------------------------------------------- one writer loses source files while the others are mid-transfer
def run_faulted(ctx, tag, sizes, nshared, lose, park_at, shared_state):
    """Schedule family: writer 0 stages its directory, makes its status query (the store is empty: everything is new) and is
    stopped right before its first `add` into the store.  Only then do the healthy writers (writer 1, optionally writer 2)
    start: each stages and transfers its directory and is parked inside its `add` right before its `park_at[w]`-th
    write-protection (its copies are all in place by then; never parked when it protects fewer objects: it simply finishes).
    When every healthy writer is parked or done, the files of writer 0 holding the contents `lose` vanish from its workspace
    (an I/O fault of writer 0 alone, hit before any destination is opened) and writer 0 goes on: it cannot add those
    objects.  When writer 0 has returned, the parked writers are released.  Events only, no sleeps: apart from the two
    healthy writers racing each other up to their park points the schedule is fully determined."""
    from dvc_data.hashfile.build import build
    from dvc_data.hashfile.db.local import LocalHashFileDB
    from dvc_data.hashfile.state import State
    from dvc_data.hashfile.transfer import transfer

    root = ctx.mkdtemp()
    plan = held_workspaces(root, tag, sizes, nshared)
    fs = stores.fs_local()
    odb_path = os.path.join(root, "odb")
    os.makedirs(odb_path)
    WAIT = 60
    at_add = threading.Event()      # writer 0 has its status and is about to add (or is gone)
    parked = {w: threading.Event() for w in range(1, len(sizes))}   # writer w is parked before a write-protection (or is gone)
    w0_back = threading.Event()     # writer 0 has returned from its transfer (or is gone)
    info = {"parked_before_protect": {}, "protects": dict.fromkeys(parked, 0), "stuck": []}
    d0, files0 = plan[0][0]
    lost_paths = [os.path.join(d0, *k) for k, c in files0.items() if c in lose]
    outcome = {}                    # writer -> ("ok", tree oid, transferred, failed) | ("raised", text)
    one_state = State(root_dir=root, tmp_dir=os.path.join(root, "state")) if shared_state else None

    def writer(w):
        st = one_state or State(root_dir=root, tmp_dir=os.path.join(root, "state"))
        try:
            if w > 0 and not at_add.wait(WAIT):
                info["stuck"].append("writer 0 never got to its first add")
            odb = LocalHashFileDB(fs, odb_path, state=st)
            if w == 0:
                orig_add, first = odb.add, [True]

                def held_add(*a, **kw):
                    if first[0]:
                        first[0] = False
                        at_add.set()
                        for v, ev in parked.items():
                            if not ev.wait(WAIT):
                                info["stuck"].append("writer %d was never parked and never finished" % v)
                        for p in lost_paths:
                            os.unlink(p)
                    return orig_add(*a, **kw)

                odb.add = held_add
            else:
                orig_protect = odb.protect

                def held_protect(path):
                    k = info["protects"][w]
                    info["protects"][w] += 1
                    if k == park_at[w]:
                        info["parked_before_protect"][w] = k
                        parked[w].set()
                        if not w0_back.wait(WAIT):
                            info["stuck"].append("writer 0 never returned")
                    return orig_protect(path)

                odb.protect = held_protect
            d, files = plan[w][0]
            staging, meta, obj = build(odb, d, fs, "md5")
            res = transfer(staging, odb, {obj.hash_info}, shallow=False)
            outcome[w] = ("ok", obj.oid, sorted(h.value for h in res.transferred), sorted(h.value for h in res.failed))
        except BaseException as e:  # noqa: BLE001
            outcome[w] = ("raised", "%s: %s" % (type(e).__name__, e))
        finally:
            if w == 0:      # never leave the others waiting for a writer that is gone
                at_add.set()
                w0_back.set()
            else:
                parked[w].set()
            if one_state is None:
                st.close()

    ts = [threading.Thread(target=writer, args=(w,)) for w in range(len(plan))]
    try:
        for t in ts:
            t.start()
        for t in ts:
            t.join(timeout=4 * WAIT)
        alive = [t for t in ts if t.is_alive()]
    finally:
        at_add.set()
        w0_back.set()
        for ev in parked.values():
            ev.set()
    if alive or info["stuck"]:
        if one_state is not None:
            one_state.close()
        raise core.Infra("faulted-writer round did not follow its schedule: %s" % (info["stuck"] or "a writer is stuck"))
    probs, valid, present = audit(root)

    # multi-step history: the lost files are back, writer 0 tries again (undisturbed)
    for p in lost_paths:
        with open(p, "wb") as f:
            f.write(files0[tuple(os.path.relpath(p, d0).split(os.sep))])
    st = one_state or State(root_dir=root, tmp_dir=os.path.join(root, "state"))
    errors, results = [], [(plan[w][0][0], outcome[w][1]) for w in range(1, len(plan)) if outcome[w][0] == "ok"]
    try:
        odb = LocalHashFileDB(fs, odb_path, state=st)
        staging, meta, obj = build(odb, d0, fs, "md5")
        res = transfer(staging, odb, {obj.hash_info}, shallow=False)
        if res.failed:
            errors.append("writer 0, second attempt: transfer reported failures: %s" % sorted(h.value for h in res.failed)[:5])
        results.append((d0, obj.oid))
    except BaseException as e:  # noqa: BLE001
        errors.append("writer 0, second attempt: %s: %s" % (type(e).__name__, e))
    finally:
        st.close()
    return root, plan, outcome, info, (probs, set(valid), set(present)), errors, results


def faulted_rounds(ctx, n_rounds):
    """A writer that cannot read some of its own files has to say so - and that is all that may happen: everybody else
    succeeds, and what they requested is in the store, complete, under its own name."""
    rng = ctx.rng
    for i in range(n_rounds):
        sizes = [rng.randrange(2, 9), rng.randrange(2, 9)]
        third_writer = rng.random() < 0.3
        if third_writer:
            sizes.append(rng.randrange(2, 12))
        nshared = rng.randrange(1, min(sizes[0] - 1, sizes[1]) + 1)   # writer 0 has a file of its own: no two directories alike
        # where writer 1 waits for writer 0's failure: before its first write-protection (every copy in place, nothing protected),
        # before a later one, or nowhere (it has finished before writer 0 goes on)
        modes = {1: ["first-protect", "later-protect", "nowhere"][i % 3]}
        if third_writer:
            modes[2] = rng.choice(["first-protect", "later-protect", "nowhere"])
        park_at = {w: {"first-protect": 0, "later-protect": rng.randrange(1, sizes[w] + 1), "nowhere": 10**6}[m] for w, m in modes.items()}
        common = [b for b in range(nshared)]
        own = [b for b in range(nshared, sizes[0])]
        # what writer 0 loses: contents it shares with the others and / or contents of its own, never nothing
        if i % 2 == 0:
            lose_idx = set(rng.sample(common, rng.randrange(1, len(common) + 1))) | {j for j in own if rng.random() < 0.3}
        else:
            lose_idx = {j for j in common if rng.random() < 0.3} | set(rng.sample(own, rng.randrange(1, len(own) + 1)))
        shared_state = rng.random() < 0.5
        tag = rng.randrange(10**6)
        lose = {(b"held-%d-common-%d" % (tag, j)) if j < nshared else (b"held-%d-own-%d-%d" % (tag, 0, j)) for j in lose_idx}
        root, plan, outcome, info, (probs, valid, present), errors, results = run_faulted(ctx, tag, sizes, nshared, lose, park_at, shared_state)
        d0, files0 = plan[0][0]
        lost = {md5hex(c) for c in lose}
        case = {"mode": "faulted-writer", "run": i, "files_per_writer": sizes, "first_files_shared": nshared,
                "writer_0_loses_files": sorted(lose_idx), "lost_objects": sorted(lost), "writers_park_before_protect": {str(w): k for w, k in park_at.items()},
                "writers_were_parked_before_protect": {str(w): k for w, k in info["parked_before_protect"].items()},
                "one_state_handle": shared_state, "outcomes": {str(w): outcome[w] for w in sorted(outcome)},
                "workspaces": "ws-<w>-0: file i is 'held-%d-common-<i>' for i < first_files_shared else 'held-%d-own-<w>-<i>', plus "
                              "copy_of_first = file 0; schedule: writer 0 status | writer 1 (and 2) up to their park points | writer 0 loses "
                              "the files and adds | writer 1 (and 2) go on | files restored, writer 0 again" % (tag, tag)}
        ctx.case(case)
        for w, m in modes.items():
            ctx.count("faulted-writer:writer-%d-parks=%s" % (w, m))
            ctx.count("faulted-writer:writer-%d-was-parked=%s" % (w, w in info["parked_before_protect"]))
        ctx.count("faulted-writer:loses-shared=%s loses-own=%s" % (any(j < nshared for j in lose_idx), any(j >= nshared for j in lose_idx)))
        ctx.count("faulted-writer:one-state-handle=%s" % shared_state)
        ctx.count("faulted-writer:writers=%d" % len(sizes))
        # --- the store right after the concurrent phase
        for p in probs:
            ctx.oracle(False, case, p)
        healthy_objs = set()
        for w in range(1, len(plan)):
            d, files = plan[w][0]
            ents = gen.tree_entries(files)
            toid = gen.canonical_oid(ents)
            healthy_objs |= set(ents.values()) | {toid}
            ok = outcome[w][0] == "ok" and not outcome[w][3]
            ctx.oracle(ok, case, {"why": "a writer that lost nothing failed because another writer lost a file", "writer": w, "outcome": outcome[w]})
            if not ok:
                continue
            ctx.oracle(outcome[w][1] == toid, case, {"why": "a writer's directory object does not list exactly what it staged", "writer": w,
                                                    "got": outcome[w][1], "expected": toid})
            missing = sorted((set(ents.values()) | {toid}) - valid)
            ctx.oracle(not missing, case, {"why": "a writer succeeded, yet an object it requested is missing or invalid in the store "
                                                  "(another writer's failed add took it away)", "writer": w, "missing": missing})
            if toid in valid:
                lst = json.loads(stores.read_obj(os.path.join(root, "odb"), toid))
                ctx.oracle({e["relpath"]: e["md5"] for e in lst} == {"/".join(k): v for k, v in ents.items()}, case,
                           {"why": "a directory object in the store lists something else than its writer staged", "oid": toid})
        ents0 = gen.tree_entries(files0)
        toid0 = gen.canonical_oid(ents0)
        if ctx.oracle(outcome[0][0] == "ok", case, {"why": "the writer that lost files raised instead of reporting them", "outcome": outcome[0]}):
            _, got0, transferred0, failed0 = outcome[0]
            ctx.oracle(got0 == toid0, case, {"why": "a writer's directory object does not list exactly what it staged", "writer": 0})
            ctx.oracle(set(failed0) == lost | {toid0}, case,
                       {"why": "the writer that lost files does not report exactly the lost objects and its directory as failed",
                        "reported": failed0, "lost": sorted(lost), "directory": toid0})
            gone = sorted(set(transferred0) - valid)
            ctx.oracle(not gone, case, {"why": "an object reported as transferred is missing or invalid in the store", "writer": 0, "missing": gone})
        ctx.oracle(toid0 not in present, case, {"why": "the directory object of a writer that lost files is in the store", "oid": toid0})
        extra = sorted(present - healthy_objs - (set(ents0.values()) - lost))
        ctx.oracle(not extra, case, {"why": "unexpected objects in the store", "extra": extra})
        # --- after the second attempt of writer 0 everything everybody requested is there
        check(ctx, "faulted-writer", root, plan, errors, results, case)


# ---------------------------------------------------------------- controlled interleavings (model correspondence)
EMPTY_OID ="d41d8cd98f00b204e9800998ecf8427e"
KIND_PCS = {"stat": {"stat", "restat"}, "read": {"read", "reread"}, "unlink": {"discard", "unlink", "rediscard"},
            "chmod:444": {"vprotect", "protect"}, "probe": {"probe"}, "rename": {"create"}, "save": {"save"}}
NOBODY = 65534


def gen_job(rng, root, can_setuid):
    os.makedirs(root)
    contents = [rng.choice([b"shared content", b"x", b"", b"another object\n"]) for _ in range(rng.choice([1, 1, 2]))]
    contents = list(dict.fromkeys(contents))
    uid = NOBODY if (can_setuid and rng.random() < 0.6) else None
    os.makedirs(os.path.join(root, "odb"))
    pre = []
    for c in contents:
        oid = md5hex(c)
        kind = rng.choice(["absent", "absent", "absent", "good-prot", "good-unprot", "empty-unprot", "junk-unprot"])
        if kind == "absent" or (kind == "empty-unprot" and c == b""):
            continue
        data = {"good-prot": c, "good-unprot": c, "empty-unprot": b"", "junk-unprot": b"junk!"}[kind]
        stores.put_raw(os.path.join(root, "odb"), oid, data, mode=0o444 if kind == "good-prot" else 0o644)
        pre.append({"oid": oid, "data": data.hex(), "prot": kind == "good-prot"})
    n = rng.choice([2, 2, 3, 3, 4])
    writers = []
    for i in range(n):
        c = rng.choice(contents)
        src = os.path.join(root, "src%d" % i)
        with open(src, "wb") as f:
            f.write(c)
        # `transfer()` passes check_exists=False (it made a status query of its own some time before)
        writers.append({"oid": md5hex(c), "src": src, "data": c.hex(), "check_exists": rng.random() >= 0.4})
    style = rng.random()
    if style < 0.35:   # long runs of one writer (exposes check-then-act windows)
        sched = []
        while len(sched) < 14 * n:
            sched += [rng.randrange(n)] * rng.randrange(1, 8)
    else:
        sched = [rng.randrange(n) for _ in range(14 * n)]
    if uid is not None:
        os.chmod(os.path.dirname(root), 0o755)
        for d, _, fs_ in os.walk(root):
            os.chown(d, uid, uid)
            for f in fs_:
                os.chown(os.path.join(d, f), uid, uid)
    return {"root": root, "uid": uid, "writers": writers, "schedule": sched, "pre": pre,
            "watch": sorted({w["oid"] for w in writers})}


def run_real(job):
    jf = os.path.join(job["root"], "job.json")
    with open(jf, "w") as f:
        json.dump(job, f)
    os.chmod(jf, 0o644)
    p = subprocess.run([PY, "-m", "harness.sched_child", jf], cwd=core.VERIF, capture_output=True, text=True, timeout=120)
    if p.returncode != 0 or not p.stdout.strip():
        raise core.Infra("sched_child failed: %s" % p.stderr[-400:])
    return json.loads(p.stdout.strip().splitlines()[-1])


def plan_of(job, real):
    """[(real step index | None, writer, number of model steps)]: the schedule the real run actually followed, expanded
    to model steps.  A rename stands for create + appends + rename (temp names are private).  An integrity check that is
    answered by the shared hash-state database (another writer has hashed this very file incarnation) reads nothing: it
    is the model's read placed immediately after the stat."""
    plan = []
    steps = real["steps"]
    for k, st in enumerate(steps):
        w = job["writers"][st["w"]]
        nchunks = 1 if w["data"] else 0
        plan.append((k, st["w"], (nchunks + 2) if st["kind"] == "rename" else 1))
        if st["kind"] == "stat":
            v = st["after"].get(st["oid"])
            nxt = next((x for x in steps[k + 1:] if x["w"] == st["w"]), None)
            if v is not None and not v["prot"] and (nxt is None or nxt["kind"] != "read"):
                plan.append((None, st["w"], 1))
    return plan


def root_semantics(job):
    return job["uid"] is None and os.geteuid() == 0


def model_request(job, real):
    sched = []
    for _, w, n in plan_of(job, real):
        sched += [w] * n
    root_sem = root_semantics(job)
    return {"op": "sched", "root": root_sem, "objs": job["pre"], "watch": job["watch"],
            "threads": [{"oid": w["oid"], "tmp": i, "chunks": [w["data"]] if w["data"] else [], "check_exists": w.get("check_exists", True)}
                        for i, w in enumerate(job["writers"])],
            "sched": sched}


def compare(job, real, model):
    """[] when the model's run of the same schedule shows what the real threads did"""
    diffs = []
    mi = 0
    msteps = model["steps"]
    for k, w, n in plan_of(job, real):
        m = msteps[mi]
        if k is None:
            if m["pc"] not in ("read", "reread"):
                diffs.append("implicit read of writer %d: the model writer is at %s" % (w, m["pc"]))
                break
            mi += 1
            continue
        st = real["steps"][k]
        if m["pc"] not in KIND_PCS.get(st["kind"], ()):
            diffs.append("step %d: writer %d does %s, the model writer is at %s" % (k, st["w"], st["kind"], m["pc"]))
            break
        m = msteps[mi + n - 1]
        after = {o: v for o, v in m["after"]}
        if after != st["after"]:
            diffs.append("step %d (%s by writer %d): store differs: real %s model %s" % (k, st["kind"], st["w"], st["after"], after))
            break
        mi += n
    outs = ["ok" if p == "done" else ("error:PermissionError" if p == "failed" else "unfinished:" + p) for p in model["pcs"]]
    if not diffs and outs != real["outcomes"]:
        diffs.append("outcomes differ: real %s model %s" % (real["outcomes"], outs))
    return diffs


def corpus_jobs(ctx, can_setuid):
    out = []
    for item in json.load(open(os.path.join(core.VERIF, "harness", "corpus", "c16_schedules.json"))):
        if item["uid"] == "nobody" and not can_setuid:
            continue
        base = ctx.mkdtemp()
        os.chmod(base, 0o755)
        root = os.path.join(base, "r")
        os.makedirs(os.path.join(root, "odb"))
        uid = NOBODY if item["uid"] == "nobody" else None
        pre = []
        for p in item["pre"]:
            oid = md5hex(p["for"].encode())
            stores.put_raw(os.path.join(root, "odb"), oid, p["data"].encode(), mode=0o444 if p["prot"] else 0o644)
            pre.append({"oid": oid, "data": p["data"].encode().hex(), "prot": p["prot"]})
        writers = []
        for i, c in enumerate(item["contents"]):
            src = os.path.join(root, "src%d" % i)
            with open(src, "wb") as f:
                f.write(c.encode())
            writers.append({"oid": md5hex(c.encode()), "src": src, "data": c.encode().hex()})
        if uid is not None:
            for d, _, fs_ in os.walk(root):
                os.chown(d, uid, uid)
                for f in fs_:
                    os.chown(os.path.join(d, f), uid, uid)
        out.append({"root": root, "uid": uid, "writers": writers, "schedule": item["schedule"], "pre": pre,
                    "watch": sorted({w["oid"] for w in writers}), "name": item["name"]})
    return out


def fixed_job(ctx, uid, contents, schedule, pre_kind=None):
    base = ctx.mkdtemp()
    os.chmod(base, 0o755)
    root = os.path.join(base, "r")
    os.makedirs(os.path.join(root, "odb"))
    pre = []
    if pre_kind:
        oid = md5hex(contents[0])
        data = {"good-unprot": contents[0], "empty-unprot": b"", "junk-unprot": b"junk!"}[pre_kind]
        stores.put_raw(os.path.join(root, "odb"), oid, data, mode=0o644)
        pre.append({"oid": oid, "data": data.hex(), "prot": False})
    writers = []
    for i, c in enumerate(contents):
        src = os.path.join(root, "src%d" % i)
        with open(src, "wb") as f:
            f.write(c)
        writers.append({"oid": md5hex(c), "src": src, "data": c.hex()})
    if uid is not None:
        for d, _, fs_ in os.walk(root):
            os.chown(d, uid, uid)
            for f in fs_:
                os.chown(os.path.join(d, f), uid, uid)
    return {"root": root, "uid": uid, "writers": writers, "schedule": schedule, "pre": pre, "watch": sorted({w["oid"] for w in writers})}


def exhaustive_two(ctx, can_setuid):
    """every interleaving of two writers of one object (each has at most 6 schedule points on the main path, 7 through a
    discard): all words with seven 0s and seven 1s; choices naming a finished writer are skipped by the controller"""
    import itertools

    jobs = []
    uids = [None] + ([NOBODY] if can_setuid else [])
    for uid in uids:
        for pre_kind, k in ((None, 6), ("junk-unprot", 7)):
            for zeros in itertools.combinations(range(2 * k), k):
                sched = [0 if i in zeros else 1 for i in range(2 * k)]
                jobs.append(fixed_job(ctx, uid, [b"shared content"] * 2, sched, pre_kind))
    return jobs


def controlled(ctx, n_jobs):
    import concurrent.futures

    can_setuid = os.geteuid() == 0
    os.chmod(ctx.scratch, 0o755)
    jobs = corpus_jobs(ctx, can_setuid)
    if ctx.tier == "thorough":
        ex = exhaustive_two(ctx, can_setuid)
        ctx.exhaustive["all interleavings of two writers of one object (absent / garbage leftover; privileged / unprivileged)"] = len(ex)
        jobs += ex
    for i in range(n_jobs):
        root = ctx.mkdtemp()
        os.chmod(root, 0o755)
        jobs.append(gen_job(ctx.rng, os.path.join(root, "r"), can_setuid))
    with concurrent.futures.ThreadPoolExecutor(max_workers=min(12, os.cpu_count() or 4)) as pool:
        reals = list(pool.map(run_real, jobs))
    import shutil

    for job, real in zip(jobs, reals):
        check_controlled(ctx, job, real)
        shutil.rmtree(os.path.dirname(job["root"]), ignore_errors=True)


def check_controlled(ctx, job, real):
    case = {"mode": "controlled", "uid": job["uid"], "pre": job["pre"], "writers": [{"oid": w["oid"], "data": w["data"]} for w in job["writers"]],
            "schedule": job["schedule"], "executed": [[s["w"], s["kind"]] for s in real["steps"]]}
    ctx.case(case)
    ctx.count("controlled:%s:%d" % ("nonroot" if job["uid"] else "root", len(job["writers"])))
    ctx.count("controlled:check_exists_false_writers=%d" % sum(1 for w in job["writers"] if not w.get("check_exists", True)))
    if real.get("error"):
        raise core.Infra("controlled run: %s" % real["error"])
    model = ctx.driver.ask(model_request(job, real))
    ctx.corr("Conc.runSched~real threads under the same schedule", case, compare(job, real, model), [])
    for k in {s["kind"] for s in real["steps"]}:
        ctx.count("event:" + k)
    for pc in {s["pc"] for s in model["steps"]}:
        ctx.count("pc:" + pc)
    # the property on the real run
    failed = [o for o in real["outcomes"] if o != "ok"]
    sig = None
    mfailed = [i for i, p in enumerate(model["pcs"]) if p == "failed"]
    rfailed = [i for i, o in enumerate(real["outcomes"]) if o == "error:PermissionError"]
    if failed and not root_semantics(job) and len(job["writers"]) >= 3 and mfailed == rfailed and len(rfailed) == len(failed):
        # exactly the writers the model of the *repaired* code sends to `failed`: probe refused, object gone at the re-check
        sig = "nonroot-refused-probe-then-object-gone-at-recheck"
    ctx.oracle(not failed, case, {"why": "a writer failed", "outcomes": real["outcomes"]}, signature=sig)
    for oid, v in real["final"].items():
        if not failed:
            ctx.oracle(v is not None and v["ok"] and v["prot"], case,
                       {"why": "after all writers finished a requested object is missing, incomplete or unprotected", "oid": oid, "state": v})


def verify_two_writers(ctx):
    """transfer(..., verify=True) by two writers of one object under the pinned interleaving of c16_verify_child"""
    root = ctx.mkdtemp()
    p = subprocess.run([PY, "-m", "harness.c16_verify_child", root], cwd=core.VERIF, capture_output=True, text=True, timeout=120)
    if p.returncode != 0 or not p.stdout.strip():
        raise core.Infra("c16_verify_child failed: %s" % p.stderr[-400:])
    r = json.loads(p.stdout.strip().splitlines()[-1])
    case = {"mode": "verify=True, two writers of one object, pinned interleaving", "result": r}
    ctx.case(case)
    ctx.count("verify_two_writers pinned=%s" % r["pinned"])
    succeeded = [w for w in "AB" if r[w] == {"failed": []}]
    # the property as stated: all succeed and the object is there; at the very least a writer that reports success has its object
    lost = bool(succeeded) and not r["object_ok"]
    # the finding is identified by its call site (two writers of ONE object through transfer(verify=True)) and its symptom (a
    # writer's verification fails on / removes the object the other one is placing): whichever of the two loses under the
    # schedule the machine happened to give
    sig = None
    symptoms = [r[w] for w in "AB" if r[w] != {"failed": []}]
    if all(x == {"failed": [r["oid"]]} for x in symptoms) and (symptoms or not r["object_ok"]):
        sig = "verify-two-writers-verification-removes-the-other-writers-object"
    ctx.oracle(len(succeeded) == 2 and r["object_ok"] and not lost, case,
               {"why": "two writers transferring one object with verify=True: a writer failed, or a writer reported success while the object is missing", "result": r},
               signature=sig)


def run(ctx):
    ctx.rule = (
        "N writers (2-8 threads with their own store handles and state handles in one process; 2-4 separate processes) stage and "
        "transfer 1-3 workspaces each into one local store sharing one hash-state database; contents are drawn from a pool whose "
        "md5s share fan-out prefixes, with identical files at the same level; thread scheduling is perturbed by sleeps/yields "
        "injected from an audit hook at filesystem-operation boundaries. Held-writer rounds: one writer is stopped inside a copy "
        "into the store (temporary file complete, rename still to come) while another stages and transfers a directory of a few / "
        "~300 files sharing contents with it (plus sometimes a free-running third); every directory listing below the store that "
        "shows the stopped writer's temporary file releases it and waits for its rename (the listing is stale when the lister goes "
        "on), the writer stops again at later copies, and is released for good when the other has finished; own state "
        "handles or one shared handle. Faulted-writer rounds: writer 0 is stopped after its status query, right before its first "
        "add; writer 1 (2-8 files, 1..n of them shared with writer 0) stages and transfers and is parked before its first / a "
        "later write-protection (copies in place) or finishes, sometimes next to a writer 2 with a park point of its own; then "
        "files of writer 0 (shared contents and / or its own) vanish and it goes on; then the parked writers go on: writer 0 "
        "reports exactly the lost objects and its directory as failed, every other writer succeeds and has all its objects in "
        "the store; the files come back and writer 0's second attempt completes the store. "
        "non-trivial = every run (heavy overlap by construction)"
    )
    ctx.assumptions = ["the GIL, SQLite busy-timeouts and C-level races are not exhibited by the model; the perturbed runs are supporting evidence",
                       "a second writer's reflink probe on a name another writer is just creating is a transient the step model does not show"]
    rng = ctx.rng
    for i in range(ctx.n(14, 150)):
        n = rng.choice([2, 3, 4, 8])
        rounds = rng.choice([1, 2, 3])
        large = i in (1, 9) or (ctx.tier == "thorough" and i % 10 == 1)
        identical = (not large) and (i % 3 == 2)
        if large:
            n, rounds = min(n, 3), 1
        if identical:
            n, rounds = 6, 1
        root, plan, errors, results = run_threads(ctx, rng, n, rounds, large, identical)
        ctx.count("threads:large-files=%s identical-directories=%s" % (large, identical))
        case = {"mode": "threads", "writers": n, "rounds": rounds, "run": i, "large_files": large, "identical_directories": identical,
                "workspaces": [[{"/".join(k): md5hex(v) for k, v in files.items()} for _, files in wl] for wl in plan]}
        ctx.case(case)
        ctx.count("threads:%d" % n)
        check(ctx, "threads", root, plan, errors, results, case)
        stores  # noqa: B018
    for i in range(ctx.n(5, 40)):
        n = rng.choice([2, 3, 4])
        root, plan, errors, results, traces = run_processes(ctx, rng, n, 1)
        case = {"mode": "processes", "writers": n, "run": i,
                "workspaces": [[{"/".join(k): md5hex(v) for k, v in files.items()} for _, files in wl] for wl in plan]}
        ctx.case(case)
        ctx.count("processes:%d" % n)
        check(ctx, "processes", root, plan, errors, results, case)
        for tr in traces:
            conformance(ctx, "writer", tr, root, None)
    held_rounds(ctx, ctx.n(5, 30))
    controlled(ctx, ctx.n(40, 600))
    verify_two_writers(ctx)
    faulted_rounds(ctx, ctx.n(9, 60))


def search(ctx):
    run(ctx)


def replay(ctx, payload):
    run(ctx)
