"""C15 — a crash at any point leaves the store valid, and re-running recovers
(db/__init__.py, db/local.py, build.py, transfer.py, state.py, index/save.py)."""
import concurrent.futures
import json
import os
import shutil
import stat
import subprocess
import sys

from . import core, gen, stores
from .util import md5hex, safe_call

PY = sys.executable
SCENARIOS = ["stage_transfer", "index_save", "store_to_store", "upload_staging", "store_to_store_verify", "store_to_store_index", "stage_transfer_legacy",
             "store_to_store_fetchlike", "store_to_store_pushlike"]


def make_inputs(root, name, tree):
    """everything the child needs, created by the parent (not counted as crash points)"""
    os.makedirs(root, exist_ok=True)
    src = os.path.join(root, "src")
    gen.materialize(src, tree)
    if name.startswith("store_to_store"):
        a = os.path.join(root, "srcstore")
        ents = {k: md5hex(c) for k, c in tree.items()}
        for c in tree.values():
            stores.put_raw(a, md5hex(c), c)
        raw = gen.canonical_listing(ents)
        toid = md5hex(raw) + ".dir"
        stores.put_raw(a, toid, raw)
        ids = [toid]
        if name.endswith("like"):
            # fetch and push name every object explicitly (the index is loaded) and leave `shallow` at its default
            ids += sorted(set(ents.values()))
        if name.endswith("verify"):
            # one corrupt source object: it must never end up protected or vouched for
            bad = sorted(ents.values())[0]
            stores.put_raw(a, bad, b"CORRUPTED " + tree[sorted(tree)[0]])
        with open(os.path.join(root, "request.json"), "w") as f:
            json.dump(ids, f)


def child(root, name, crash_at, mode, trace=None):
    cmd = [PY, "-m", "harness.crash_child", root, name, str(crash_at), mode] + ([trace] if trace else [])
    # one fixed hash seed for the reference run and every crash run: set / dict iteration orders (hence the order of the
    # mutating events) are then the same in all of them, so "every event index" really is every crash point
    p = subprocess.run(cmd, cwd=core.VERIF, capture_output=True, text=True, timeout=300, env=dict(os.environ, PYTHONHASHSEED="0"))
    return p.returncode, (p.stderr or "")[-600:]


def audit(root, after_rerun=False, algo="md5", st=False):
    """the property's oracle on a store directory + state database (`st`: an already open hash-state to ask instead of opening
    <root>/state; None: a store nobody keeps a hash-state for)"""
    from dvc_data.hashfile.state import State

    from .c13 import digest

    odb = os.path.join(root, "odb")
    own = st is False
    problems = []
    present = {}
    for oid in stores.listing_of(odb):
        p = os.path.join(odb, oid[:2], oid[2:])
        with open(p, "rb") as f:
            b = f.read()
        ok = (md5hex(b) if (algo == "md5" or oid.endswith(".dir")) else digest(algo, b)) == oid.split(".")[0]
        prot = stat.S_IMODE(os.stat(p).st_mode) == 0o444
        present[oid] = (ok, prot)
        if prot and not ok:
            problems.append({"why": "an incomplete or mismatching object is write-protected", "oid": oid, "size": len(b)})
        if after_rerun and not ok:
            problems.append({"why": "after re-running, an object does not match its name", "oid": oid, "size": len(b)})
    # hash-state entries that would hit must be right
    if own:
        st = State(root_dir=root, tmp_dir=os.path.join(root, "state"))
    try:
        fs = stores.fs_local()
        for oid, (ok, prot) in present.items() if st is not None else ():
            p = os.path.join(odb, oid[:2], oid[2:])
            meta, hi = st.get(p, fs)
            # an entry that records the *actual* hash of mismatching bytes does not vouch for the object (the next
            # integrity check compares it with the name and discards the object); one that repeats the name does
            if hi is not None and not ok and hi.value.split(".")[0] == oid.split(".")[0]:
                problems.append({"why": "a hash-state entry vouches for an incomplete or mismatching object", "oid": oid, "entry": str(hi)})
    finally:
        if own:
            st.close()
    # closure over valid objects
    valid = {o for o, (ok, _) in present.items() if ok}
    for o in valid:
        if o.endswith(".dir"):
            lst = json.loads(stores.read_obj(odb, o))
            for e in lst:
                if e["md5"] not in valid:
                    problems.append({"why": "a directory object is present but a file it lists is not", "dir": o, "missing": e["md5"]})
    return problems, sorted(valid), sorted(present)


# the handles through which somebody else looks at the store between the crash and the re-run: the store's owner (writable) and
# a consumer that was told not to write to it (a read-only cache / a local remote opened for fetching)
CONSUMER_HANDLES = [("writable", {}), ("read_only", {"read_only": True})]


def consume(root, tag, cfg, ids, algo, after_rerun):
    """Somebody else uses the store as it is *now* (right after the kill, or after the re-run) as the source of a fetch into
    a cache of their own (with its own hash-state), through a handle of their own opened with `cfg`. They work on a snapshot
    (modes and mtimes kept), so the crash point's own re-run still starts from what the kill left behind. Whatever the handle
    is, the leftover of the interrupted operation must not get anywhere as an object: the consumer's cache and the store it read
    obey the same oracle as the crashed store, and once the producer has re-run, fetching again converges."""
    import logging

    from dvc_data.hashfile.db.local import LocalHashFileDB
    from dvc_data.hashfile.hash_info import HashInfo
    from dvc_data.hashfile.state import State
    from dvc_data.hashfile.transfer import transfer

    croot = os.path.join(root, "consumer-" + tag)
    served = os.path.join(croot, "served")
    shutil.rmtree(served, ignore_errors=True)
    os.makedirs(served)
    if os.path.isdir(os.path.join(root, "odb")):
        shutil.copytree(os.path.join(root, "odb"), os.path.join(served, "odb"))
    else:
        os.makedirs(os.path.join(served, "odb"))
    os.makedirs(os.path.join(croot, "odb"), exist_ok=True)
    fs = stores.fs_local()
    st = State(root_dir=croot, tmp_dir=os.path.join(croot, "state"))
    prev = logging.root.manager.disable
    logging.disable(logging.CRITICAL)
    try:
        src = LocalHashFileDB(fs, os.path.join(served, "odb"), hash_name=algo, **cfg)
        cache = LocalHashFileDB(fs, os.path.join(croot, "odb"), state=st, hash_name=algo)
        # objects that are not there (yet) make the fetch fail or report them missing: that is fine, validity is what is audited
        kind, res = safe_call(lambda: transfer(src, cache, {HashInfo(algo, o) for o in ids}, shallow=False))
        mine = audit(croot, after_rerun=after_rerun, algo=algo, st=st)[0]
    finally:
        logging.disable(prev)
        st.close()
    when = "after the re-run" if after_rerun else "after the kill"
    probs = []
    for p in mine:
        probs.append({**p, "where": "cache of a consumer that fetched from the store %s through a %s handle" % (when, tag), "fetch": str(res)[:160]})
    for p in audit(served, algo=algo, st=None)[0]:
        if after_rerun or "write-protected" in p["why"]:
            probs.append({**p, "where": "the store %s, once a consumer has fetched from it through a %s handle" % (when, tag)})
    if after_rerun:
        have = stores.listing_of(os.path.join(croot, "odb"))
        if kind != "ok" or getattr(res, "failed", None) or have != sorted(ids):
            probs.append({"why": "after the producer's re-run, fetching again does not converge to the objects of an uninterrupted run",
                          "where": "cache of a consumer (%s handle) that had also fetched right after the kill" % tag,
                          "fetch": str(res)[:160], "cache": have, "uninterrupted": sorted(ids)})
    return probs


def _unvetted(root):
    """does the store hold an unprotected file under an object's name?"""
    odb = os.path.join(root, "odb")
    return any(stat.S_IMODE(os.stat(os.path.join(odb, o[:2], o[2:])).st_mode) != 0o444 for o in stores.listing_of(odb))


def one_point(args):
    base, name, tree_items, n, mode = args[:5]
    wanted = args[5] if len(args) > 5 else None
    tree = {tuple(k): bytes.fromhex(v) for k, v in tree_items}
    root = os.path.join(base, "%s-%d-%s" % (name, n, mode))
    try:
        make_inputs(root, name, tree)
        rc, err = child(root, name, n, mode)
        out = {"n": n, "mode": mode, "rc": rc}
        if rc not in (77, 0):
            out["problems"] = [{"why": "child failed before the crash point", "stderr": err}]
            return out
        algo = "md5-dos2unix" if name.endswith("legacy") else "md5"
        probs, valid, present = audit(root, algo=algo)
        # a consumer is worth running where the kill left something nobody has vetted yet under an object's name (an unprotected
        # file: the probe's empty leftover, a complete copy not yet protected); protected objects were audited just above and
        # absent ones cannot be fetched
        consumers = CONSUMER_HANDLES if wanted is not None and _unvetted(root) else []
        for tag, cfg in consumers:
            probs += consume(root, tag, cfg, wanted, algo, False)
        out["consumers"] = len(consumers)
        rc2, err2 = child(root, name, -1, "none")
        out["rerun_rc"] = rc2
        if rc2 != 0:
            probs.append({"why": "re-running the interrupted operation failed", "stderr": err2})
            out["problems"] = probs
            return out
        probs2, valid2, present2 = audit(root, after_rerun=True, algo=algo)
        for tag, cfg in consumers:
            probs2 += consume(root, tag, cfg, wanted, algo, True)
        out["problems"] = probs + probs2
        out["final"] = valid2
        out["final_all"] = present2
        return out
    finally:
        shutil.rmtree(root, ignore_errors=True)


def norm_trace(events, root):
    """temp names -> tmp<i>, fan-out dirs collapsed: the shape the step model predicts"""
    out, tmps = [], {}
    for kind, path, extra in events:
        rel = os.path.relpath(path, root) if path.startswith(root) else path
        parts = rel.split(os.sep)
        name = parts[-1]
        if kind in ("mkdir",) or (kind == "chmod" and len(parts) == 2):
            continue  # prefix directories
        if kind == "state-save":
            out.append(["saveRows", sorted(path.split(";"))])
            continue
        if name.endswith(".tmp"):
            obj = tmps.setdefault(name, "tmp%d" % len(tmps))
        else:
            obj = parts[-2] + name if len(parts) >= 2 else name
        if kind == "rename":
            s = os.path.basename(extra)
            srcobj = tmps.setdefault(s, "tmp%d" % len(tmps)) if s.endswith(".tmp") else s
            out.append(["rename", srcobj, obj])
        elif kind == "chmod":
            out.append(["protect" if extra == "0o444" else "chmod", obj])
        else:
            out.append([kind, obj])
    return out


def run_scenario(ctx, name, tree, pool):
    base = ctx.mkdtemp()
    # uninterrupted run: reference final store + trace
    ref = os.path.join(base, "ref")
    make_inputs(ref, name, tree)
    tf = os.path.join(base, "trace.json")
    rc, err = child(ref, name, -1, "none", tf)
    if rc != 0:
        raise core.Infra("reference run of %s failed: %s" % (name, err))
    events = json.load(open(tf))
    probs, ref_valid, ref_all = audit(ref, after_rerun=True, algo="md5-dos2unix" if name.endswith("legacy") else "md5")
    case0 = {"scenario": name, "tree": {"/".join(k): v.hex() for k, v in tree.items()}}
    for p in probs:
        ctx.oracle(False, case0, {**p, "at": "uninterrupted run"})
    total = len(events)
    ctx.count("crash_points:%s=%d" % (name, total))
    ncopy = sum(1 for e in events if e[0] == "copy")
    items = [[list(k), v.hex()] for k, v in tree.items()]
    # ref_all: what an uninterrupted run leaves in the store = what a consumer of that store asks for. (quick tier: no consumers
    # for the variants that differ from store_to_store only in how the producer's status query is answered - they leave the
    # same crashed stores)
    wanted = ref_all if ctx.tier == "thorough" or name not in ("store_to_store_index", "store_to_store_fetchlike", "store_to_store_pushlike") else None
    jobs = [(base, name, items, n, "before", wanted) for n in range(total)]
    jobs += [(base, name, items, n, "partial", wanted) for n, e in enumerate(events) if e[0] == "copy"]
    results = list(pool.map(one_point, jobs))
    for r in results:
        case = {**case0, "crash_at_event": r["n"], "mode": r["mode"], "event": events[r["n"]][:2] if r["n"] < total else None}
        ctx.case(case, nontrivial=True)
        ctx.count("consumer_fetches_after_kill_and_after_rerun", 2 * r.get("consumers", 0))
        for p in r.get("problems", []):
            sig = None
            if name.endswith("legacy") and p.get("why", "").startswith("a directory object is present but a file it lists is not"):
                # build() with an algorithm other than md5 stores the directory object in the real store while staging
                sig = "legacy-algorithm-staging-stores-the-directory-object-before-its-files"
            ctx.oracle(False, case, p, signature=sig)
        if "final" in r:
            # an object that is legitimately discarded on every attempt (corrupt source under verify) is absent in both
            ctx.oracle(r["final"] == ref_valid and r["final_all"] == ref_all, case,
                       {"why": "re-running after the crash does not converge to the store of an uninterrupted run",
                        "after_rerun": r["final_all"], "uninterrupted": ref_all})
    ctx.traces += 1
    return events, ref


def conformance(ctx, name, events, root, tree):
    """the real mutation trace has the shape of the step model (per object: temp, copy, atomic rename; protection and the
    state transaction only after the renames of the batch; a directory object after its files)"""
    tr = norm_trace(events, os.path.join(root, "odb"))
    case = {"scenario": name, "trace": tr[:60]}
    final_at, protect_at, row_at = {}, {}, {}
    for i, e in enumerate(tr):
        if e[0] == "rename" and not str(e[2]).startswith("tmp") and ".tmp" not in str(e[2]):
            final_at[e[2]] = i
        elif e[0] == "protect":
            protect_at.setdefault(e[1], i)
        elif e[0] == "saveRows":
            for o in e[1]:
                row_at.setdefault(o, i)
    ok = True
    why = []
    for o, i in protect_at.items():
        if o in final_at and not final_at[o] < i:
            ok = False
            why.append("object %s protected before its data was renamed into place" % o)
    for o, i in row_at.items():
        if o in final_at and not final_at[o] < i:
            ok = False
            why.append("state row for %s written before its data was in place" % o)
    dirs = [o for o in final_at if o.endswith(".dir")]
    for d in dirs:
        for o, i in final_at.items():
            # (index save writes one directory object per directory level; the legacy-algorithm staging stores the directory
            # object first - the known finding reported by the crash enumeration of that scenario)
            if not o.endswith(".dir") and i > final_at[d] and name not in ("index_save", "stage_transfer_legacy"):
                ok = False
                why.append("file %s arrives after the directory object %s" % (o, d))
    # data reaches a final name only through a rename of a temp file (apart from the empty reflink probe)
    for i, e in enumerate(tr):
        if e[0] in ("copy",) and not str(e[1]).startswith("tmp"):
            ok = False
            why.append("data copied straight under a final name: %s" % e[1])
    ctx.corr("Crash.addSteps ordering~real mutation trace (%s)" % name, case, why, [])
    return ok


def run_large_batch(ctx):
    """re-running a transfer whose one existence query names more than 1000 objects (the page size of a store listing), over a
    destination in the state a kill between the create and the unlink of the first reflink probe leaves: an empty, unprotected
    file under a final name (reachable: `Crash.Step.probeCreate`, crash point 'create' of store_to_store)"""
    from dvc_data.hashfile.hash_info import HashInfo
    from dvc_data.hashfile.transfer import transfer

    rng = ctx.rng
    root = ctx.mkdtemp()
    n = rng.choice([1001, 1100, 1200])
    src = stores.make_odb(os.path.join(root, "src"), local=True)
    dest = stores.make_odb(os.path.join(root, "odb"), local=True)
    ids = []
    for i in range(n):
        b = b"obj-%d-%d" % (i, rng.randrange(10**6))
        stores.put_raw(src.path, md5hex(b), b, mode=0o444)
        ids.append(md5hex(b))
    victim = rng.choice(ids)
    stores.put_raw(dest.path, victim, b"", mode=0o644)
    case = {"large_batch_rerun": {"objects": n, "leftover": victim}}
    ctx.case(case)
    ctx.count("large_batch_rerun")
    kind, res = safe_call(lambda: transfer(src, dest, {HashInfo("md5", o) for o in ids}, shallow=False))
    probs = audit(root, after_rerun=True)[0]
    have = set(stores.listing_of(dest.path))
    ctx.oracle(kind == "ok" and not res.failed and not probs and have == set(ids), case,
               {"why": "re-running a large transfer over the leftover of an interrupted one does not converge to the uninterrupted store",
                "result": str(res)[:200], "problems": probs[:3], "missing": sorted(set(ids) - have)[:3]})


def run(ctx):
    ctx.rule = (
        "every store-mutating event (open-for-write, copy, rename, chmod, link, unlink, mkdir, state transaction) of each scenario "
        "is a crash point: a child process is killed with os._exit right before it (and, for data copies, after half of the bytes); "
        "the parent audits store and hash-state, re-runs the operation and compares with an uninterrupted run. Scenarios: stage + "
        "transfer into a local store with state, index save of nested directories, store-to-store transfer (plain and verifying "
        "with a corrupt source), upload staging; one re-run of a transfer naming more than 1000 objects over the leftover of an interrupted probe. At every crash point that leaves an unprotected file under an object's name, before the re-run and again after it, a consumer fetches everything an uninterrupted run would have stored from a snapshot of the store into a cache of its own (own hash-state), once through a writable and once through a read_only handle: its cache and the store it read obey the same oracle, and its second fetch converges. non-trivial = every crash point; distinct = (scenario, tree, event index, mode)"
    )
    ctx.assumptions = ["a killed process keeps the order of completed system calls (no power loss, no torn rename)",
                       "SQLite transactions are atomic; the state transaction is one crash point"]
    rng = ctx.rng
    names = SCENARIOS if ctx.tier == "thorough" else SCENARIOS
    with concurrent.futures.ProcessPoolExecutor(max_workers=min(14, os.cpu_count() or 4)) as pool:
        for name in names:
            ntrees = 3 if ctx.tier == "thorough" else 1
            for _ in range(ntrees):
                tree = {("a",): b"alpha-%d" % rng.randrange(100), ("sub", "b"): b"beta" * rng.randrange(1, 4), ("sub", "deep", "c"): b"gamma\r\n"}
                if rng.random() < 0.5:
                    tree[("dup",)] = tree[("a",)]
                events, ref = run_scenario(ctx, name, tree, pool)
                conformance(ctx, name, events, ref, tree)
    ctx.exhaustive["every crash point of every scenario run"] = True
    run_large_batch(ctx)


def search(ctx):
    run(ctx)


def replay(ctx, payload):
    run(ctx)
