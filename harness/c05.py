"""C05 — checkout never destroys user data that is not recoverable from the cache; link clean-up
is conservative (hashfile/checkout.py, diff.py, state.py, utils.py)."""
import os

from . import gen, stores
from .c10 import LINKS, Scene, canon_model_ws, canon_ws, model_req
from .util import bump_mtime, md5hex, safe_call



class _SceneFailed(Exception):
    pass


def _scene(ctx, sc, oid, types):
    """the forced checkout that sets the scene; when it fails (a C10 matter, not C05's) the scenario is skipped and counted"""
    if "err" in sc.checkout(oid, types, force=True):
        ctx.count("scene: the forced checkout that sets the scene failed (scenario skipped)")
        raise _SceneFailed()


def _guarded(fn, ctx, rng):
    try:
        fn(ctx, rng)
    except _SceneFailed:
        pass


def check_noforce(ctx, rng):
    # one history in five is a *restore* history: a hash-state database is in use, the workspace holds real files, and the
    # user's edits are mostly other bytes of the same size moved into place with the old timestamps (cp -p / rsync -t / an
    # archive extractor) - which only the inode tells from the checked-out file - in files the next version changes too
    restore = rng.random() < 0.2
    sc = Scene(ctx, rng, with_state=True if restore else None)
    try:
        prior = gen.rand_tree(rng, max_files=5, allow_odd=False)
        t1 = sc.put_tree(prior)
        link = rng.choice(LINKS)
        # the workspace was usually checked out with the configured link type, sometimes with another one
        existing = link if rng.random() < 0.6 else rng.choice(LINKS)
        # a directed mix that random choice rarely reaches: plain copies in the workspace, hard links configured, a relinking
        # checkout, and the objects of the unchanged files gone from the cache
        directed = rng.random() < 0.15
        if directed:
            existing, link = "copy", "hardlink"
        if restore and existing == "symlink":
            existing = rng.choice(["copy", "hardlink"])
        _scene(ctx, sc, t1, [existing])
        target = dict(prior)
        for k in list(prior):
            r = rng.random()
            if r < (0.6 if restore else 0.3):
                target[k] = prior[k] + b"#v2"
            elif r < 0.45 and len(target) > 1:
                del target[k]
        if rng.random() < 0.4:
            target[("added",)] = b"brand new"
        # (a symlink to a missing cache object dangles and the follow-up stat raises: outside this property, see C09's known finding)
        missing = [md5hex(c) for c in target.values() if rng.random() < 0.08 and link != "symlink" and existing != "symlink"]
        t2 = sc.put_tree(target, skip=missing)
        edits = sc.user_edits(kinds=("replace_uncached", "replace_cached", "add", "delete", "dangling") + (("restore",) if restore else ()))
        gc_old = rng.random() < 0.25 and link != "symlink" and existing != "symlink"  # a symlinked workspace file *is* the cache object
        if gc_old:
            # the old version leaves the cache while the workspace still holds it (e.g. gc)
            for k, c in prior.items():
                h = md5hex(c)
                p = sc.cache_path(h)
                if h not in {md5hex(x) for x in target.values()} and os.path.exists(p) and rng.random() < 0.6:
                    os.chmod(p, 0o644)
                    os.remove(p)
        gc_unchanged = []
        if (directed or rng.random() < 0.3) and link != "symlink" and existing != "symlink":
            # objects of files that do not change between the two versions leave the cache too (never fetched / collected)
            for k, c in prior.items():
                if target.get(k) == c and (directed or rng.random() < 0.5):
                    p = sc.cache_path(md5hex(c))
                    if os.path.exists(p):
                        os.chmod(p, 0o644)
                        os.remove(p)
                        gc_unchanged.append("/".join(k))
        relink = directed or rng.random() < (0.7 if existing != link else 0.4)
        prompt = rng.choice([None, "decline"])
        before_bytes = sc.bytes_snapshot()
        before = sc.walk()
        cache_now = [o for o in stores.listing_of(sc.odb.path) if not o.endswith(".dir")]
        recoverable = {rel: (b is not None and sc.intact_in_cache(b)) for rel, b in before_bytes.items()}
        kw = {"force": False, "relink": relink}
        asked = []
        if prompt == "decline":
            kw["prompt"] = lambda msg: (asked.append(msg), False)[1]
        res = sc.checkout(t2, [link], **kw)
        after_bytes = sc.bytes_snapshot()
        after = sc.walk()
        case = {"noforce_checkout": {"prior": {"/".join(k): v.decode("latin1") for k, v in prior.items()},
                                      "target": {"/".join(k): v.decode("latin1") for k, v in target.items()},
                                      "link": link, "existing": existing, "relink": relink, "prompt": prompt, "edits": edits, "gc_old": gc_old,
                                      "gc_unchanged": gc_unchanged,
                                      "missing": missing, "local": sc.local, "state": sc.state is not None}}
        lost = [rel for rel, b in before_bytes.items() if after_bytes.get(rel) != b]
        ctx.case(case, nontrivial=any(not recoverable[r] for r in before_bytes))
        ctx.count("outcome:" + ("ok" if "ok" in res else res["err"]))
        ctx.count("link=%s relink=%s prompt=%s" % (link, relink, prompt))
        ctx.count("existing_differs=%s gc_unchanged=%s" % (existing != link, bool(gc_unchanged)))
        ctx.count("unrecoverable_files_present=%s" % any(not v for v in recoverable.values()))
        sizes = {md5hex(c): len(c) for c in list(target.values()) + list(prior.values())}
        ans = ctx.driver.ask(model_req(sc, before, target, cache_now, {"force": False, "relink": relink, "types": [link],
                                                                       **({"prompt": False} if prompt else {})}))
        m_out = ans["outcome"]
        impl_kind = "ok" if "ok" in res else res["err"]
        model_kind = "ok" if "ok" in m_out else m_out["err"]
        ctx.corr("Checkout.checkout~checkout() (no force): outcome", case, impl_kind, model_kind)
        if impl_kind == "ok" and model_kind == "ok":
            ctx.corr("Checkout.checkout~checkout() (no force): workspace", case,
                     {k: v[0] for k, v in canon_ws(after, [link]).items()}, {k: v[0] for k, v in canon_model_ws(ans, sizes).items()})
        # ---- oracle: nothing unrecoverable was destroyed, whatever the outcome
        for rel in lost:
            ctx.oracle(recoverable[rel], case, {"why": "checkout without force removed or overwrote a file whose content is not in the cache",
                                                 "path": rel, "outcome": res, "before_md5": md5hex(before_bytes[rel] or b"")})
        if res.get("err") == "PromptError":
            pass  # the refused path is among the untouched ones by the check above
        if len(ctx.samples) < 2:
            ctx.sample({"case": case["noforce_checkout"], "result": res, "changed_paths": lost})
    finally:
        sc.close()


def check_remove_output(ctx, rng):
    """checkout(path, fs, None, cache): the output has no hash info any more, what is in the workspace is to be removed -
    still never a file whose bytes are not in the cache (the directory object being cached says nothing about its files)"""
    sc = Scene(ctx, rng)
    try:
        prior = gen.rand_tree(rng, max_files=6, allow_odd=False)
        t1 = sc.put_tree(prior)
        link = rng.choice(["copy", "hardlink"])
        _scene(ctx, sc, t1, [link])
        edits = sc.user_edits(kinds=("replace_uncached", "add")) if rng.random() < 0.3 else []
        gone = []
        for k, c in prior.items():
            if rng.random() < 0.3:
                p = sc.cache_path(md5hex(c))
                if os.path.exists(p):
                    os.chmod(p, 0o644)
                    os.remove(p)
                    gone.append("/".join(k))
        before_bytes = sc.bytes_snapshot()
        recoverable = {rel: (b is not None and sc.intact_in_cache(b)) for rel, b in before_bytes.items()}
        from dvc_data.hashfile.checkout import CheckoutError, LinkError, PromptError, checkout

        kind, res = safe_call(lambda: checkout(sc.ws, sc.fs, None, sc.odb, force=False, state=sc.state), expected=(PromptError, CheckoutError, LinkError))
        after_bytes = sc.bytes_snapshot()
        case = {"remove_output": {"prior": {"/".join(k): v.decode("latin1") for k, v in prior.items()}, "link": link, "edits": edits,
                                   "objects_gone_from_cache": gone, "local": sc.local, "state": sc.state is not None}}
        ctx.case(case, nontrivial=bool(gone) or bool(edits))
        ctx.count("remove_output:outcome=%s" % (kind if kind == "ok" else res))
        for rel, b in before_bytes.items():
            if after_bytes.get(rel) != b:
                ctx.oracle(recoverable[rel], case, {"why": "removing an output without force destroyed a file whose content is not in the cache",
                                                     "path": rel, "outcome": kind if kind == "ok" else res})
        refused = (kind != "ok" and res == "PromptError")
        ctx.corr("Checkout.checkout (empty target)~checkout(obj=None): refused iff some file is unrecoverable", case,
                 refused, any(not v for v in recoverable.values()))
        # Checkout.checkoutNone (the deletion loop with the directory itself last): completed or refused; when it completes nothing
        # is left, when it is refused every file that is gone was recoverable (the order of the files is the library's own)
        keys = sorted(rel for rel, b in before_bytes.items() if b is not None)
        ans = ctx.driver.ask({"op": "checkout_none", "dir_cached": os.path.exists(sc.cache_path(t1)),
                              "ws": [{"key": rel.split("/"), "oid": "ok" if recoverable[rel] else "lost:" + rel} for rel in keys],
                              "cache": ["ok"], "order": ["ROOT"] + [rel.split("/") for rel in keys]})
        left_impl = sorted(rel for rel, b in after_bytes.items() if b is not None)
        ctx.corr("Checkout.checkoutNone~checkout(obj=None) (completed; nothing left when completed)", case,
                 {"completed": not refused, "empty": not left_impl if not refused else None},
                 {"completed": ans.get("completed"), "empty": (not ans.get("left")) if ans.get("completed") else None})
    finally:
        sc.close()


class _SuffixIgnore:
    """the caller's ignore object (DVC's .dvcignore filter): files whose name ends with one of the suffixes are not part of the
    tracked data; find / walk as dvc_data.hashfile._ignore.Ignore declares them"""

    def __init__(self, suffixes):
        self.suffixes = tuple(suffixes)

    def _ok(self, name):
        return not name.endswith(self.suffixes)

    def find(self, fs, path):
        for root, _dirs, files in fs.walk(path):
            for f in files:
                if self._ok(f):
                    yield fs.join(root, f)

    def walk(self, fs, path, **kwargs):
        detail = kwargs.get("detail", False)
        for root, dirs, files in fs.walk(path, **kwargs):
            if detail:
                yield root, dirs, {k: v for k, v in files.items() if self._ok(k)}
            else:
                yield root, dirs, [f for f in files if self._ok(f)]


def check_ignored_files(ctx, rng):
    """a workspace holding files the caller's ignore object hides (build logs, editor backups - never cached): a checkout
    without force towards another version, the same version, or nothing (removal of the output) leaves them alone or refuses"""
    from dvc_data.hashfile.checkout import CheckoutError, LinkError, PromptError, checkout

    sc = Scene(ctx, rng)
    try:
        prior = gen.rand_tree(rng, max_files=5, allow_odd=False)
        prior = {k: v for k, v in prior.items() if not k[-1].endswith((".log", "~"))}
        if not prior:
            return
        t1 = sc.put_tree(prior)
        other = dict(prior)
        for k in list(other):
            r = rng.random()
            if r < 0.3:
                other[k] = other[k] + b" v2"
            elif r < 0.45 and len(other) > 1:
                del other[k]
        t2 = sc.put_tree(other)
        link = rng.choice(["copy", "hardlink", "symlink"])
        _scene(ctx, sc, t1, [link])
        ign = _SuffixIgnore((".log", "~"))
        dirs = sorted({os.path.dirname(os.path.join(sc.ws, *k)) for k in prior})
        hidden = {}
        for i in range(rng.randrange(1, 4)):
            d = rng.choice(dirs)
            p = os.path.join(d, "%s%d%s" % (rng.choice(["build", "notes", "a"]), i, rng.choice([".log", "~"])))
            data = b"only copy of this %d %d" % (i, rng.randrange(10**6))
            with open(p, "wb") as f:
                f.write(data)
            hidden[os.path.relpath(p, sc.ws)] = data
        mode = rng.choice(["remove_output", "remove_output", "other_version", "same_version"])
        target = None if mode == "remove_output" else sc.obj(t2 if mode == "other_version" else t1)
        sc.odb.cache_types = [link]
        kind, res = safe_call(lambda: checkout(sc.ws, sc.fs, target, sc.odb, force=False, state=sc.state, ignore=ign),
                              expected=(PromptError, CheckoutError, LinkError, FileNotFoundError))
        case = {"ignored_files": {"prior": {"/".join(k): v.decode("latin1") for k, v in prior.items()}, "mode": mode, "link": link,
                                  "hidden": sorted(hidden), "local": sc.local, "state": sc.state is not None}}
        ctx.case(case, nontrivial=True)
        ctx.count("ignored_files: mode=%s outcome=%s" % (mode, kind if kind == "ok" else res))
        after = sc.bytes_snapshot()
        lost = sorted(rel for rel, data in hidden.items() if after.get(rel) != data)
        ctx.oracle(not lost, case,
                   {"why": "a checkout without force destroyed files that the caller's ignore object hides and whose content is in no cache",
                    "lost": lost, "outcome": kind if kind == "ok" else res},
                   signature="ignored-file-removed-with-its-directory" if mode == "remove_output" and lost else None)
    finally:
        sc.close()


def check_legacy_twin(ctx, rng):
    """a repository migrated from the text-normalising md5: the state database (shared by the legacy and the new store) has
    seen the workspace under 'md5-dos2unix'; the md5 cache holds the LF twin of a CRLF file but not the CRLF bytes; a checkout
    without force must not take the one for the other"""
    from dvc_data.hashfile.build import build

    sc = Scene(ctx, rng, with_state=True)
    try:
        legacy = stores.make_odb(os.path.join(sc.root, "legacy"), local=sc.local, hash_name="md5-dos2unix", state=sc.state)
        text = b"".join(b"line %d of the report\r\n" % i for i in range(rng.randrange(1, 6)))
        prior = {("doc.txt",): text, ("bin.dat",): b"\x00\x01binary" + bytes([rng.randrange(256)])}
        if rng.random() < 0.5:
            prior[("sub", "notes.txt")] = b"other\r\ntext\r\n"
        gen.materialize(sc.ws, prior)
        # the legacy algorithm has hashed the workspace (status / dry build of a DVC 2 repository)
        k0, _ = safe_call(lambda: build(legacy, sc.ws, sc.fs, "md5-dos2unix", dry_run=True))
        # the md5 cache: LF twins of the text files (what the legacy value names), the binary file, and the target
        for c in prior.values():
            twin = c.replace(b"\r\n", b"\n")
            stores.put_raw(sc.odb.path, md5hex(twin), twin)
            sc.contents[md5hex(twin)] = twin
        target = {k: (c + b"changed" if k != ("bin.dat",) else c) for k, c in prior.items()}
        t2 = sc.put_tree(target)
        before_bytes = sc.bytes_snapshot()
        recoverable = {rel: (b is not None and sc.intact_in_cache(b)) for rel, b in before_bytes.items()}
        link = rng.choice(["copy", "hardlink"])
        res = sc.checkout(t2, [link], force=False, relink=rng.random() < 0.3)
        after_bytes = sc.bytes_snapshot()
        case = {"legacy_twin": {"files": sorted("/".join(k) for k in prior), "link": link, "local": sc.local, "legacy_build": k0}}
        ctx.case(case, nontrivial=True)
        ctx.count("legacy_twin outcome:" + ("ok" if "ok" in res else res["err"]))
        for rel, b in before_bytes.items():
            if after_bytes.get(rel) != b:
                ctx.oracle(recoverable[rel], case, {"why": "checkout without force removed or overwrote a CRLF file whose bytes are not in the cache (only its LF twin is)",
                                                     "path": rel, "outcome": res})
    finally:
        sc.close()


def check_links(ctx, rng):
    """histories of record / modify / replace / remove / clean-up on links tracked by the state database"""
    from dvc_data.hashfile.state import State

    root = ctx.mkdtemp()
    # the root is sometimes spelled in a non-normalised way, as a caller may do
    spelled = rng.choice([root, root + os.sep + ".", os.path.join(root, "x", ".."), root + os.sep])
    os.makedirs(os.path.join(root, "x"), exist_ok=True)
    st = State(root_dir=spelled, tmp_dir=os.path.join(root, "tmp"))
    fs = stores.fs_local()
    names = ["l%d" % i for i in range(rng.randrange(2, 6))]
    data = {}
    trace = []
    try:
        for n in names:
            p = os.path.join(spelled, n)
            with open(os.path.join(root, n), "wb") as f:
                f.write(b"link-" + n.encode())
            data[n] = b"link-" + n.encode()
            if rng.random() < 0.8:
                st.save_link(p, fs)
                trace.append(["record", n])
        unrecorded = "stranger"
        with open(os.path.join(root, unrecorded), "wb") as f:
            f.write(b"never recorded")
        modified = set()
        for n in names:
            r = rng.random()
            p = os.path.join(root, n)
            if r < 0.25:
                with open(p, "ab") as f:
                    f.write(b"+user")
                stt = os.stat(p)
                os.utime(p, ns=(stt.st_atime_ns, stt.st_mtime_ns + 7_000_000))
                modified.add(n)
                trace.append(["modify", n])
            elif r < 0.4:
                os.remove(p)
                with open(p + ".tmp2", "wb") as f:
                    f.write(b"replaced")
                os.replace(p + ".tmp2", p)
                stt = os.stat(p)
                os.utime(p, ns=(stt.st_atime_ns, stt.st_mtime_ns + 11_000_000))
                modified.add(n)
                trace.append(["replace", n])
            elif r < 0.5:
                os.remove(p)
                trace.append(["remove", n])
        recorded = {t[1] for t in trace if t[0] == "record"}
        used_names = [n for n in names if rng.random() < 0.4]
        used = [os.path.join(spelled, n) for n in used_names]
        before = {n: os.path.exists(os.path.join(root, n)) for n in names + [unrecorded]}
        kind, unused = safe_call(lambda: st.get_unused_links(used, fs))
        kind2, _ = safe_call(lambda: st.remove_links(unused, fs)) if kind == "ok" else ("err", None)
        after = {n: os.path.exists(os.path.join(root, n)) for n in names + [unrecorded]}
        case = {"links": {"trace": trace, "used": used_names, "root_spelling": os.path.relpath(spelled, root) if spelled != root else "."}}
        ctx.case(case, nontrivial=bool(modified) or bool(used_names))
        ctx.count("links:root_spelling=%s" % ("normalised" if spelled == root else "non-normalised"))
        removed = [n for n in before if before[n] and not after[n]]
        for n in removed:
            ok = n in recorded and n not in used_names and n not in modified
            ctx.oracle(ok, case, {"why": "link clean-up removed a path that was not recorded, is in use, or was modified since it was recorded",
                                  "path": n, "recorded": n in recorded, "in_use": n in used_names, "modified": n in modified})
        ctx.oracle(kind == "ok" and kind2 == "ok", case, {"why": "link clean-up raised", "impl": [unused, kind2]})
    finally:
        st.close()


def check_save_during_pass(ctx, rng):
    """the user keeps working while a hashing pass over the workspace (a status: build(dry_run=True); a staging: build())
    runs to completion: a file is saved right after the pass has read it, or before the pass reaches it, in place or by an
    atomic replacement.  Some time later another version is checked out without force.  Whatever the pass left in the state
    database, the checkout must not take the saved file for a cached one.  The interleaving is forced from here by wrapping
    `hash_file` as the build module sees it; every explicit timestamp of the history is distinct (one tick per event)."""
    from dvc_data.hashfile import build as build_mod
    from dvc_data.hashfile.build import build

    sc = Scene(ctx, rng, with_state=True)
    try:
        prior = gen.rand_tree(rng, max_files=5, allow_odd=False)
        t1 = sc.put_tree(prior)
        existing = rng.choice(LINKS)
        link = existing if rng.random() < 0.7 else rng.choice(LINKS)
        _scene(ctx, sc, t1, [existing])
        target = dict(prior)
        for k in list(prior):
            r = rng.random()
            if r < 0.4:
                target[k] = prior[k] + b"#v2"
            elif r < 0.55 and len(target) > 1:
                del target[k]
        if target == prior:
            k = rng.choice(sorted(prior))
            target[k] = prior[k] + b"#v2"
        if rng.random() < 0.3:
            target[("added",)] = b"brand new"
        t2 = sc.put_tree(target)
        t0 = os.stat(sc.ws).st_mtime_ns
        tick = [0]

        def stamp(p):
            tick[0] += 1
            st = os.stat(p)
            os.utime(p, ns=(st.st_atime_ns, t0 + tick[0] * 1_000_000_000))

        def plain(p):
            return not os.path.islink(p) and os.stat(p).st_nlink == 1

        files = sorted(sc.bytes_snapshot())
        # before the pass: some files were touched, or copied anew with the same bytes (unprotect, cp) - the pass has to hash them
        rehash = []
        for rel in files:
            p = os.path.join(sc.ws, rel)
            r = rng.random()
            if r < 0.45 and plain(p):
                stamp(p)
                rehash.append(["touch", rel])
            elif r < 0.85:
                with open(p, "rb") as f:
                    data = f.read()
                os.remove(p)
                with open(p, "wb") as f:
                    f.write(data)
                stamp(p)
                rehash.append(["copy_anew", rel])
        saves = []
        hashed = []

        def user_save(rel, when):
            p = os.path.join(sc.ws, rel)
            cached = rng.random() < 0.12
            content = rng.choice(sorted(sc.contents.values())) if cached else b"user-save-%d-" % rng.randrange(10**6) + rel.encode()
            if plain(p) and rng.random() < 0.6:
                mode = "in_place"
                with open(p, "wb") as f:
                    f.write(content)
            else:
                mode = "replace"
                with open(p + ".user-tmp", "wb") as f:
                    f.write(content)
                os.replace(p + ".user-tmp", p)
            stamp(p)
            saves.append([when, mode, rel, "cached_content" if cached else "uncached_content"])

        real_hash_file = build_mod.hash_file

        def hash_file_then_user(path, *a, **kw):
            ret = real_hash_file(path, *a, **kw)
            rel = os.path.relpath(path, sc.ws)
            if rel in files:
                hashed.append(rel)
                r = rng.random()
                if r < 0.45:
                    user_save(rel, "after_it_was_read")
                elif r < 0.6:
                    other = rng.choice(files)
                    user_save(other, "after_it_was_read" if other in hashed else "before_the_pass_reached_it")
            return ret

        pass_kind = rng.choice(["status", "stage"])
        build_mod.hash_file = hash_file_then_user
        try:
            k0, r0 = safe_call(lambda: build(sc.odb, sc.ws, sc.fs, "md5", dry_run=(pass_kind == "status"))[2].hash_info.value)
        finally:
            build_mod.hash_file = real_hash_file
        second = rng.random() < 0.3
        if second:
            # an undisturbed status afterwards
            safe_call(lambda: build(sc.odb, sc.ws, sc.fs, "md5", dry_run=True))
        relink = rng.random() < (0.6 if existing != link else 0.3)
        prompt = rng.choice([None, "decline"])
        before_bytes = sc.bytes_snapshot()
        recoverable = {rel: (b is not None and sc.intact_in_cache(b)) for rel, b in before_bytes.items()}
        kw = {"force": False, "relink": relink}
        if prompt == "decline":
            kw["prompt"] = lambda msg: False
        res = sc.checkout(t2, [link], **kw)
        after_bytes = sc.bytes_snapshot()
        case = {"save_during_hashing_pass": {"prior": {"/".join(k): v.decode("latin1") for k, v in prior.items()},
                                             "target": {"/".join(k): v.decode("latin1") for k, v in target.items()},
                                             "existing": existing, "link": link, "relink": relink, "prompt": prompt,
                                             "needs_rehash": rehash, "pass": pass_kind, "pass_outcome": k0 if k0 == "ok" else r0,
                                             "hashed_by_the_pass": list(hashed), "user_saves_during_the_pass": saves,
                                             "second_status": second, "local": sc.local}}
        after_read = [s for s in saves if s[0] == "after_it_was_read"]
        ctx.case(case, nontrivial=any(not recoverable[r] for r in before_bytes))
        ctx.count("save_during_pass: pass=%s saves_after_read=%s saves_before_read=%s" % (pass_kind, bool(after_read), len(saves) > len(after_read)))
        ctx.count("save_during_pass outcome:" + ("ok" if "ok" in res else res["err"]))
        for rel, b in before_bytes.items():
            if after_bytes.get(rel) != b:
                ctx.oracle(recoverable[rel], case, {"why": "checkout without force removed or overwrote a file that the user saved while an earlier hashing pass was running; its content is not in the cache",
                                                     "path": rel, "outcome": res, "before_md5": md5hex(b or b"")})
        unrecoverable_in_the_way = [rel for rel, b in before_bytes.items()
                                    if not recoverable[rel] and tuple(rel.split(os.sep)) in prior
                                    and target.get(tuple(rel.split(os.sep))) != b]
        if unrecoverable_in_the_way:
            ctx.oracle(res.get("err") == "PromptError", case,
                       {"why": "a tracked path holds content that is not in the cache and differs from the target, yet checkout without force did not refuse with PromptError",
                        "paths": unrecoverable_in_the_way, "outcome": res})
    finally:
        sc.close()


def check_selective_prompt(ctx, rng):
    """an interactive checkout: the prompt callback answers question by question - yes for some paths, no for others, or
    yes to the first k questions only - while several workspace files hold bytes that are in no cache.  The target is
    another version, the version the workspace came from (discarding the edits), or nothing (removal of the output).
    An answer is given for the path named in the question and for nothing else: every file that is gone or has other
    bytes afterwards was recoverable from the cache, or the user said yes to a question naming that file (or a directory
    above it); a question answered no ends the checkout with PromptError."""
    from dvc_data.hashfile.checkout import CheckoutError, LinkError, PromptError, checkout

    sc = Scene(ctx, rng)
    try:
        prior = gen.rand_tree(rng, max_files=6, allow_odd=False)
        while len(prior) < 2:
            prior = gen.rand_tree(rng, max_files=6, allow_odd=False)
        t1 = sc.put_tree(prior)
        existing = rng.choice(LINKS)
        link = existing if rng.random() < 0.7 else rng.choice(["copy", "hardlink"])
        _scene(ctx, sc, t1, [existing])
        mode = rng.choice(["other_version", "other_version", "same_version", "remove_output"])
        target = dict(prior)
        if mode == "other_version":
            for k in list(prior):
                r = rng.random()
                if r < 0.4:
                    target[k] = prior[k] + b"#v2"
                elif r < 0.55 and len(target) > 1:
                    del target[k]
            if rng.random() < 0.3:
                target[("added",)] = b"brand new"
        t2 = sc.put_tree(target)
        # the user's work: at least two files (when there are two) now hold bytes that exist nowhere else
        files = sorted(sc.bytes_snapshot())
        n_edit = rng.randrange(2, len(files) + 1) if len(files) >= 2 else 1
        edits = []
        for rel in rng.sample(files, n_edit):
            p = os.path.join(sc.ws, rel)
            os.remove(p)
            with open(p, "wb") as f:
                f.write(b"user-edit-%d-" % rng.randrange(10**6) + rel.encode())
            bump_mtime(p, 3_000_000_000)
            edits.append(["replace_uncached", rel])
        if rng.random() < 0.35:
            rel = "user-file-%d" % rng.randrange(100)
            with open(os.path.join(sc.ws, rel), "wb") as f:
                f.write(b"precious-%d" % rng.randrange(10**6))
            edits.append(["add_uncached", rel])
        if rng.random() < 0.25:
            # some of the old version has left the cache as well: the untouched files holding it are not recoverable either
            for k, c in prior.items():
                h = md5hex(c)
                p = sc.cache_path(h)
                if existing != "symlink" and link != "symlink" and h not in {md5hex(x) for x in target.values()} \
                        and os.path.exists(p) and rng.random() < 0.5:
                    os.chmod(p, 0o644)
                    os.remove(p)
                    edits.append(["object_left_cache", "/".join(k)])
        before_bytes = sc.bytes_snapshot()
        recoverable = {rel: (b is not None and sc.intact_in_cache(b)) for rel, b in before_bytes.items()}
        at_risk = sorted(rel for rel, ok in recoverable.items() if not ok)
        # how the user answers
        policy = rng.choice(["by_path", "by_path", "first_k"])
        if policy == "by_path":
            yes_paths = {rel for rel in at_risk if rng.random() < 0.5}
            shape = rng.random()
            if shape < 0.25:
                yes_paths = set(at_risk)  # the user agrees to everything
            elif shape < 0.85 and len(at_risk) >= 2:
                # a mixed answer: at least one yes and one no
                a, b = rng.sample(at_risk, 2)
                yes_paths.add(a)
                yes_paths.discard(b)
            yes_dir = rng.random() < 0.6
            how = {"policy": policy, "yes_for": sorted(yes_paths), "yes_for_the_directory": yes_dir}
        else:
            first_k = rng.randrange(0, len(at_risk) + 2)
            if len(at_risk) >= 2 and rng.random() < 0.7:
                first_k = rng.randrange(1, len(at_risk))
            how = {"policy": policy, "yes_to_the_first": first_k}
        asked = []  # [path named in the question relative to the workspace ('.' = the output itself), answer]

        def prompt(msg):
            named = msg[msg.index("'") + 1:msg.rindex("'")] if msg.count("'") >= 2 else msg
            rel = os.path.relpath(named, sc.ws) if os.path.isabs(named) else named
            if policy == "first_k":
                answer = len(asked) < first_k
            elif rel == ".":
                answer = yes_dir
            else:
                answer = rel in yes_paths
            asked.append([rel, answer])
            return answer

        relink = rng.random() < 0.3
        if mode == "remove_output":
            kind, r = safe_call(lambda: checkout(sc.ws, sc.fs, None, sc.odb, force=False, state=sc.state, prompt=prompt, quiet=True),
                                expected=(PromptError, CheckoutError, LinkError))
            res = {"ok": bool(r)} if kind == "ok" else {"err": r}
        else:
            res = sc.checkout(t2, [link], force=False, relink=relink, prompt=prompt)
        after_bytes = sc.bytes_snapshot()
        case = {"selective_prompt": {"prior": {"/".join(k): v.decode("latin1") for k, v in prior.items()},
                                     "target": None if mode == "remove_output" else {"/".join(k): v.decode("latin1") for k, v in target.items()},
                                     "mode": mode, "existing": existing, "link": link, "relink": relink, "edits": edits,
                                     "not_recoverable_before": at_risk, "answers": how, "local": sc.local, "state": sc.state is not None}}
        yes_n = sum(1 for _, a in asked if a)
        no_n = len(asked) - yes_n
        ctx.case(case, nontrivial=len(at_risk) >= 2)
        ctx.count("selective_prompt: mode=%s policy=%s" % (mode, policy))
        ctx.count("selective_prompt: answers yes=%s no=%s" % (min(yes_n, 2), min(no_n, 1)))
        ctx.count("selective_prompt outcome:" + ("ok" if "ok" in res else res["err"]))

        def confirmed(rel):
            for q, a in asked:
                if a and (q == rel or q == "." or rel.startswith(q.rstrip(os.sep) + os.sep)):
                    return True
            return False

        for rel, b in before_bytes.items():
            if after_bytes.get(rel) != b:
                ctx.oracle(recoverable[rel] or confirmed(rel), case,
                           {"why": "checkout without force removed or overwrote a file whose content is not in the cache, and the "
                                   "prompt was never answered affirmatively for that file (an answer given for another path was reused, or no question was asked)",
                            "path": rel, "questions_and_answers": list(asked), "outcome": res, "before_md5": md5hex(b or b"")})
        if no_n:
            ctx.oracle(res.get("err") == "PromptError", case,
                       {"why": "the prompt declined the removal of a path, yet the checkout did not end with PromptError",
                        "questions_and_answers": list(asked), "outcome": res})
        elif "err" in res and res["err"] == "PromptError":
            ctx.oracle(False, case, {"why": "PromptError although every question that was asked got an affirmative answer",
                                     "questions_and_answers": list(asked), "outcome": res})
    finally:
        sc.close()


def run(ctx):
    ctx.rule = (
        "workspace checked out from one directory object (copy/hardlink/symlink, both store classes, with/without state), then user "
        "edits (replace by uncached content, replace by cached content, delete, add an untracked file), optionally the old version "
        "leaving the cache, then a checkout of another object without force, relink on/off, prompt absent or declining, some target "
        "objects missing, the workspace checked out with another link type than the configured one, objects of unchanged files gone from the cache; removal of an output (checkout of no object) with file objects gone from the cache while the directory object stays; workspaces hashed earlier under the text-normalising md5 through a shared state while the md5 cache holds only the LF twins of their CRLF files; link histories record/modify/replace/remove/clean-up with in-use lists and non-normalised root spellings; a real State and a hashing pass over the workspace (status or staging) during which the user saves files - right after the pass has read them or before it reaches them, in place or by replacement, every timestamp distinct - followed later by a checkout of another version without force (refusal and untouched bytes checked); interactive checkouts whose prompt callback answers question by question (yes for some paths and no for others, or yes to the first k questions only) with at least two workspace files holding bytes that are in no cache, towards another version / the same version / no object: a lost file was recoverable or confirmed by name, a declined question ends in PromptError. "
        "non-trivial = the workspace holds at least one file whose content is not in the cache"
    )
    ctx.assumptions = ["the hash-state cache is coherent (C13): a stale cached hash of a user file would make in_cache lie "
                       "(explored here only for saves that land during a completed hashing pass of build())"]
    for _ in range(ctx.n(130, 1500)):
        _guarded(check_noforce, ctx, ctx.rng)
    for _ in range(ctx.n(120, 1200)):
        _guarded(check_links, ctx, ctx.rng)
    for _ in range(ctx.n(40, 500)):
        _guarded(check_remove_output, ctx, ctx.rng)
    for _ in range(ctx.n(25, 250)):
        _guarded(check_legacy_twin, ctx, ctx.rng)
    for _ in range(ctx.n(40, 400)):
        _guarded(check_save_during_pass, ctx, ctx.rng)
    for _ in range(ctx.n(40, 400)):
        _guarded(check_selective_prompt, ctx, ctx.rng)
    for _ in range(ctx.n(30, 300)):
        _guarded(check_ignored_files, ctx, ctx.rng)
def search(ctx):
    for _ in range(1200):
        _guarded(check_noforce, ctx, ctx.rng)
    for _ in range(800):
        _guarded(check_links, ctx, ctx.rng)
    for _ in range(500):
        _guarded(check_remove_output, ctx, ctx.rng)
    for _ in range(250):
        _guarded(check_legacy_twin, ctx, ctx.rng)
    for _ in range(400):
        _guarded(check_save_during_pass, ctx, ctx.rng)
    for _ in range(400):
        _guarded(check_selective_prompt, ctx, ctx.rng)
    for _ in range(300):
        _guarded(check_ignored_files, ctx, ctx.rng)
def replay(ctx, payload):
    run(ctx)
