"""C04 — transfer keeps the destination closed: a directory object implies its files (transfer.py)."""
from . import stores, xfer


def wanted(sc, uni):
    """every object the closed request asks for (directories expanded)"""
    return sorted(uni.closure(sc["req"]))


def check(ctx, sc, uni, collect_only=False):
    src_eff, fails = xfer.effective(sc)
    persistent = {o for o in sc["corrupt"] if sc["verify"] and not sc["src_local"]}
    run = xfer.Run(ctx, sc, uni)
    try:
        vanish = sc.get("vanish", [])
        obs1 = run.transfer(sc["fail"], vanish=vanish)
        bad1 = list(run.closure_bad)
        dest1, idx1 = obs1["dest"], obs1["index"]
        src_after1 = stores.listing_of(run.src.path)
        obs2 = run.transfer(())  # clean retry
        bad2 = run.closure_bad[len(bad1):]
    finally:
        run.close()
    case = dict(sc)
    nontriv = any(o.endswith(".dir") for o in sc["req"]) and bool(sc["fail"]) and any(
        sum(1 for t in uni.trees if f in uni.listing(t)) > 1 for f in uni.files)
    ctx.case(case, nontrivial=nontriv)
    ctx.count("index=%s" % sc["index"])
    ctx.count("verify=%s" % sc["verify"])
    ctx.count("shallow=%s" % sc["shallow"])
    ctx.count("failing_uploads=%d" % min(len(sc["fail"]), 4))
    ctx.count("vanishing_source=%d" % len(sc.get("vanish", [])))
    ctx.count("req_form=%s" % sc.get("req_form", "set"))
    ctx.count("stores=%s->%s" % ("local" if sc["src_local"] else "generic", "local" if sc["dest_local"] else "generic"))
    # correspondence (round 1 from the scenario, round 2 from the state the implementation reached)
    reqs = [xfer.model_req(sc, uni, run.dest_before, run.index_before, obs1["dir_order"]),
            xfer.model_req(sc, uni, dest1, idx1, obs2["dir_order"], fails=sorted(persistent),
                           src=[o for o in src_eff if o in src_after1] if (sc["src_local"] or vanish) else None)]
    a1, a2 = ctx.driver.batch(reqs)
    ctx.corr("Transfer.transferWith∘compareStatus~transfer() (faulty round)", case, xfer.canon_impl(obs1), xfer.canon_model(a1))
    ctx.corr("Transfer.transferWith∘compareStatus~transfer() (clean retry)", case, xfer.canon_impl(obs2), xfer.canon_model(a2))
    # ---- oracle, on the implementation's behaviour only
    ctx.oracle(not bad1, case, {"why": "destination not closed at some point of the faulty transfer", "first": bad1[:2], "events": obs1["events"]},
               signature=None)
    ctx.oracle(not bad2, case, {"why": "destination not closed during the retry", "first": bad2[:2]})
    if "err" in obs1 or "err" in obs2:
        # an expanded request whose directory object cannot be loaded from the source raises FileNotFoundError by design
        loadable = all((d in src_eff) for d in sc["req"] if d.endswith(".dir")) or sc["shallow"]
        ctx.oracle(not loadable and obs1.get("err") == "FileNotFoundError", case, {"why": "transfer raised", "obs": [obs1.get("err"), obs2.get("err")]})
        return
    before = set(run.dest_before)
    d1 = set(dest1)
    for d in [o for o in wanted(sc, uni) if o.endswith(".dir")]:
        if d in src_eff and d not in before and d not in d1:
            undelivered = [f for f in uni.listing(d) if f not in d1]
            ctx.oracle(bool(undelivered) or d in fails, case, {"why": "directory object withheld although all its files are present", "dir": d})
            ctx.oracle(d in obs1["failed"], case, {"why": "withheld directory object not reported as failed", "dir": d,
                                                   "undelivered": undelivered, "failed": obs1["failed"]},
                       signature="withheld-dir-with-entry-missing-on-both-sides-not-reported-failed"
                       if all((f not in src_eff and f not in before) or f in d1 for f in uni.listing(d)) and d not in fails else None)
    # retry completes
    d2 = set(obs2["dest"])
    avail = (set(src_eff) - set(vanish)) | before
    still_failing = persistent  # corrupt sources under verify fail on every attempt
    for o in wanted(sc, uni):
        if o.endswith(".dir"):
            complete = o in avail and all((f in before) or (f in avail and f not in still_failing) for f in uni.listing(o))
            if complete and o not in still_failing:
                ctx.oracle(o in d2, case, {"why": "clean retry did not deliver a complete directory", "dir": o, "dest": sorted(d2)})
        elif o in avail and o not in still_failing:
            ctx.oracle(o in d2, case, {"why": "clean retry did not deliver an available file", "file": o})
    if len(ctx.samples) < 3 and nontriv:
        ctx.sample({"scenario": {k: sc[k] for k in ("req", "shallow", "fail", "dest", "index", "verify")}, "round1": xfer.canon_impl(obs1)})


def run_cases(ctx, n):
    for _ in range(n):
        sc, uni = xfer.gen_scenario(ctx.rng)
        check(ctx, sc, uni)


def exhaustive_failures(ctx, nscen):
    """all failure subsets of small scenarios (two/three trees sharing files)"""
    import itertools

    done = 0
    for _ in range(nscen):
        sc, uni = xfer.gen_scenario(ctx.rng, want_verify=False)
        cand = sorted(uni.closure(sc["req"]) - set(sc["dest"]))
        if not (2 <= len(cand) <= 7):
            continue
        for r in range(len(cand) + 1):
            for sub in itertools.combinations(cand, r):
                sc2 = dict(sc)
                sc2["fail"] = list(sub)
                check(ctx, sc2, uni)
                done += 1
    ctx.exhaustive["all failure subsets of %d small scenarios" % nscen] = True
    return done


def run(ctx):
    ctx.rule = (
        "closed requests over 1-4 directory objects sharing/repeating files, initial closed destination contents, random subsets "
        "of failing uploads, shallow (dirs listed with files) or expanded, with/without a real remote index, verify with corrupt "
        "sources, both store classes; every scenario is followed by a fault-free retry; the destination is audited for closure "
        "after every single upload event (the state a kill at that point leaves). non-trivial = a directory requested, >=1 failing "
        "upload and a file shared by two directories; distinct = sha256 of the scenario"
    )
    ctx.assumptions = ["one upload is atomic (C15 covers local stores)", "uploads inside one batch are independent events in arbitrary order"]
    run_cases(ctx, ctx.n(220, 2500))
    if ctx.tier == "thorough":
        exhaustive_failures(ctx, 12)


def search(ctx):
    run_cases(ctx, 1500)
    exhaustive_failures(ctx, 6)


def replay(ctx, payload):
    sc = payload.get("case") or payload.get("diverging_case")
    check(ctx, sc, xfer.rebuild(sc))
