"""C04 — transfer keeps the destination closed: a directory object implies its files (transfer.py)."""
from . import stores, xfer


def wanted(sc, uni):
    """every object the closed request asks for (directories expanded)"""
    return sorted(uni.closure(sc["req"]))


def check(ctx, sc, uni, collect_only=False):
    src_eff, fails = xfer.effective(sc)
    persistent = {o for o in sc["corrupt"] if sc["verify"] and not sc["src_local"]}
    run = xfer.Run(ctx, sc, uni)
    try:
        vanish = sc.get("vanish", [])
        obs1 = run.transfer(sc["fail"], vanish=vanish)
        bad1 = list(run.closure_bad)
        dest1, idx1 = obs1["dest"], obs1["index"]
        src_after1 = stores.listing_of(run.src.path)
        obs2 = run.transfer(())  # clean retry
        bad2 = run.closure_bad[len(bad1):]
    finally:
        run.close()
    case = dict(sc)
    nontriv = any(o.endswith(".dir") for o in sc["req"]) and bool(sc["fail"]) and any(
        sum(1 for t in uni.trees if f in uni.listing(t)) > 1 for f in uni.files)
    ctx.case(case, nontrivial=nontriv)
    ctx.count("index=%s" % sc["index"])
    ctx.count("verify=%s" % sc["verify"])
    ctx.count("shallow=%s" % sc["shallow"])
    ctx.count("failing_uploads=%d" % min(len(sc["fail"]), 4))
    ctx.count("vanishing_source=%d" % len(sc.get("vanish", [])))
    ctx.count("req_form=%s" % sc.get("req_form", "set"))
    ctx.count("stores=%s->%s" % ("local" if sc["src_local"] else "generic", "local" if sc["dest_local"] else "generic"))
    # correspondence (round 1 from the scenario, round 2 from the state the implementation reached)
    reqs = [xfer.model_req(sc, uni, run.dest_before, run.index_before, obs1["dir_order"]),
            xfer.model_req(sc, uni, dest1, idx1, obs2["dir_order"], fails=sorted(persistent),
                           src=[o for o in src_eff if o in src_after1] if (sc["src_local"] or vanish) else None)]
    a1, a2 = ctx.driver.batch(reqs)
    ctx.corr("Transfer.transferWith∘compareStatus~transfer() (faulty round)", case, xfer.canon_impl(obs1), xfer.canon_model(a1))
    ctx.corr("Transfer.transferWith∘compareStatus~transfer() (clean retry)", case, xfer.canon_impl(obs2), xfer.canon_model(a2))
    # ---- oracle, on the implementation's behaviour only
    ctx.oracle(not bad1, case, {"why": "destination not closed at some point of the faulty transfer", "first": bad1[:2], "events": obs1["events"]},
               signature=None)
    ctx.oracle(not bad2, case, {"why": "destination not closed during the retry", "first": bad2[:2]})
    if "err" in obs1 or "err" in obs2:
        # an expanded request whose directory object cannot be loaded from the source raises FileNotFoundError by design
        loadable = all((d in src_eff) for d in sc["req"] if d.endswith(".dir")) or sc["shallow"]
        ctx.oracle(not loadable and obs1.get("err") == "FileNotFoundError", case, {"why": "transfer raised", "obs": [obs1.get("err"), obs2.get("err")]})
        return
    before = set(run.dest_before)
    d1 = set(dest1)
    for d in [o for o in wanted(sc, uni) if o.endswith(".dir")]:
        if d in src_eff and d not in before and d not in d1:
            undelivered = [f for f in uni.listing(d) if f not in d1]
            ctx.oracle(bool(undelivered) or d in fails, case, {"why": "directory object withheld although all its files are present", "dir": d})
            ctx.oracle(d in obs1["failed"], case, {"why": "withheld directory object not reported as failed", "dir": d,
                                                   "undelivered": undelivered, "failed": obs1["failed"]},
                       signature="withheld-dir-with-entry-missing-on-both-sides-not-reported-failed"
                       if all((f not in src_eff and f not in before) or f in d1 for f in uni.listing(d)) and d not in fails else None)
    # retry completes
    d2 = set(obs2["dest"])
    avail = (set(src_eff) - set(vanish)) | before
    still_failing = persistent  # corrupt sources under verify fail on every attempt
    for o in wanted(sc, uni):
        if o.endswith(".dir"):
            complete = o in avail and all((f in before) or (f in avail and f not in still_failing) for f in uni.listing(o))
            if complete and o not in still_failing:
                ctx.oracle(o in d2, case, {"why": "clean retry did not deliver a complete directory", "dir": o, "dest": sorted(d2)})
        elif o in avail and o not in still_failing:
            ctx.oracle(o in d2, case, {"why": "clean retry did not deliver an available file", "file": o})
    if len(ctx.samples) < 3 and nontriv:
        ctx.sample({"scenario": {k: sc[k] for k in ("req", "shallow", "fail", "dest", "index", "verify")}, "round1": xfer.canon_impl(obs1)})


def run_cases(ctx, n):
    for _ in range(n):
        sc, uni = xfer.gen_scenario(ctx.rng)
        check(ctx, sc, uni)


def exhaustive_failures(ctx, nscen):
    """all failure subsets of small scenarios (two/three trees sharing files)"""
    import itertools

    done = 0
    for _ in range(nscen):
        sc, uni = xfer.gen_scenario(ctx.rng, want_verify=False)
        cand = sorted(uni.closure(sc["req"]) - set(sc["dest"]))
        if not (2 <= len(cand) <= 7):
            continue
        for r in range(len(cand) + 1):
            for sub in itertools.combinations(cand, r):
                sc2 = dict(sc)
                sc2["fail"] = list(sub)
                check(ctx, sc2, uni)
                done += 1
    ctx.exhaustive["all failure subsets of %d small scenarios" % nscen] = True
    return done


# ---------------------------------------------------------------------------------------------------------------------
# caller-supplied listing store (`cache_odb`): where the directories of an expanded request are looked up
#
# transfer(..., cache_odb=X) makes status() and _do_transfer() read the listings of the requested directories from X
# instead of the source: index.fetch passes the destination cache itself, a push may pass the local cache, a caller may
# pass any third store.  X may or may not hold the listing of a requested directory, and the source may have lost files
# a listing names.  Whatever the library does then (refuse with FileNotFoundError, or deliver what it can) the
# destination stays closed at every point, a directory is never reported transferred without its files, a withheld
# directory is reported failed, and a fault-free retry completes what is available.  Oracle-only (the Lean model's
# request has no listing-store parameter: it reads listings from the total function L).


def gen_cache_scenario(rng):
    uni = stores.Universe(rng, ntrees=rng.randrange(1, 4))
    files, trees = list(uni.files), list(uni.trees)
    # the source holds every directory object but has lost some of the files (missing on both sides unless dest has them)
    psrc = rng.choice([0.6, 0.8, 0.95])
    src = list(trees) + [f for f in files if rng.random() < psrc]
    dest = set()
    for t in trees:  # closed initial contents
        if rng.random() < 0.2:
            dest.add(t)
            dest.update(uni.listing(t))
    for f in files:
        if rng.random() < 0.2:
            dest.add(f)
    shallow = rng.random() < 0.25
    req_dirs = [t for t in trees if rng.random() < 0.8] or [rng.choice(trees)]
    req = list(req_dirs)
    if shallow:
        for t in req_dirs:  # closed request: every directory together with its files
            req += [f for f in uni.listing(t) if f not in req]
    req += [f for f in files if rng.random() < 0.2 and f not in req]
    rng.shuffle(req)
    cache = rng.choice(["none", "src", "dest", "dest", "other", "other", "other"])
    # a third store knows the listings of some of the directories (and, irrelevantly, some files)
    other = [t for t in trees if rng.random() < 0.6] + [f for f in files if rng.random() < 0.3] if cache == "other" else []
    cand = sorted(uni.closure(req) - dest)
    pf = rng.choice([0.0, 0.0, 0.2, 0.5])
    fail = [o for o in cand if rng.random() < pf]
    return {
        "family": "cache_odb",
        "files": {k: v.decode() for k, v in uni.files.items()},
        "trees": {d: {"/".join(k): v for k, v in e.items()} for d, e in uni.trees.items()},
        "src": src, "dest": sorted(dest), "req": req, "shallow": shallow, "fail": fail, "cache": cache, "other": other,
        "index": rng.random() < 0.2, "src_local": rng.random() < 0.5, "dest_local": rng.random() < 0.5,
        "cache_local": rng.random() < 0.5, "req_form": rng.choice(["set", "list", "generator"]),
    }, uni


def check_cache(ctx, sc, uni):
    import os

    from dvc_data.hashfile.transfer import transfer

    from .util import safe_call

    root = ctx.mkdtemp()
    src = stores.make_odb(os.path.join(root, "src"), local=sc["src_local"])
    dest = stores.make_odb(os.path.join(root, "dest"), local=sc["dest_local"])
    stores.populate(src, uni, sc["src"])
    stores.populate(dest, uni, sc["dest"])
    other = None
    if sc["cache"] == "other":
        other = stores.make_odb(os.path.join(root, "other"), local=sc["cache_local"])
        stores.populate(other, uni, sc["other"])
    cache_odb = {"none": None, "src": src, "dest": dest, "other": other}[sc["cache"]]
    lookup = (cache_odb or src).path  # where the destination-side query expands the requested directories
    idx = stores.new_index(os.path.join(root, "tmp")) if sc["index"] else None
    closure_bad = []

    def audit(oid):
        bad = stores.closed_violations(dest.path)
        if bad:
            closure_bad.append({"after_upload_of": oid, "dangling": bad[:3]})

    def one_round(fail):
        known = set(stores.listing_of(lookup))
        faults = stores.Faults(dest, fail, on_event=audit)
        ids = [stores.hi(o) for o in sc["req"]]

        def f():
            req = {"set": set(ids), "list": ids, "generator": (h for h in ids)}[sc["req_form"]]
            with faults.active():
                return transfer(src, dest, req, dest_index=idx, cache_odb=cache_odb, shallow=sc["shallow"])

        kind, res = safe_call(f, expected=(FileNotFoundError,))
        audit("<end>")
        obs = {"events": [list(e) for e in faults.events], "dest": stores.listing_of(dest.path),
               "unlisted": sorted(d for d in sc["req"] if d.endswith(".dir") and d not in known)}
        if kind == "ok":
            obs["transferred"], obs["failed"] = stores.vals(res.transferred), stores.vals(res.failed)
        else:
            obs["err"] = res
        return obs

    before = set(stores.listing_of(dest.path))
    src_before = stores.listing_of(src.path)
    try:
        obs1 = one_round(sc["fail"])
        bad1 = list(closure_bad)
        obs2 = one_round(())  # clean retry
        bad2 = closure_bad[len(bad1):]
    finally:
        if idx is not None:
            idx.close()
    case = dict(sc)
    req_dirs = [o for o in sc["req"] if o.endswith(".dir")]
    lost = [d for d in req_dirs if any(f not in sc["src"] and f not in before for f in uni.listing(d))]
    ctx.case(case, nontrivial=bool(lost) or bool(sc["fail"]))
    ctx.count("cache_odb=%s" % sc["cache"])
    ctx.count("cache_odb:shallow=%s" % sc["shallow"])
    ctx.count("cache_odb:listing_absent_from_cache=%s" % bool(obs1["unlisted"]))
    ctx.count("cache_odb:dir_with_file_lost_by_source=%s" % bool(lost))
    ctx.count("cache_odb:outcome=%s" % obs1.get("err", "result"))
    ctx.oracle(not bad1, case, {"why": "destination not closed at some point of a transfer with a caller-supplied listing store",
                                "first": bad1[:2], "events": obs1["events"], "round1": {k: obs1.get(k) for k in ("transferred", "failed", "err")}})
    ctx.oracle(not bad2, case, {"why": "destination not closed during the retry (caller-supplied listing store)", "first": bad2[:2]})
    ctx.oracle(stores.listing_of(src.path) == src_before, case, {"why": "transfer changed the source"})
    for n, obs in ((1, obs1), (2, obs2)):
        have = set(obs["dest"])
        if "err" in obs:
            # refusing is fine exactly when an expanded request names a directory whose listing is not where the caller said
            ctx.oracle(obs["err"] == "FileNotFoundError" and not sc["shallow"] and bool(obs["unlisted"]), case,
                       {"why": "transfer raised although every requested listing was available", "round": n, "err": obs["err"],
                        "unlisted": obs["unlisted"]})
            continue
        for o in obs["transferred"]:
            short = [o] if o not in have else [f for f in (uni.listing(o) if o.endswith(".dir") else []) if f not in have]
            ctx.oracle(not short, case, {"why": "reported transferred, yet not (completely) in the destination", "round": n, "object": o,
                                         "absent": short})
        ctx.oracle(not (set(obs["transferred"]) & set(obs["failed"])), case, {"why": "object both transferred and failed", "round": n})
        for d in req_dirs:
            if d in sc["src"] and d not in before and d not in have:
                undelivered = [f for f in uni.listing(d) if f not in have]
                ctx.oracle(bool(undelivered) or (n == 1 and d in sc["fail"]), case,
                           {"why": "directory object withheld although all its files are present", "round": n, "dir": d})
                ctx.oracle(d in obs["failed"], case, {"why": "withheld directory object not reported as failed", "round": n, "dir": d,
                                                      "undelivered": undelivered, "failed": obs["failed"]})
    if "err" not in obs2:
        d2, avail = set(obs2["dest"]), set(sc["src"]) | before
        for o in wanted(sc, uni):
            if o.endswith(".dir"):
                if o in avail and all(f in avail for f in uni.listing(o)):
                    ctx.oracle(o in d2, case, {"why": "clean retry did not deliver a complete directory", "dir": o, "dest": sorted(d2)})
            elif o in avail:
                ctx.oracle(o in d2, case, {"why": "clean retry did not deliver an available file", "file": o})


def run_cache_cases(ctx, n):
    for _ in range(n):
        sc, uni = gen_cache_scenario(ctx.rng)
        check_cache(ctx, sc, uni)


def run(ctx):
    ctx.rule = (
        "closed requests over 1-4 directory objects sharing/repeating files, initial closed destination contents, random subsets "
        "of failing uploads, shallow (dirs listed with files) or expanded, with/without a real remote index, verify with corrupt "
        "sources, both store classes; every scenario is followed by a fault-free retry; the destination is audited for closure "
        "after every single upload event (the state a kill at that point leaves). non-trivial = a directory requested, >=1 failing "
        "upload and a file shared by two directories; distinct = sha256 of the scenario. Appended family (oracle-only): transfers with a "
        "caller-supplied listing store cache_odb (none / the source / the destination itself, as index.fetch passes / a third store "
        "knowing a random subset of the listings), mostly expanded requests (shallow=False), a source that has lost listed files, "
        "failing uploads, optional remote index, then a clean retry: closure after every upload, no directory reported transferred "
        "without its files, withheld directories reported failed, FileNotFoundError accepted only when a requested listing is absent "
        "from the listing store; non-trivial there = a failing upload or a requested directory with a file lost on both sides"
    )
    ctx.assumptions = ["one upload is atomic (C15 covers local stores)", "uploads inside one batch are independent events in arbitrary order"]
    run_cases(ctx, ctx.n(220, 2500))
    if ctx.tier == "thorough":
        exhaustive_failures(ctx, 12)
    run_cache_cases(ctx, ctx.n(110, 1200))


def search(ctx):
    run_cases(ctx, 1500)
    exhaustive_failures(ctx, 6)
    run_cache_cases(ctx, 600)


def replay(ctx, payload):
    sc = payload.get("case") or payload.get("diverging_case")
    if sc.get("family") == "cache_odb":
        check_cache(ctx, sc, xfer.rebuild(sc))
        return
    check(ctx, sc, xfer.rebuild(sc))
