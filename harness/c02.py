"""C02 — stage -> store -> checkout round trip reproduces the data exactly
(hashfile/build.py, transfer.py, checkout.py, tree.py, index/build.py, index/save.py, index/checkout.py)."""
import os

from . import gen, stores
from .util import md5hex, safe_call, walk_files


def tree_req(files, algo="md5"):
    keys = list(files)
    return {"op": "names", "algo": algo, "files": [files[k].hex() for k in keys], "trees": [[[list(k), i] for i, k in enumerate(keys)]]}


def run_case(ctx, rng):
    from dvc_data.hashfile import load
    from dvc_data.hashfile.build import build
    from dvc_data.hashfile.checkout import checkout
    from dvc_data.hashfile.state import State
    from dvc_data.hashfile.transfer import transfer
    from dvc_data.hashfile.tree import Tree
    from dvc_data.index import build as ibuild
    from dvc_data.index.checkout import apply, compare
    from dvc_data.index.index import ObjectStorage
    from dvc_data.index.save import md5 as imd5
    from dvc_data.index.save import save as isave

    fs = stores.fs_local()
    root = ctx.mkdtemp()
    files = gen.rand_tree(rng, max_files=rng.choice([1, 3, 6, 9]), max_depth=rng.choice([0, 2, 4]))
    ws = os.path.join(root, "src")
    if rng.random() < 0.12:
        # the tree contains a replica of its own absolute location below a directory (cp --parents backups do that): the
        # relative key must come from slicing off the leading prefix only
        files[("backup",) + tuple(p for p in ws.split(os.sep) if p) + ("inner", "replica.txt")] = b"replica"
    gen.materialize(ws, files, rng)
    local = rng.random() < 0.5
    link = rng.choice(["copy", "hardlink", "symlink"])
    use_state = rng.random() < 0.5
    st = State(root_dir=root, tmp_dir=os.path.join(root, "tmp")) if use_state else None
    cfg = {"state": st} if st else {}
    odb = stores.make_odb(os.path.join(root, "odb"), local=local, type=[link], **cfg)
    want = {"/".join(k): v for k, v in files.items()}
    case = {"tree": {k: (v.hex() if len(v) < 40 else "len:%d" % len(v)) for k, v in want.items()}, "local": local, "link": link, "state": use_state}
    ctx.case(case, nontrivial=len(files) >= 2)
    ctx.count("files:%d" % min(len(files), 9))
    ctx.count("store=%s link=%s state=%s" % ("local" if local else "generic", link, use_state))
    ctx.count("duplicates=%s" % (len(set(files.values())) < len(files)))
    try:
        # ---- object level
        def obj_level():
            staging, meta, obj = build(odb, ws, fs, "md5")
            res = transfer(staging, odb, {obj.hash_info}, shallow=False)
            loaded = Tree.load(odb, obj.hash_info)
            out = os.path.join(root, "out-obj")
            checkout(out, fs, load(odb, obj.hash_info), odb, force=True, state=st)
            return {"oid": obj.oid, "built": sorted(("/".join(k), h.value) for k, _, h in obj),
                    "loaded": sorted(("/".join(k), h.value) for k, _, h in loaded), "nfiles": meta.nfiles, "size": meta.size,
                    "failed": len(res.failed), "out": walk_files(out), "store": stores.listing_of(odb.path)}

        k1, o = safe_call(obj_level)
        # ---- index level
        def idx_level():
            idx = imd5(ibuild(ws, fs), state=st)
            odb2 = stores.make_odb(os.path.join(root, "odb2"), local=local, type=[link], **cfg)
            isave(idx, odb=odb2)
            idx.storage_map.add_cache(ObjectStorage((), odb2))
            out = os.path.join(root, "out-idx")
            os.makedirs(out)
            diff = compare(None, idx)
            errs = []
            apply(diff, out, fs, update_meta=False, onerror=lambda *a: errs.append(str(a[1])), state=st)
            return {"out": walk_files(out), "errors": errs, "store": stores.listing_of(odb2.path)}

        k2, x = safe_call(idx_level)
        # ---- single file
        some_key = sorted(files)[0]

        def file_level():
            p = os.path.join(ws, *some_key)
            staging, meta, obj = build(odb, p, fs, "md5")
            transfer(staging, odb, {obj.hash_info})
            out = os.path.join(root, "out-file")
            checkout(out, fs, load(odb, obj.hash_info), odb, force=True)
            with open(out, "rb") as f:
                return {"oid": obj.oid, "bytes": f.read(), "size": meta.size}

        k3, f = safe_call(file_level)
        # ---- a second round over the same source after one file was replaced the way `rsync -t` / `cp -p` / an archive
        # extractor does it (other bytes of the same length, old timestamps, renamed over the path)
        second = None
        if rng.random() < 0.5:
            key = rng.choice(sorted(files))
            fp = os.path.join(ws, *key)
            st0 = os.stat(fp)
            newb = bytes((b + 1) % 256 for b in files[key])
            with open(fp + ".incoming", "wb") as fh:
                fh.write(newb)
            os.utime(fp + ".incoming", ns=(st0.st_atime_ns, st0.st_mtime_ns))
            os.replace(fp + ".incoming", fp)
            want2 = {**want, "/".join(key): newb}

            def again():
                staging, meta, obj = build(odb, ws, fs, "md5")
                transfer(staging, odb, {obj.hash_info}, shallow=False)
                out = os.path.join(root, "out-obj-2")
                checkout(out, fs, load(odb, obj.hash_info), odb, force=True, state=st)
                idx = imd5(ibuild(ws, fs), state=st)
                odb3 = stores.make_odb(os.path.join(root, "odb3"), local=local, type=[link], **cfg)
                isave(idx, odb=odb3)
                idx.storage_map.add_cache(ObjectStorage((), odb3))
                out2 = os.path.join(root, "out-idx-2")
                os.makedirs(out2)
                apply(compare(None, idx), out2, fs, update_meta=False, state=st)
                return walk_files(out), walk_files(out2)

            second = (safe_call(again), want2, "/".join(key))
    finally:
        if st:
            st.close()
    ans = ctx.driver.ask(tree_req(files))
    m = ans["trees"][0]
    exp_entries = sorted(("/".join(k), md5hex(v)) for k, v in files.items())
    exp_store_files = sorted(set(md5hex(v) for v in files.values()))
    if k1 == "ok":
        ctx.corr("Build.stage/Tree.digest~build()+transfer()", case,
                 {"oid": o["oid"], "nfiles": o["nfiles"], "size": o["size"], "files_in_store": sorted(x for x in o["store"] if not x.endswith(".dir"))},
                 {"oid": m["oid"], "nfiles": m["nfiles"], "size": m["size"], "files_in_store": sorted(set(ans["files"]))})
        ctx.oracle(m["roundtrip"] is True, case, {"why": "model round trip failed", "model": m})
        ctx.oracle(o["out"] == want, case, {"why": "object-level round trip does not reproduce the data",
                                            "missing": sorted(set(want) - set(o["out"])), "extra": sorted(set(o["out"]) - set(want)),
                                            "different": sorted(k for k in want if k in o["out"] and o["out"][k] != want[k])})
        ctx.oracle(o["built"] == exp_entries and o["loaded"] == exp_entries, case, {"why": "built or reloaded listing differs from the data", "built": o["built"][:4], "loaded": o["loaded"][:4]})
        ctx.oracle(o["nfiles"] == len(files) and o["size"] == sum(len(v) for v in files.values()) and o["failed"] == 0, case,
                   {"why": "file count / total size do not match the data", "nfiles": o["nfiles"], "size": o["size"]})
        ctx.oracle(sorted(x for x in o["store"] if not x.endswith(".dir")) == exp_store_files, case, {"why": "the store does not hold exactly the file objects", "store": o["store"]})
    else:
        ctx.oracle(False, case, {"why": "object-level round trip raised", "impl": o})
    if k2 == "ok":
        ctx.oracle(x["out"] == want and not x["errors"], case, {"why": "index-level round trip does not reproduce the data", "errors": x["errors"][:3],
                                                                "missing": sorted(set(want) - set(x["out"])), "extra": sorted(set(x["out"]) - set(want))})
    else:
        ctx.oracle(False, case, {"why": "index-level round trip raised", "impl": x})
    ctx.oracle(k3 == "ok" and f["bytes"] == files[some_key] and f["oid"] == md5hex(files[some_key]) and f["size"] == len(files[some_key]), case,
               {"why": "single-file round trip", "impl": str(f)[:200]})
    if second is not None:
        (k4, outs), want2, changed = second
        ctx.count("second_round_after_same_size_replacement")
        ctx.oracle(k4 == "ok" and outs[0] == want2 and outs[1] == want2, case,
                   {"why": "a second round trip after one file was replaced (same size, same timestamps, new inode) does not reproduce the current data",
                    "replaced": changed, "impl": str(outs)[:200] if k4 != "ok" else
                    {"object_level_differs": sorted(k for k in want2 if outs[0].get(k) != want2[k]), "index_level_differs": sorted(k for k in want2 if outs[1].get(k) != want2[k])}})
    if len(ctx.samples) < 2:
        ctx.sample({"case": case, "oid": o.get("oid") if k1 == "ok" else None})


def _snapshot(path):
    """{relative path: bytes} of a directory, {"": bytes} of a single file, {} when the path is gone"""
    if os.path.isdir(path):
        return walk_files(path)
    if os.path.isfile(path):
        with open(path, "rb") as fh:
            return {"": fh.read()}
    return {}


def _short(d):
    return {k: (v.hex() if len(v) < 24 else "len:%d md5:%s" % (len(v), md5hex(v)[:8])) for k, v in d.items()}


from .util import list_store  # noqa: E402


def run_interleaved(ctx, rng):
    """Several paths staged for ONE store before any of them is transferred (what `dvc add a b c` / a repro of several
    outputs does: stage everything, then move the data).  The staged paths share file contents.  Between the stagings and
    the transfers some of the staged paths - scratch directories that may never be stored - are edited in place, lose
    files or disappear; optionally they are staged again in their new shape.  Every staged object whose source path was
    not touched since it was staged must still round trip exactly: what one staging refers to is that staging's business
    and is not to be redirected by a later staging for the same store."""
    from dvc_data.hashfile import load
    from dvc_data.hashfile.build import build
    from dvc_data.hashfile.checkout import checkout
    from dvc_data.hashfile.meta import Meta
    from dvc_data.hashfile.state import State
    from dvc_data.hashfile.transfer import transfer
    from dvc_data.hashfile.tree import Tree
    from dvc_data.index import DataIndex, DataIndexEntry
    from dvc_data.index.checkout import apply, compare
    from dvc_data.index.index import ObjectStorage

    import shutil

    from .util import bump_mtime, write_file

    fs = stores.fs_local()
    root = ctx.mkdtemp()
    local = rng.random() < 0.5
    link = rng.choice(["copy", "hardlink", "symlink"])
    use_state = rng.random() < 0.5
    st = State(root_dir=root, tmp_dir=os.path.join(root, "tmp")) if use_state else None
    cfg = {"state": st} if st else {}
    odb = stores.make_odb(os.path.join(root, "odb"), local=local, type=[link], **cfg)

    # ---- the staged paths: directories (and now and then a single file) with contents drawn from a common pool
    shared = [bytes(rng.choice(b"sharedSHARED-\n") for _ in range(rng.randrange(1, 40))) for _ in range(rng.randrange(1, 4))]
    ntargets = rng.choice([2, 2, 3, 4])
    targets = []
    for i in range(ntargets):
        p = os.path.join(root, "ws%d" % i)
        if rng.random() < 0.15:
            data = {(): rng.choice(shared)}
            write_file(p, data[()])
        else:
            data = gen.rand_tree(rng, max_files=rng.choice([1, 3, 5]), max_depth=rng.choice([0, 1, 3]))
            ks = sorted(data)
            for k in rng.sample(ks, rng.randrange(1, min(3, len(ks)) + 1)):
                if rng.random() < 0.85:
                    data[k] = rng.choice(shared)
            gen.materialize(p, data, rng)
        targets.append({"path": p, "isdir": () not in data, "want": {"/".join(k): v for k, v in data.items()}, "touched": False, "how": []})

    def stage(t):
        staging, meta, obj = build(odb, t["path"], fs, "md5")
        t.setdefault("first", dict(t["want"]))
        t["staged"] = {"staging": staging, "obj": obj, "nfiles": meta.nfiles, "size": meta.size, "want": dict(t["want"]),
                       "built": sorted(("/".join(k), h.value) for k, _, h in obj) if t["isdir"] else [("", obj.hash_info.value)]}

    def disturb(t):
        """edit the staged path behind the library's back; t['want'] follows the workspace"""
        t["touched"] = True
        if rng.random() < 0.15:
            t["how"].append("removed")
            if t["isdir"]:
                shutil.rmtree(t["path"])
            else:
                os.remove(t["path"])
            t["want"] = {}
            return
        for rel in sorted(t["want"]):
            r = rng.random()
            fp = os.path.join(t["path"], *rel.split("/")) if rel else t["path"]
            old = t["want"][rel]
            if r < 0.55:
                new = bytes((b + 1) % 256 for b in old) if (old and rng.random() < 0.7) else old + b"+edited"
                with open(fp, "r+b") as fh:  # in place: same inode
                    fh.truncate(0)
                    fh.write(new)
                bump_mtime(fp)
                t["want"][rel] = new
                t["how"].append("edit:" + ("same-size" if len(new) == len(old) else "grown"))
            elif r < 0.7 and rel:
                os.remove(fp)
                del t["want"][rel]
                t["how"].append("unlink")
        if rng.random() < 0.3 and t["isdir"]:
            extra = rng.choice(shared)
            write_file(os.path.join(t["path"], "added-later"), extra)
            t["want"]["added-later"] = extra
            t["how"].append("new-file")

    def body():
        order = list(range(ntargets))
        rng.shuffle(order)
        for i in order:
            stage(targets[i])
        # at least one staged path stays as it was, at least one is disturbed
        k = rng.randrange(1, ntargets)
        victims = rng.sample(range(ntargets), k)
        for i in victims:
            disturb(targets[i])
        restaged = []
        if rng.random() < 0.4:
            for i in victims:
                if targets[i]["want"]:
                    stage(targets[i])
                    targets[i]["touched"] = False
                    restaged.append(i)
        # ---- now move the data: every staging whose source is as it was staged, in any order
        todo = [i for i in range(ntargets) if not targets[i]["touched"]]
        rng.shuffle(todo)
        res = {}
        for i in todo:
            t = targets[i]
            s = t["staged"]

            def one():
                r = transfer(s["staging"], odb, {s["obj"].hash_info}, shallow=False)
                obj = load(odb, s["obj"].hash_info)
                loaded = sorted(("/".join(k), h.value) for k, _, h in Tree.load(odb, s["obj"].hash_info)) if t["isdir"] else [("", obj.hash_info.value)]
                out = os.path.join(root, "out-obj-%d" % i)
                checkout(out, fs, obj, odb, force=True, state=st)
                idx = DataIndex({("t",): DataIndexEntry(key=("t",), meta=Meta(isdir=t["isdir"]), hash_info=s["obj"].hash_info)})
                idx.storage_map.add_cache(ObjectStorage((), odb))
                out2 = os.path.join(root, "out-idx-%d" % i)
                os.makedirs(out2)
                errs = []
                apply(compare(None, idx), out2, fs, update_meta=False, onerror=lambda *a: errs.append(str(a[1])), state=st)
                return {"failed": len(r.failed), "loaded": loaded, "out": _snapshot(out), "out_idx": _snapshot(os.path.join(out2, "t")), "errors": errs,
                        "source_now": _snapshot(t["path"])}

            res[i] = safe_call(one)
        return order, victims, restaged, todo, res

    try:
        kind, val = safe_call(body)
    finally:
        if st:
            st.close()
    case = {"scenario": "interleaved-stagings", "local": local, "link": link, "state": use_state,
            "targets": [{"dir": t["isdir"], "staged": _short(t.get("first", {})), "edits": t["how"]} for t in targets]}
    if kind != "ok":
        ctx.case(case)
        ctx.oracle(False, case, {"why": "staging several paths for one store raised", "impl": val})
        return
    order, victims, restaged, todo, res = val
    case.update({"stage_order": order, "disturbed": sorted(victims), "restaged": sorted(restaged), "transfer_order": todo})
    # non-trivial: a content of a path that is moved also occurs in a path that was disturbed
    disturbed_contents = set()
    for i in victims:
        disturbed_contents.update(md5hex(b) for b in targets[i]["first"].values())
    cross = any(md5hex(b) in disturbed_contents for i in todo if i not in victims for b in targets[i]["staged"]["want"].values())
    ctx.case(case, nontrivial=cross)
    ctx.count("interleaved_stagings")
    ctx.count("interleaved: targets=%d content_shared_with_disturbed=%s restaged=%s" % (ntargets, cross, bool(restaged)))
    # ---- correspondence with Staging.transferStaged (one reference table per build() call): the file objects the store holds
    def _abs(t, rel):
        return os.path.join(t["path"], *rel.split("/")) if rel else t["path"]

    fs_now = [[_abs(t, rel), b.hex()] for t in targets for rel, b in sorted(t["want"].items())]
    steps = [{"staged": [[_abs(targets[i], rel), b.hex()] for rel, b in sorted(targets[i]["staged"]["want"].items())],
              "oids": [h for _, h in targets[i]["staged"]["built"]]} for i in todo if res[i][0] == "ok"]
    if steps and all(res[i][0] == "ok" for i in todo):
        ans = ctx.driver.ask({"op": "staging", "fs_now": fs_now, "transfers": steps})
        have = sorted([o, v[0]] for o, v in list_store(odb.path).items() if not o.endswith(".dir"))
        ctx.corr("Staging.transferStaged~build()+transfer() (file objects in the store)", case, have, sorted(ans.get("store", [])))
    for i in todo:
        t = targets[i]
        s = t["staged"]
        want = s["want"]
        k, r = res[i]
        who = {"target": i, "staged_position": order.index(i), "restaged": i in restaged}
        if k != "ok":
            ctx.oracle(False, case, {"why": "round trip of a staged path raised although that path was not touched after it was staged", **who, "impl": r})
            continue
        if r["source_now"] != want:  # harness self-check: the premise of the oracle
            ctx.oracle(False, case, {"why": "HARNESS: the source of an undisturbed staging changed", **who})
            continue
        exp_entries = sorted((rel, md5hex(b)) for rel, b in want.items()) if t["isdir"] else [("", md5hex(want[""]))]
        ctx.oracle(r["failed"] == 0 and r["out"] == want, case,
                   {"why": "object-level round trip of a path staged alongside others for the same store does not reproduce the data (the path itself was not touched after staging)",
                    **who, "failed": r["failed"], "missing": sorted(set(want) - set(r["out"])), "extra": sorted(set(r["out"]) - set(want)),
                    "different": sorted(x for x in want if x in r["out"] and r["out"][x] != want[x])})
        ctx.oracle(r["out_idx"] == want and not r["errors"], case,
                   {"why": "index-level round trip of a path staged alongside others for the same store does not reproduce the data", **who, "errors": r["errors"][:3],
                    "missing": sorted(set(want) - set(r["out_idx"])), "extra": sorted(set(r["out_idx"]) - set(want)),
                    "different": sorted(x for x in want if x in r["out_idx"] and r["out_idx"][x] != want[x])})
        ctx.oracle(s["built"] == exp_entries and r["loaded"] == exp_entries, case,
                   {"why": "built or reloaded listing differs from the data (interleaved stagings)", **who, "built": s["built"][:4], "loaded": r["loaded"][:4]})
        ctx.oracle(s["nfiles"] == len(want) if t["isdir"] else s["nfiles"] in (None, 1), case,
                   {"why": "file count does not match the data (interleaved stagings)", **who, "nfiles": s["nfiles"]})
        ctx.oracle(s["size"] == sum(len(b) for b in want.values()), case, {"why": "total size does not match the data (interleaved stagings)", **who, "size": s["size"]})


ARRIVALS = ("full", "shallow", "interrupted", "sibling", "never")
DECAYS = ("none", "damaged_checked", "files_deleted", "dir_object_deleted")


def run_store_with_past(ctx, rng):
    """The round trip into a store that is NOT fresh: the directory (or part of it) reached the store earlier and the
    store has lived since.  How it arrived: a full transfer; a transfer with the default shallow=True; a full transfer
    whose uploads failed for some files; only a sibling directory sharing some contents was stored; not at all.  What
    happened afterwards: nothing; some file objects rotted and the fsck-style `odb.check()` removed them; some file
    objects were deleted (`odb.delete`, what a partial clean-up does); the directory object itself was deleted.  Then
    the user stages the very same, untouched directory (again, or reuses the first staging) and transfers it with
    shallow=False - 'staging it, transferring the staged objects into a store' - and checks it out both ways.  The
    property does not care what the store looked like before: the round trip must reproduce the data."""
    from dvc_objects.errors import ObjectFormatError

    from dvc_data.hashfile import load
    from dvc_data.hashfile.build import build
    from dvc_data.hashfile.checkout import checkout
    from dvc_data.hashfile.meta import Meta
    from dvc_data.hashfile.state import State
    from dvc_data.hashfile.transfer import transfer
    from dvc_data.hashfile.tree import Tree
    from dvc_data.index import DataIndex, DataIndexEntry
    from dvc_data.index.checkout import apply, compare
    from dvc_data.index.index import ObjectStorage

    from .util import bump_mtime

    fs = stores.fs_local()
    root = ctx.mkdtemp()
    files = gen.rand_tree(rng, max_files=rng.choice([2, 3, 6]), max_depth=rng.choice([0, 2, 3]))
    ws = os.path.join(root, "src")
    gen.materialize(ws, files, rng)
    local = rng.random() < 0.5
    link = rng.choice(["copy", "hardlink", "symlink"])
    use_state = rng.random() < 0.5
    st = State(root_dir=root, tmp_dir=os.path.join(root, "tmp")) if use_state else None
    cfg = {"state": st} if st else {}
    odb = stores.make_odb(os.path.join(root, "odb"), local=local, type=[link], **cfg)
    want = {"/".join(k): v for k, v in files.items()}
    file_oids = sorted(set(md5hex(v) for v in files.values()))
    arrival = rng.choices(ARRIVALS, weights=[8, 4, 3, 3, 1])[0]
    # (only a store that got file objects can lose them: the decays that eat files go mostly with the full arrival)
    decay = rng.choices(DECAYS, weights=[1, 4, 4, 1] if arrival == "full" else [3, 1, 1, 1])[0]
    restage = rng.random() < 0.5
    nvict = rng.randrange(1, len(file_oids) + 1)
    case = {"scenario": "store-with-a-past", "tree": _short(want), "local": local, "link": link, "state": use_state,
            "arrival": arrival, "decay": decay, "staged_again": restage}
    notes = []

    def body():
        staging, meta, obj = build(odb, ws, fs, "md5")
        hi = obj.hash_info
        # ---- how the directory first reached the store
        if arrival == "full":
            transfer(staging, odb, {hi}, shallow=False)
        elif arrival == "shallow":
            transfer(staging, odb, {hi})  # the defaults
        elif arrival == "interrupted":
            failing = set(rng.sample(file_oids, nvict))
            with stores.Faults(odb, failing).active():
                r0 = transfer(staging, odb, {hi}, shallow=False)
            notes.append("first transfer reported %d failed" % len(r0.failed))
        elif arrival == "sibling":
            sib = os.path.join(root, "sibling")
            keep = rng.sample(sorted(files), rng.randrange(1, len(files) + 1))
            sfiles = {k: files[k] for k in keep}
            sfiles[("only-in-sibling",)] = b"sibling " + bytes(rng.randrange(256) for _ in range(6))
            gen.materialize(sib, sfiles, rng)
            s_staging, _, s_obj = build(odb, sib, fs, "md5")
            transfer(s_staging, odb, {s_obj.hash_info}, shallow=False)
        # ---- what happened to the store since
        present = [o for o in file_oids if o in set(stores.listing_of(odb.path))]
        victims = rng.sample(present, min(nvict, len(present)))
        if decay == "damaged_checked":
            for oid in victims:
                p = odb.oid_to_path(oid)
                old = stores.read_obj(odb.path, oid)
                os.chmod(p, 0o644)
                os.remove(p)
                with open(p, "wb") as fh:  # another size, another inode, a later mtime: no cache can vouch for it
                    fh.write(old[: len(old) // 2] + b"\x00bit rot\x00" + old[len(old) // 2:])
                bump_mtime(p)
                try:
                    odb.check(oid, check_hash=True)
                    notes.append("check() accepted the damaged object " + oid)
                except ObjectFormatError:
                    pass
        elif decay == "files_deleted":
            for oid in victims:
                odb.delete(oid)
        elif decay == "dir_object_deleted":
            if hi.value in stores.listing_of(odb.path):
                odb.delete(hi.value)
        before = stores.listing_of(odb.path)
        damaged_left = stores.intact_violations(odb.path)
        # ---- the round trip proper
        if restage:
            staging, meta, obj = build(odb, ws, fs, "md5")
        r = transfer(staging, odb, {obj.hash_info}, shallow=False)
        loaded = Tree.load(odb, obj.hash_info)
        out = os.path.join(root, "out-obj")
        k_co, v_co = safe_call(lambda: checkout(out, fs, load(odb, obj.hash_info), odb, force=True, state=st))
        idx = DataIndex({("t",): DataIndexEntry(key=("t",), meta=Meta(isdir=True), hash_info=obj.hash_info)})
        idx.storage_map.add_cache(ObjectStorage((), odb))
        out2 = os.path.join(root, "out-idx")
        os.makedirs(out2)
        errs = []
        k_ap, v_ap = safe_call(lambda: apply(compare(None, idx), out2, fs, update_meta=False, onerror=lambda *a: errs.append(str(a[1])), state=st))
        return {"oid": obj.oid, "first_oid": hi.value, "before": before, "damaged_left": damaged_left, "failed": len(r.failed),
                "built": sorted(("/".join(k), h.value) for k, _, h in obj), "loaded": sorted(("/".join(k), h.value) for k, _, h in loaded),
                "nfiles": meta.nfiles, "size": meta.size, "checkout": v_co if k_co != "ok" else None, "apply": v_ap if k_ap != "ok" else None,
                "out": walk_files(out), "out_idx": _snapshot(os.path.join(out2, "t")), "errors": errs,
                "store": list_store(odb.path), "source_now": walk_files(ws)}

    try:
        kind, o = safe_call(body)
    finally:
        if st:
            st.close()
    if notes:
        case["notes"] = notes
    if kind != "ok":
        ctx.case(case)
        ctx.count("store_with_past")
        ctx.oracle(False, case, {"why": "round trip into a store with a past raised", "impl": o})
        return
    dir_there = o["first_oid"] in o["before"]
    lacking = [x for x in file_oids if x not in o["before"]]
    case["store_before"] = {"dir_object": dir_there, "files_lacking": len(lacking), "files": len(file_oids)}
    # non-trivial: the store was neither fresh nor complete when the round trip started
    ctx.case(case, nontrivial=bool(o["before"]) and (bool(lacking) or not dir_there))
    ctx.count("store_with_past")
    ctx.count("past: arrival=%s decay=%s" % (arrival, decay))
    ctx.count("past: before the round trip dir_object=%s files_lacking=%s" % (dir_there, "none" if not lacking else "all" if len(lacking) == len(file_oids) else "some"))
    if o["source_now"] != want or o["damaged_left"]:  # harness self-checks: the premises of the oracles below
        ctx.oracle(False, case, {"why": "HARNESS: the source changed, or a damaged object survived check() in the prepared store", "damaged": o["damaged_left"], "notes": notes})
        return
    exp_entries = sorted(("/".join(k), md5hex(v)) for k, v in files.items())
    ctx.oracle(o["failed"] == 0 and o["checkout"] is None and o["out"] == want, case,
               {"why": "object-level round trip into a store that held part of the data before does not reproduce the data",
                "failed": o["failed"], "checkout": o["checkout"], "missing": sorted(set(want) - set(o["out"])), "extra": sorted(set(o["out"]) - set(want)),
                "different": sorted(k for k in want if k in o["out"] and o["out"][k] != want[k])})
    ctx.oracle(o["apply"] is None and o["out_idx"] == want and not o["errors"], case,
               {"why": "index-level round trip (compare/apply) out of a store that held part of the data before does not reproduce the data",
                "apply": o["apply"], "errors": o["errors"][:3], "missing": sorted(set(want) - set(o["out_idx"])), "extra": sorted(set(o["out_idx"]) - set(want)),
                "different": sorted(k for k in want if k in o["out_idx"] and o["out_idx"][k] != want[k])})
    ctx.oracle(o["oid"] == o["first_oid"] and o["built"] == exp_entries and o["loaded"] == exp_entries, case,
               {"why": "built or reloaded listing differs from the data (store with a past)", "built": o["built"][:4], "loaded": o["loaded"][:4]})
    ctx.oracle(o["nfiles"] == len(files) and o["size"] == sum(len(v) for v in files.values()), case,
               {"why": "file count / total size do not match the data (store with a past)", "nfiles": o["nfiles"], "size": o["size"]})
    held = {x: v[0] for x, v in o["store"].items()}
    ctx.oracle(all(held.get(x) == x for x in file_oids) and held.get(o["oid"]) == o["oid"].split(".")[0], case,
               {"why": "after the transfer the store does not hold every object of the directory under its own name",
                "absent": sorted(x for x in file_oids + [o["oid"]] if x not in held), "foreign_bytes": sorted(x for x in file_oids if x in held and held[x] != x)})


WS_STATES = ("absent", "empty", "unrelated_files")


def run_tracked_workspace(ctx, rng):
    """The index-level checkout the way an application that tracks a workspace does it.  The index describes several
    outputs (directories, now and then a single file; at top level or below common parents; sharing contents) by their
    object ids only; the data was staged and transferred into a store before.  Where the data may come from is what the
    index's storage map says: the object store, as `cache` or as `remote` (apply(storage=...)), and - the new dimension -
    the workspace that is being populated, as `data` FileStorage: registered by the application up front (rooted at the
    workspace or one storage per output), or registered by apply() itself (update_meta=True, the default) after the first
    call.  The outputs are checked out in one call or in two calls on the same index (the second batch is added to the
    index after the first apply()).  The workspace is fresh as far as the outputs go: it does not exist, is empty, or
    holds unrelated files only.  None of this is the property's business: after every call each output that the index
    held at that call must be there with exactly its relative paths and bytes, and nothing may be reported as failed."""
    from dvc_data.hashfile.build import build
    from dvc_data.hashfile.meta import Meta
    from dvc_data.hashfile.state import State
    from dvc_data.hashfile.transfer import transfer
    from dvc_data.index import DataIndex, DataIndexEntry, FileStorage
    from dvc_data.index.checkout import apply, compare
    from dvc_data.index.index import ObjectStorage

    from .util import write_file

    fs = stores.fs_local()
    root = ctx.mkdtemp()
    local = rng.random() < 0.5
    link = rng.choice(["copy", "copy", "hardlink", "symlink"])
    use_state = rng.random() < 0.4
    st = State(root_dir=root, tmp_dir=os.path.join(root, "tmp")) if use_state else None
    cfg = {"state": st} if st else {}
    odb = stores.make_odb(os.path.join(root, "odb"), local=local, type=[link], **cfg)
    role = rng.choice(["cache", "cache", "remote"])
    data_storage = rng.choice(["none", "workspace_root", "per_output"])
    update_meta = rng.random() < 0.6
    ws_state = rng.choice(WS_STATES)
    nout = rng.choice([1, 2, 2, 3])
    two_calls = nout >= 2 and rng.random() < 0.6

    # ---- the outputs: where they live in the workspace (no key is a prefix of another) and what they hold
    shared = [bytes(rng.choice(b"trackedTRACKED \n") for _ in range(rng.randrange(1, 30))) for _ in range(2)]
    parents = [(), (), ("nest",), ("nest", "deeper"), ("other dir",)]
    outs = []
    for i in range(nout):
        key = rng.choice(parents) + ("out%d" % i,)
        src = os.path.join(root, "src%d" % i)
        if rng.random() < 0.2:
            data = {(): rng.choice(shared + [b"", b"single file\r\n"])}
            write_file(src, data[()])
        else:
            data = gen.rand_tree(rng, max_files=rng.choice([1, 2, 4]), max_depth=rng.choice([0, 1, 3]))
            if rng.random() < 0.5:
                data[rng.choice(sorted(data))] = rng.choice(shared)
            gen.materialize(src, data, rng)
        outs.append({"key": key, "src": src, "isdir": () not in data, "want": {"/".join(k): v for k, v in data.items()}})
    first = list(range(nout))
    rng.shuffle(first)
    batches = [first[: rng.randrange(1, nout)], []] if two_calls else [first]
    if two_calls:
        batches[1] = [i for i in first if i not in batches[0]]
    ws = os.path.join(root, "workspace")
    unrelated = {}
    if ws_state == "empty":
        os.makedirs(ws)
    elif ws_state == "unrelated_files":
        unrelated = {"README": b"not tracked\n", "nest/notes.txt": b"nor is this\n"}
        for rel, b in unrelated.items():
            write_file(os.path.join(ws, *rel.split("/")), b)
    case = {"scenario": "tracked-workspace", "local": local, "link": link, "state": use_state, "store_role": role, "data_storage": data_storage,
            "update_meta": update_meta, "workspace": ws_state, "calls": [[list(outs[i]["key"]) for i in b] for b in batches],
            "outputs": [{"key": list(o["key"]), "dir": o["isdir"], "data": _short(o["want"])} for o in outs]}

    def body():
        for o in outs:
            staging, _, obj = build(odb, o["src"], fs, "md5")
            r = transfer(staging, odb, {obj.hash_info}, shallow=False)
            assert not r.failed
            o["hash_info"] = obj.hash_info
        idx = DataIndex()
        getattr(idx.storage_map, "add_" + role)(ObjectStorage((), odb))
        if data_storage == "workspace_root":
            idx.storage_map.add_data(FileStorage((), fs, ws))
        seen = []
        res = []
        for batch in batches:
            for i in batch:
                o = outs[i]
                idx.add(DataIndexEntry(key=o["key"], meta=Meta(isdir=o["isdir"]), hash_info=o["hash_info"]))
                if data_storage == "per_output":
                    idx.storage_map.add_data(FileStorage(o["key"], fs, os.path.join(ws, *o["key"])))
            seen += batch
            errs = []
            # was the workspace known to the index as a place to load directories from when this call started?
            data_known = all(idx.storage_map[outs[i]["key"]].data is not None for i in batch)
            k, v = safe_call(lambda: apply(compare(None, idx), ws, fs, update_meta=update_meta, storage=role,
                                           onerror=lambda *a: errs.append("%s: %s" % (os.path.relpath(a[1], ws), a[2])), state=st))
            res.append({"raised": v if k != "ok" else None, "errors": errs, "data_known": data_known,
                        "got": {i: _snapshot(os.path.join(ws, *outs[i]["key"])) for i in seen}})
        return res, {i: _snapshot(outs[i]["src"]) for i in range(nout)}, stores.intact_violations(odb.path)

    try:
        kind, val = safe_call(body)
    finally:
        if st:
            st.close()
    ctx.count("tracked_workspace")
    if kind != "ok":
        ctx.case(case)
        ctx.oracle(False, case, {"why": "preparing / driving the tracked-workspace checkout raised", "impl": val})
        return
    res, src_now, damaged = val
    # non-trivial: a directory that was not in the workspace had to be loaded while the index knew the workspace as `data`
    nontrivial = any(r["data_known"] and any(outs[i]["isdir"] for i in b) for r, b in zip(res, batches))
    ctx.case(case, nontrivial=nontrivial)
    ctx.count("tracked: data_storage=%s update_meta=%s calls=%d store_role=%s" % (data_storage, update_meta, len(batches), role))
    ctx.count("tracked: workspace=%s" % ws_state)
    ctx.count("tracked: workspace known as data when a directory had to be loaded=%s" % nontrivial)
    if any(src_now[i] != outs[i]["want"] for i in range(nout)) or damaged:  # harness self-check: the premises of the oracle
        ctx.oracle(False, case, {"why": "HARNESS: a source changed or the store is damaged after the checkouts", "damaged": damaged})
        return
    seen = []
    for n, (r, batch) in enumerate(zip(res, batches)):
        seen += batch
        who = {"call": n + 1, "of": len(batches), "workspace_known_as_data": r["data_known"]}
        ctx.oracle(r["raised"] is None and not r["errors"], case,
                   {"why": "index-level checkout into a tracked workspace raised or reported failures although the store holds everything", **who,
                    "raised": r["raised"], "errors": r["errors"][:4]})
        for i in seen:
            want, got = outs[i]["want"], r["got"][i]
            ctx.oracle(got == want, case,
                       {"why": "index-level round trip into a tracked workspace (data FileStorage + object store) does not reproduce the data", **who,
                        "output": list(outs[i]["key"]), "added_in_call": 1 if i in batches[0] else 2,
                        "missing": sorted(set(want) - set(got)), "extra": sorted(set(got) - set(want)),
                        "different": sorted(x for x in want if x in got and got[x] != want[x])})


def run(ctx):
    ctx.rule = (
        "directory trees of 1-9 files at depth 0-4 with odd names (non-ASCII, spaces, quotes, backslash, newline, leading dots, "
        "'x.dir'), duplicate contents, empty files, NUL bytes, CRLF text; both store classes x copy/hardlink/symlink x with/without "
        "state; each through (1) build -> transfer -> Tree.load -> object checkout, (2) index build -> md5 -> save -> compare/apply, "
        "(3) a single file, (4) a second round after a same-size, same-timestamp replacement of one file. non-trivial = at least two files; distinct = sha256 of the case. "
        "Plus interleaved stagings (histogram key interleaved_stagings): 2-4 paths (directories, now and then a single file) that share file "
        "contents are all staged for ONE store before anything is transferred; 1..n-1 of them are then edited in place (same size / grown), "
        "lose files, gain a file or are removed, and optionally staged again; every staging whose source was not touched since it was staged "
        "is transferred in a random order and must round trip exactly (object checkout and index compare/apply, listing, count, size); "
        "non-trivial there = a moved path shares a content with a disturbed one. "
        "Plus stores with a past (histogram key store_with_past): the round trip of an untouched directory of 1-6 files into a store that the "
        "directory reached before - by a full transfer, a default shallow=True transfer, a full transfer with failed uploads for 1..n files, "
        "only through a sibling directory sharing contents, or never - and that has since lost 1..n file objects to bit rot + odb.check(), "
        "lost them to odb.delete(), lost the directory object, or nothing; staged again or from the first staging, transfer(shallow=False), "
        "object checkout and index compare/apply into fresh locations must reproduce the data, the listing reloads as built, count/size match, "
        "and the store ends up holding every object of the directory under its own name; non-trivial there = the store was neither empty nor complete. "
        "Plus tracked workspaces (histogram key tracked_workspace): 1-3 outputs (directories of 1-4 files, now and then a single file, at top level or "
        "below common parents, sharing contents) staged and transferred into one store, then checked out by compare/apply from an index that knows "
        "them by object id only and whose storage map names the store as cache or as remote (apply(storage=..)) and the workspace being populated as "
        "`data` FileStorage - not at all, rooted at the workspace, or one per output - with update_meta on (apply registers the workspace as data "
        "itself) or off; in one call or in two calls on the same index (the second batch of outputs added after the first apply); the workspace "
        "absent, empty or holding unrelated files; after every call every output the index held must be there with exactly its paths and bytes and "
        "nothing reported failed; non-trivial there = a directory not yet in the workspace had to be loaded while the index knew the workspace as data"
    )
    ctx.assumptions = ["paths are absolute and normalised (the slicing in _build_tree relies on it)", "empty directories are not tracked"]
    for _ in range(ctx.n(110, 1200)):
        run_case(ctx, ctx.rng)
    for _ in range(ctx.n(40, 400)):
        run_interleaved(ctx, ctx.rng)
    for _ in range(ctx.n(60, 600)):
        run_store_with_past(ctx, ctx.rng)
    for _ in range(ctx.n(40, 500)):
        run_tracked_workspace(ctx, ctx.rng)


def search(ctx):
    for _ in range(1000):
        run_case(ctx, ctx.rng)
    for _ in range(400):
        run_interleaved(ctx, ctx.rng)
    for _ in range(400):
        run_store_with_past(ctx, ctx.rng)
    for _ in range(400):
        run_tracked_workspace(ctx, ctx.rng)


def replay(ctx, payload):
    run(ctx)
