"""Transfer scenarios shared by C04 (closure), C11 (truthful result) and C12 (status / remote index)."""
import os

from . import stores
from .c06 import rebuild_universe
from .util import safe_call


def gen_scenario(rng, want_index=None, want_verify=None):
    uni = stores.Universe(rng, ntrees=rng.randrange(1, 5))
    files, trees = list(uni.files), list(uni.trees)
    # source: all trees, most files (a few missing on both sides), optional corrupt files (verify only)
    verify = (rng.random() < 0.3) if want_verify is None else want_verify
    src = list(trees) + [f for f in files if rng.random() < 0.9]
    corrupt = [f for f in files if f in src and rng.random() < 0.25] if verify and rng.random() < 0.7 else []
    src_local = rng.random() < 0.5
    if verify and not src_local and rng.random() < 0.4:
        # directory objects damaged in the source too (still parseable); only in a non-local source: a local one drops a
        # corrupt unprotected object in its own existence query, after the listing has already been read from it
        corrupt += [t for t in trees if rng.random() < 0.5]
    # destination: closed initial contents
    dest = set()
    for t in trees:
        if rng.random() < 0.2 and all(f in src for f in uni.listing(t)):
            dest.add(t)
            dest.update(uni.listing(t))
    for f in files:
        if rng.random() < 0.2:
            dest.add(f)
    pre = None
    index = (rng.random() < 0.5) if want_index is None else want_index
    if index and rng.random() < 0.5:
        # pre-history sharing the same remote index: a clean push, then objects vanish from the destination
        ptrees = [t for t in trees if rng.random() < 0.6]
        preq = list(ptrees)
        for t in ptrees:
            preq += [f for f in uni.listing(t) if f not in preq]
        pre = {"req": preq, "delete_dirs": [t for t in trees if rng.random() < 0.5],
               "delete_files": [f for f in files if rng.random() < 0.4]}
    # a directory pushed (and indexed) earlier, collected remotely together with its files since, and NOT part of this request,
    # while the request holds directories that may share files with it: the index must not vouch for the shared files
    skip_dir = None
    if pre and rng.random() < 0.6:
        gone = [t for t in pre["delete_dirs"] if t in pre["req"]]
        if gone and len(trees) > 1:
            skip_dir = rng.choice(gone)
            pre["delete_files"] = sorted(set(pre["delete_files"]) | set(uni.listing(skip_dir)))
    shallow = rng.random() < 0.6
    req_dirs = [t for t in trees if rng.random() < 0.85 and t != skip_dir] or [t for t in trees if t != skip_dir][:1] or [trees[0]]
    if pre and rng.random() < 0.25:
        req_dirs = []  # a request naming files only, after the remote lost objects the index still vouches for
    req = list(req_dirs)
    if shallow:
        for t in req_dirs:  # closed request: every directory together with its files
            for f in uni.listing(t):
                if f not in req:
                    req.append(f)
    for f in files:
        if rng.random() < (0.25 if req_dirs else 0.7) and f not in req:
            req.append(f)
    if not req:
        req.append(files[0])
    rng.shuffle(req)
    cand = sorted(uni.closure(req) - dest)
    fail = [o for o in cand if rng.random() < rng.choice([0.0, 0.2, 0.5])]
    # sometimes one failing file fails because its source object vanishes between the status query and the copy
    vanish = []
    if rng.random() < 0.3:
        vc = [o for o in fail if not o.endswith(".dir") and o in src and o not in corrupt]
        if vc:
            vanish = [rng.choice(vc)]
    sc = {
        "files": {k: v.decode() for k, v in uni.files.items()},
        "trees": {d: {"/".join(k): v for k, v in e.items()} for d, e in uni.trees.items()},
        "src": src, "corrupt": corrupt, "dest": sorted(dest), "req": req, "shallow": shallow, "fail": fail,
        "verify": verify, "index": index, "pre": pre, "dest_state": rng.random() < 0.4,
        "src_local": src_local, "dest_local": rng.random() < 0.5, "vanish": vanish,
        "src_algo": "md5-dos2unix" if rng.random() < 0.2 else "md5",
        # `obj_ids` is declared Iterable[HashInfo]: sets, lists, tuples and one-shot iterators / generators are all valid
        "req_form": rng.choice(["set", "set", "list", "tuple", "iter", "generator"]),
    }
    return sc, uni


def effective(sc):
    """what the model is told: source existence and failing objects after the documented readings"""
    src_eff = [o for o in sc["src"] if not (sc["src_local"] and o in sc["corrupt"])]
    fails = list(sc["fail"]) + [o for o in sc["corrupt"] if sc["verify"] and not sc["src_local"] and o not in sc["fail"]]
    return src_eff, fails


class Run:
    """one real transfer (plus an optional clean retry) with fault injection and per-event closure audit"""

    def __init__(self, ctx, sc, uni):
        self.sc, self.uni = sc, uni
        root = ctx.mkdtemp()
        # the source is sometimes a legacy (md5-dos2unix) store pushed to an md5 destination: names differ, values are shared
        self.src_algo = sc.get("src_algo", "md5")
        self.src = stores.make_odb(os.path.join(root, "src"), local=sc["src_local"], hash_name=self.src_algo)
        self.state = None
        cfg = {}
        if sc.get("dest_state"):
            from dvc_data.hashfile.state import State

            self.state = State(root_dir=root, tmp_dir=os.path.join(root, "state"))
            cfg["state"] = self.state
        self.dest = stores.make_odb(os.path.join(root, "dest"), local=sc["dest_local"], **cfg)
        stores.populate(self.src, uni, sc["src"], corrupt=sc["corrupt"])
        stores.populate(self.dest, uni, sc["dest"])
        self.idx = stores.new_index(os.path.join(root, "tmp")) if sc["index"] else None
        self.closure_bad = []
        self.pre_obs = None
        if sc.get("pre") and self.idx is not None:
            self._prehistory(sc["pre"])
        self.src_before = {o: stores.read_obj(self.src.path, o) for o in stores.listing_of(self.src.path)}
        self.dest_before = stores.listing_of(self.dest.path)
        self.index_before = stores.index_dump(self.idx)

    def _prehistory(self, pre):
        from dvc_data.hashfile.transfer import transfer

        bad = set(self.sc["corrupt"])
        # keep the pre-history request closed: a directory goes only together with all of its files
        req = {stores.hi(o, self.src_algo) for o in pre["req"]
               if o not in bad and not (o.endswith(".dir") and (bad & set(self.uni.listing(o))))}
        kind, res = safe_call(lambda: transfer(self.src, self.dest, req, dest_index=self.idx, shallow=True), expected=(FileNotFoundError,))
        present = stores.listing_of(self.dest.path)
        for d in pre["delete_dirs"]:
            if d in present:
                self._rm(d)
        present = stores.listing_of(self.dest.path)
        listed = set()
        for d in present:
            if d.endswith(".dir"):
                listed.update(self.uni.listing(d))
        for f in pre["delete_files"]:
            if f in present and f not in listed:
                self._rm(f)
        self.pre_obs = {"transfer": kind if kind != "ok" else "ok"}

    def _rm(self, oid):
        p = os.path.join(self.dest.path, oid[:2], oid[2:])
        os.chmod(p, 0o644)
        os.remove(p)

    def _audit(self, oid):
        bad = stores.closed_violations(self.dest.path)
        if bad:
            self.closure_bad.append({"after_upload_of": oid, "dangling": bad[:3]})

    def transfer(self, fail, verify=None, vanish=()):
        from dvc_data.hashfile.transfer import transfer

        sc = self.sc
        faults = stores.Faults(self.dest, fail, on_event=self._audit, vanish=vanish)
        ids = [stores.hi(o, self.src_algo) for o in sc["req"]]

        def f():
            form = sc.get("req_form", "set")
            req = {"set": set(ids), "list": ids, "tuple": tuple(ids), "iter": iter(ids), "generator": (h for h in ids)}[form]
            with faults.active():
                return transfer(self.src, self.dest, req, verify=sc["verify"] if verify is None else verify,
                                dest_index=self.idx, shallow=sc["shallow"])

        kind, res = safe_call(f, expected=(FileNotFoundError,))
        self._audit("<end>")
        obs = {"events": [list(e) for e in faults.events], "dir_order": faults.dir_order,
               "dest": stores.listing_of(self.dest.path), "index": stores.index_dump(self.idx)}
        if kind == "ok":
            obs["transferred"] = stores.vals(res.transferred)
            obs["failed"] = stores.vals(res.failed)
        else:
            obs["err"] = res
        return obs

    def close(self):
        if self.idx is not None:
            self.idx.close()
        if self.state is not None:
            self.state.close()


def model_req(sc, uni, dest, index, dir_order, fails=None, src=None):
    src_eff, f = effective(sc)
    return {"op": "transfer", "L": uni.L_json(), "src": sorted(src if src is not None else src_eff), "dest": sorted(dest),
            "req": sc["req"], "shallow": sc["shallow"], "fails": f if fails is None else fails,
            "index": index, "dir_order": dir_order}


def canon_model(ans):
    if "err" in ans:
        return {"err": ans["err"]}
    idx = ans.get("index")
    return {"transferred": sorted(ans["transferred"]), "failed": sorted(ans["failed"]), "dest": sorted(set(ans["dest"])),
            "index": None if idx is None else {"dirs": sorted(idx["dirs"]), "files": sorted(idx["files"])}}


def canon_impl(obs):
    if "err" in obs:
        return {"err": obs["err"]}
    return {"transferred": obs["transferred"], "failed": obs["failed"], "dest": obs["dest"], "index": obs["index"]}


def rebuild(sc):
    return rebuild_universe(sc)
