"""C12 — status is exact and the remote index never invents objects (status.py, db/index.py, transfer.py)."""
import os

from . import stores, xfer
from .util import md5hex, safe_call

_PADS = None


def pads():
    """>= 14 genuine objects whose md5 starts with '00' (make the base store pick the per-object strategy)"""
    global _PADS
    if _PADS is None:
        out, i = {}, 0
        while len(out) < 14:
            b = b"pad-%d" % i
            h = md5hex(b)
            if h.startswith("00"):
                out[h] = b
            i += 1
        _PADS = out
    return _PADS


def gen_query(rng):
    uni = stores.Universe(rng, ntrees=rng.randrange(1, 4))
    allo = uni.all_oids()
    store = [o for o in allo if rng.random() < 0.6]
    other = [o for o in allo if rng.random() < 0.6]
    req = [o for o in allo if rng.random() < 0.7]
    if len(req) < 2:
        req = allo[:2]
    req.append(md5hex(b"never-stored-%d" % rng.randrange(100)))
    rng.shuffle(req)
    return {
        "files": {k: v.decode() for k, v in uni.files.items()},
        "trees": {d: {"/".join(k): v for k, v in e.items()} for d, e in uni.trees.items()},
        "store": store, "other": other, "req": req, "shallow": rng.random() < 0.5,
        "local": rng.random() < 0.4, "pad": rng.random() < 0.5, "always_traverse": rng.random() < 0.3,
        "check_deleted": rng.random() < 0.5,
    }, uni


def check_query(ctx, q, uni):
    from dvc_data.hashfile.status import compare_status, status

    root = ctx.mkdtemp()
    odb = stores.make_odb(os.path.join(root, "a"), local=q["local"])
    oth = stores.make_odb(os.path.join(root, "b"), local=q["local"])
    stores.populate(odb, uni, q["store"])
    stores.populate(oth, uni, q["other"])
    if q["pad"]:
        for h, b in pads().items():
            stores.put_raw(odb.path, h, b)
    strategy = []
    if not q["local"]:
        if q["always_traverse"]:
            odb.fs._ALWAYS_TRAVERSE = True
        real_exists, real_trav = odb.list_oids_exists, odb._list_oids_traverse

        def le(*a, **k):
            strategy.append("exists")
            return real_exists(*a, **k)

        def lt(*a, **k):
            strategy.append("traverse")
            return real_trav(*a, **k)

        odb.list_oids_exists, odb._list_oids_traverse = le, lt
    req = [stores.hi(o) for o in q["req"]]
    try:
        k1, r1 = safe_call(lambda: status(odb, req, shallow=q["shallow"]), expected=(FileNotFoundError,))
        k2, r2 = safe_call(lambda: compare_status(odb, oth, req, check_deleted=q["check_deleted"], shallow=q["shallow"]), expected=(FileNotFoundError,))
    finally:
        if hasattr(odb.fs, "_ALWAYS_TRAVERSE"):
            try:
                del odb.fs._ALWAYS_TRAVERSE
            except AttributeError:
                pass
    case = dict(q)
    ctx.case(case, nontrivial=len(q["req"]) >= 2)
    for s in set(strategy) or {"local-check" if q["local"] else "none"}:
        ctx.count("lookup_strategy:" + s)
    ctx.count("shallow=%s" % q["shallow"])
    impl_s = {"exists": stores.vals(r1.exists), "missing": stores.vals(r1.missing)} if k1 == "ok" else {"err": r1}
    impl_c = ({"ok": stores.vals(r2.ok), "missing": stores.vals(r2.missing), "new": stores.vals(r2.new), "deleted": stores.vals(r2.deleted)}
              if k2 == "ok" else {"err": r2})
    store_now = sorted(set(q["store"]))
    L = uni.L_json()
    a1, a2 = ctx.driver.batch([
        {"op": "status", "L": L, "store": store_now, "cache": store_now, "req": q["req"], "shallow": q["shallow"], "index": None},
        {"op": "compare", "L": L, "src": store_now, "dest": sorted(set(q["other"])), "req": q["req"], "shallow": q["shallow"],
         "check_deleted": q["check_deleted"], "index": None},
    ])
    m1 = {"exists": sorted(a1["exists"]), "missing": sorted(a1["missing"])} if "err" not in a1 else a1
    m2 = {k: sorted(a2[k]) for k in ("ok", "missing", "new", "deleted")} if "err" not in a2 else a2
    ctx.corr("Status.status~status() (no index)", case, impl_s, m1)
    ctx.corr("Status.compareStatus~compare_status()", case, impl_c, m2)
    # oracle: plain set arithmetic on what is physically in the stores
    hashes = set(q["req"])
    loadable = True
    if not q["shallow"]:
        for d in q["req"]:
            if d.endswith(".dir"):
                if d in q["store"] and d in uni.trees:
                    hashes.update(uni.listing(d))
                else:
                    loadable = False
    if not loadable:
        ctx.oracle("err" in impl_s, case, {"why": "expanded status of an unloadable directory did not raise", "impl": impl_s})
        return
    st = set(q["store"])
    exp_s = {"exists": sorted(hashes & st), "missing": sorted(hashes - st)}
    ctx.oracle(impl_s == exp_s, case, {"why": "status disagrees with the store's contents", "impl": impl_s, "expected": exp_s, "strategy": strategy})
    if "err" not in impl_c:
        so = set(q["other"])
        if (hashes - so) or q["check_deleted"]:
            exp_c = {"ok": sorted(hashes & st & so), "missing": sorted(hashes - st - so), "new": sorted((hashes & st) - so), "deleted": sorted((hashes & so) - st)}
        else:
            exp_c = {"ok": sorted(hashes & so), "missing": [], "new": [], "deleted": []}
        ctx.oracle(impl_c == exp_c, case, {"why": "compare_status is not the four-way partition", "impl": impl_c, "expected": exp_c})
    ctx.sample({"query": {k: q[k] for k in ("req", "shallow", "store", "local", "pad")}, "status": impl_s, "strategy": sorted(set(strategy))})


def gen_history(rng):
    uni = stores.Universe(rng, nfiles=rng.randrange(3, 8), ntrees=rng.randrange(2, 5))
    trees, files = list(uni.trees), list(uni.files)
    steps = []
    for _ in range(rng.randrange(3, 9)):
        r = rng.random()
        if r < 0.45:
            ts = [t for t in trees if rng.random() < 0.6] or [rng.choice(trees)]
            shallow = rng.random() < 0.6
            req = list(ts)
            if shallow:
                for t in ts:
                    req += [f for f in uni.listing(t) if f not in req]
            req += [f for f in files if rng.random() < 0.15 and f not in req]
            cand = sorted(uni.closure(req))
            fail = [o for o in cand if rng.random() < rng.choice([0, 0, 0.3])]
            # some of the failing uploads fail because the source object (a file or a directory object) vanishes between
            # the status query and its copy (a concurrent collection of the local cache); it is back for the next step
            vanish = [o for o in fail if rng.random() < 0.4]
            steps.append({"op": "transfer", "req": req, "shallow": shallow, "fail": fail, "vanish": vanish, "handle": rng.randrange(2)})
        elif r < 0.6:
            steps.append({"op": "delete", "dirs": [t for t in trees if rng.random() < 0.4], "files": [f for f in files if rng.random() < 0.3],
                          "keep_closed": rng.random() < 0.5})
        elif r < 0.72:
            # another client writes into the remote behind this client's back (new fan-out directories appear)
            add = [f for f in files if rng.random() < 0.4]
            for t in trees:
                if rng.random() < 0.3:
                    add += [t] + [f for f in uni.listing(t) if f not in add]
            steps.append({"op": "external_add", "oids": add})
        else:
            req = [o for o in uni.all_oids() if rng.random() < 0.6] or trees[:1]
            # the listings are read from a local cache that holds everything, or - the default, and what push does - from the
            # queried store itself (where the listing of a directory that has vanished cannot be read any more)
            steps.append({"op": "status", "req": req, "shallow": rng.random() < 0.5, "handle": rng.randrange(2), "own_cache": rng.random() < 0.4})
    if rng.random() < 0.3:
        # a history around one directory: an early query through one handle, a push through the other, the directory
        # vanishes from the remote, a query through the first handle again
        t = rng.choice(trees)
        closed = [t] + list(uni.listing(t))
        a = rng.randrange(2)
        steps = steps[: rng.randrange(0, 3)] + [
            {"op": "status", "req": closed, "shallow": rng.random() < 0.5, "handle": a},
            {"op": "transfer", "req": closed, "shallow": True, "fail": [], "handle": 1 - a},
            {"op": "delete", "dirs": [t], "files": [f for f in uni.listing(t) if rng.random() < 0.5], "keep_closed": False},
            {"op": "status", "req": closed, "shallow": rng.random() < 0.5, "handle": a, "own_cache": rng.random() < 0.5},
            {"op": "status", "req": [f for f in uni.listing(t)][:2], "shallow": True, "handle": a, "own_cache": True},
        ]
    dest_local = rng.random() < 0.4
    if rng.random() < 0.2:
        # a history around one store handle: this client pushes one directory, another client then writes everything else
        # into the remote behind its back (fan-out directories this handle never created), and this client asks about everything
        t = rng.choice(trees)
        closed = [t] + list(uni.listing(t))
        rest = [o for o in uni.all_oids() if o not in closed]
        a = rng.randrange(2)
        steps = steps[: rng.randrange(0, 2)] + [
            {"op": "transfer", "req": closed, "shallow": True, "fail": [], "handle": a},
            {"op": "external_add", "oids": rest},
            {"op": "status", "req": uni.all_oids(), "shallow": rng.random() < 0.5, "handle": a, "own_cache": rng.random() < 0.5},
            {"op": "status", "req": rest[:3] or closed, "shallow": True, "handle": rng.randrange(2)},
        ]
        dest_local = rng.random() < 0.8
    return {
        "files": {k: v.decode() for k, v in uni.files.items()},
        "trees": {d: {"/".join(k): v for k, v in e.items()} for d, e in uni.trees.items()},
        "steps": steps, "dest_local": dest_local,
        # the persistent index is opened once, or twice (two Remote objects / two processes sharing one index directory):
        # each step then goes through the handle it names
        "handles": rng.choice([1, 1, 2]),
    }, uni


def check_history(ctx, h, uni):
    from dvc_data.hashfile.status import status
    from dvc_data.hashfile.transfer import transfer

    root = ctx.mkdtemp()
    src = stores.make_odb(os.path.join(root, "src"), local=False)
    dest = stores.make_odb(os.path.join(root, "dest"), local=h["dest_local"])
    stores.populate(src, uni, uni.all_oids())
    idxs = [stores.new_index(os.path.join(root, "tmp")) for _ in range(h.get("handles", 1))]
    idx = idxs[0]
    ever = set()
    L = uni.L_json()
    case = dict(h)
    ctx.case(case, nontrivial=len(h["steps"]) >= 3)
    reqs, work = [], []
    try:
        for n, st in enumerate(h["steps"]):
            before = stores.listing_of(dest.path)
            idx = idxs[st.get("handle", 0) % len(idxs)]
            idx_before = stores.index_dump(idx)
            ctx.count("step:" + st["op"])
            if st["op"] == "transfer":
                faults = stores.Faults(dest, st["fail"], on_event=lambda o: ever.add(o) if o in stores.listing_of(dest.path) else None,
                                       vanish=st.get("vanish", ()))

                def f():
                    with faults.active():
                        return transfer(src, dest, {stores.hi(o) for o in st["req"]}, dest_index=idx, shallow=st["shallow"])

                kind, res = safe_call(f, expected=(FileNotFoundError,))
                gone = [o for o in st.get("vanish", ()) if o not in stores.listing_of(src.path)]
                if gone:
                    ctx.count("step:transfer with a vanishing source object" + (" (directory object)" if any(o.endswith(".dir") for o in gone) else ""))
                    stores.populate(src, uni, gone)
                obs = {"dest": stores.listing_of(dest.path), "index": stores.index_dump(idx)}
                if kind == "ok":
                    obs.update(transferred=stores.vals(res.transferred), failed=stores.vals(res.failed))
                else:
                    obs = {"err": res}
                sc = {"req": st["req"], "shallow": st["shallow"], "fail": st["fail"], "corrupt": [], "verify": False, "src_local": False,
                      "src": uni.all_oids()}
                reqs.append(xfer.model_req(sc, uni, before, idx_before, faults.dir_order))
                work.append((n, "transfer", xfer.canon_impl(obs) if "err" not in obs else obs))
            elif st["op"] == "external_add":
                for o in st["oids"]:
                    if o not in stores.listing_of(dest.path):
                        stores.put_raw(dest.path, o, uni.data(o), mode=0o444 if h["dest_local"] else None)
            elif st["op"] == "delete":
                present = stores.listing_of(dest.path)
                for d in st["dirs"]:
                    if d in present:
                        _rm(dest.path, d)
                present = stores.listing_of(dest.path)
                listed = set()
                for d in present:
                    if d.endswith(".dir"):
                        listed.update(uni.listing(d))
                for fo in st["files"]:
                    if fo in present and not (st["keep_closed"] and fo in listed):
                        _rm(dest.path, fo)
            else:
                kind, res = safe_call(lambda: status(dest, [stores.hi(o) for o in st["req"]], index=idx,
                                                     cache_odb=None if st.get("own_cache") else src, shallow=st["shallow"]),
                                      expected=(FileNotFoundError,))
                if st.get("own_cache"):
                    ctx.count("step:status reading listings from the queried store itself")
                now = set(stores.listing_of(dest.path))
                if kind == "ok":
                    obs = {"exists": stores.vals(res.exists), "missing": stores.vals(res.missing), "index": stores.index_dump(idx)}
                    for o in obs["missing"]:
                        ctx.oracle(o not in now, case, {"why": "an object that is in the store at query time is reported as missing",
                                                        "step": n, "id": o})
                    for o in obs["exists"]:
                        # nothing is vouched for by the index alone: what is reported existing is in the store or is listed
                        # by a directory object that is in the store at query time
                        ctx.oracle(o in now or any(d in now and o in uni.listing(d) for d in uni.trees), case,
                                   {"why": "an identifier is reported as existing although it is neither in the store nor listed by a "
                                           "directory object that is in the store", "step": n, "id": o, "store": sorted(now)})
                        if o.endswith(".dir"):
                            ctx.oracle(o in now, case, {"why": "a directory object is reported as existing but is not in the store at query time",
                                                        "step": n, "dir": o, "store": sorted(now)})
                else:
                    obs = {"err": res}
                reqs.append({"op": "status", "L": L, "store": sorted(now), "cache": sorted(before) if st.get("own_cache") else uni.all_oids(),
                             "req": st["req"], "shallow": st["shallow"], "index": idx_before})
                work.append((n, "status", obs))
            now = set(stores.listing_of(dest.path))
            ever |= now
            # the index never invents objects
            dump = stores.index_dump(idx)
            for x in dump["dirs"] + dump["files"]:
                ok = x in ever or any(d in ever and x in uni.listing(d) for d in uni.trees)
                ctx.oracle(ok, case, {"why": "the remote index holds an identifier that was never delivered nor listed by a delivered directory",
                                      "step": n, "id": x, "ever_in_store": sorted(ever)})
            if st["op"] == "status" and st["req"] and kind == "ok":
                # the index is validated (and cleared when stale) by every query, whether or not it names a directory
                for d in dump["dirs"]:
                    ctx.oracle(d in now, case, {"why": "after a status query the index still holds a directory that is not in the store",
                                                "step": n, "dir": d})
    finally:
        for i in idxs:
            i.close()
    ctx.count("index_handles=%d" % len(idxs))
    for (n, kind, impl), ans in zip(work, ctx.driver.batch(reqs)):
        if kind == "transfer":
            model = xfer.canon_model(ans)
        elif "err" in ans:
            model = ans
        else:
            mi = ans["index"]
            model = {"exists": sorted(ans["exists"]), "missing": sorted(ans["missing"]),
                     "index": {"dirs": sorted(mi["dirs"]), "files": sorted(mi["files"])}}
        ctx.corr("history step %s~model" % kind, {"history": case, "step": n}, impl, model)


def _rm(path, oid):
    p = os.path.join(path, oid[:2], oid[2:])
    os.chmod(p, 0o644)
    os.remove(p)


def run_queries(ctx, n):
    for _ in range(n):
        q, uni = gen_query(ctx.rng)
        check_query(ctx, q, uni)


def run_histories(ctx, n):
    for _ in range(n):
        h, uni = gen_history(ctx.rng)
        check_history(ctx, h, uni)


def run(ctx):
    ctx.rule = (
        "queries of >=2 identifiers (files, directory objects, a never-stored id; shallow or expanded) against stores of both "
        "classes, padded in half of the cases with 14 genuine objects named 00.. so that the base store takes the per-object "
        "strategy as well as the traverse strategy (which one ran is recorded), _ALWAYS_TRAVERSE in 30%; compare_status with "
        "check_deleted on/off; histories of 3-8 steps {closed transfer with failing uploads, external deletion (closed or not), "
        "status query} sharing one real ObjectDBIndex. non-trivial = >=2 ids / >=3 steps; distinct = sha256 of the case"
    )
    ctx.assumptions = ["directory listings contain file identifiers only", "transfer requests of the histories are closed (C04's hypothesis)"]
    run_queries(ctx, ctx.n(200, 2500))
    run_histories(ctx, ctx.n(90, 1200))


def search(ctx):
    run_queries(ctx, 2000)
    run_histories(ctx, 1000)


def replay(ctx, payload):
    c = payload.get("case") or payload.get("diverging_case")
    if "history" in c:
        c = c["history"]
    uni = xfer.rebuild(c)
    if "steps" in c:
        check_history(ctx, c, uni)
    else:
        check_query(ctx, c, uni)
