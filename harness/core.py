"""Shared machinery of the dvc-data verification checks.

A check = (a) Lean build + audit of the property's theorems, (b) correspondence between the
executable Lean model (driver) and the real dvc_data from /repo's working tree, (c) an
implementation-side property oracle.  See DESIGN.md section 3.
"""
from __future__ import annotations

import hashlib
import json
import os
import random
import re
import shutil
import subprocess
import sys
import tempfile
import time
import traceback

VERIF = os.path.dirname(os.path.dirname(os.path.abspath(__file__)))
REPO = os.environ.get("DVC_DATA_REPO", "/repo")
LEAN = os.path.join(VERIF, "lean")
DRIVER = os.path.join(LEAN, ".lake", "build", "bin", "driver")

# always import dvc_data from /repo's *current working tree*
sys.path.insert(0, os.path.join(REPO, "src"))
os.environ.setdefault("PYTHONDONTWRITEBYTECODE", "1")
sys.dont_write_bytecode = True
import logging  # noqa: E402

logging.disable(logging.CRITICAL)  # the library logs every injected failure; keep the check's output to verdict lines

ALLOWED_AXIOMS = {"propext", "Classical.choice", "Quot.sound"}
FORBIDDEN = re.compile(
    r"\bsorry\b|\badmit\b|^\s*axiom\s|native_decide|bv_decide|implemented_by|\bunsafe\s|maxHeartbeats\s+0\b",
    re.M,
)

TRUSTED_BASE = [
    "Lean 4.33.0 kernel; axioms limited to propext, Classical.choice, Quot.sound (audited by #print axioms every run)",
    "hand-written Lean model (lean/DvcData/Model) tied to /repo by the correspondence check of this run",
    "Python harness: generators, canonicaliser, property oracle (harness/*.py); Lean driver JSON parser/printer (lean/Main.lean)",
    "CPython, dvc-objects, fsspec, pygtrie/sqltrie, dictdiffer, diskcache/SQLite, the local filesystem: exercised, not verified",
]


class Infra(Exception):
    """infrastructure failure: exit 2, never a violation"""


# --------------------------------------------------------------------------- Lean side


def lake_build(timeout=1500):
    t = time.time()
    p = subprocess.run(
        ["lake", "build"], cwd=LEAN, capture_output=True, text=True, timeout=timeout
    )
    return p.returncode == 0, (p.stdout + p.stderr)[-4000:], time.time() - t


def strip_comments(src: str) -> str:
    # remove /- ... -/ (nested not handled beyond one level, good enough for the grep) and -- ...
    out = re.sub(r"/-.*?-/", " ", src, flags=re.S)
    out = re.sub(r"--.*", " ", out)
    return out


def grep_forbidden():
    hits = []
    for root, _, files in os.walk(os.path.join(LEAN, "DvcData")):
        for f in files:
            if f.endswith(".lean"):
                p = os.path.join(root, f)
                src = strip_comments(open(p, encoding="utf-8").read())
                for m in FORBIDDEN.finditer(src):
                    hits.append(f"{os.path.relpath(p, LEAN)}: {m.group(0).strip()}")
    return hits


def registry():
    return json.load(open(os.path.join(LEAN, "registry.json")))


def audit(prop: str, thorough=False):
    """#print axioms for every registered theorem of `prop`.

    returns dict(theorems=[{name, axioms, ok, statement}], obligations, discharged, problems)
    """
    reg = registry()[prop]
    mods = reg["modules"]
    names = reg["theorems"]
    lines = [f"import {m}" for m in mods]
    for n in names:
        lines.append(f"#print axioms {n}")
    for n in names:
        lines.append(f"#check @{n}")
    # one file per run: several checks of one property may run at the same time (parallel sweeps, a thorough and a quick run)
    path = os.path.join(LEAN, f".audit_{prop}_{os.getpid()}.lean")
    with open(path, "w") as f:
        f.write("\n".join(lines) + "\n")
    try:
        p = subprocess.run(
            ["lake", "env", "lean", os.path.basename(path)],
            cwd=LEAN,
            capture_output=True,
            text=True,
            timeout=900,
        )
    finally:
        try:
            os.remove(path)
        except OSError:
            pass
    out = p.stdout + p.stderr
    problems = []
    ths = []
    for n in names:
        m = re.search(
            r"'" + re.escape(n) + r"' depends on axioms: \[([^\]]*)\]", out, flags=re.S
        )
        if m:
            ax = [a.strip() for a in m.group(1).replace("\n", " ").split(",") if a.strip()]
        elif re.search(r"'" + re.escape(n) + r"' does not depend on any axioms", out):
            ax = []
        else:
            ax = None
        ok = ax is not None and set(ax) <= ALLOWED_AXIOMS
        if ax is None:
            problems.append(f"theorem {n} missing or not checked")
        elif not ok:
            problems.append(f"theorem {n} uses disallowed axioms {sorted(set(ax) - ALLOWED_AXIOMS)}")
        st = None
        m2 = re.search(r"^@?" + re.escape(n) + r" :(.*?)(?=^\S|\Z)", out, flags=re.S | re.M)
        if m2:
            st = " ".join(m2.group(1).split())[:1500]
        ths.append({"name": n, "axioms": ax, "ok": ok, "statement": st})
    if p.returncode != 0 and not problems:
        problems.append("audit file failed to elaborate: " + out[-800:])
    forb = grep_forbidden()
    for h in forb:
        problems.append("forbidden token in Lean sources: " + h)
    res = {
        "theorems": ths,
        "obligations": len(names),
        "discharged": sum(1 for t in ths if t["ok"]) if not forb else 0,
        "problems": problems,
    }
    if thorough:
        t = time.time()
        q = subprocess.run(
            ["lake", "env", "leanchecker"] + mods,
            cwd=LEAN,
            capture_output=True,
            text=True,
            timeout=3000,
        )
        res["leanchecker"] = {
            "cmd": "lake env leanchecker " + " ".join(mods),
            "exit": q.returncode,
            "wall_s": round(time.time() - t, 1),
            "tail": (q.stdout + q.stderr)[-400:],
        }
        if q.returncode != 0:
            problems.append("leanchecker rejected " + " ".join(mods))
    return res


class Driver:
    """Batch interface to the Lean model driver (one JSON request per line)."""

    def __init__(self):
        if os.path.exists(DRIVER):
            self.cmd = [DRIVER]
        else:
            self.cmd = ["lake", "env", "lean", "--run", "Main.lean"]
        self.calls = 0

    def batch(self, reqs):
        if not reqs:
            return []
        data = "\n".join(json.dumps(r, ensure_ascii=True) for r in reqs) + "\n"
        p = subprocess.run(
            self.cmd, cwd=LEAN, input=data, capture_output=True, text=True, timeout=3000
        )
        if p.returncode != 0:
            raise Infra(f"driver failed: {p.stderr[-2000:]}")
        outs = [json.loads(l) for l in p.stdout.splitlines() if l.strip()]
        if len(outs) != len(reqs):
            raise Infra(f"driver answered {len(outs)} lines for {len(reqs)} requests")
        self.calls += len(reqs)
        return outs

    def ask(self, req):
        return self.batch([req])[0]


# --------------------------------------------------------------------------- run context


def digest_case(case) -> str:
    return hashlib.sha256(json.dumps(case, sort_keys=True, default=str).encode()).hexdigest()[:16]


class Ctx:
    """Per-run accumulator: counts, divergences, violations, evidence."""

    def __init__(self, prop, tier, seed):
        self.prop = prop
        self.tier = tier
        self.seed = seed
        self.rng = random.Random(seed * 1000003 + int(prop[1:]))
        self.driver = Driver()
        self.t0 = time.time()
        self.evaluations = 0
        self.nontrivial = set()
        self.traces = 0
        self.divergences = []  # correspondence failures: dict(name, case, impl, model)
        self.violations = []  # oracle failures: dict(case, detail)
        self.samples = []
        self.hist = {}
        self.exhaustive = {}
        self.notes = []
        self.rule = ""
        self.assumptions = []
        self.scratch = tempfile.mkdtemp(prefix=f"dvcverif-{prop}-", dir=os.environ.get("VERIF_SCRATCH"))

    # sizes
    def n(self, quick, thorough=None):
        if self.tier == "thorough":
            return thorough if thorough is not None else quick * 10
        return quick

    def count(self, key, inc=1):
        self.hist[key] = self.hist.get(key, 0) + inc

    def sample(self, s):
        if len(self.samples) < 4:
            self.samples.append(s)

    def case(self, case, nontrivial=True):
        self.evaluations += 1
        if nontrivial:
            self.nontrivial.add(digest_case(case))

    def corr(self, name, case, impl, model):
        """compare canonicalised impl and model observations"""
        self.traces += 1
        if impl != model:
            self.divergences.append({"correspondence": name, "case": case, "impl": impl, "model": model})
            return False
        return True

    def oracle(self, ok, case, detail, signature=None):
        if not ok:
            self.violations.append({"case": case, "detail": detail, "signature": signature})
        return ok

    def mkdtemp(self):
        return tempfile.mkdtemp(dir=self.scratch)

    def cleanup(self):
        shutil.rmtree(self.scratch, ignore_errors=True)


def known_findings():
    p = os.path.join(VERIF, "known_findings.json")
    if not os.path.exists(p):
        return {"known": [], "fixed": []}
    return json.load(open(p))


def case_size(c):
    return len(json.dumps(c, default=str))


def write_replay(ctx, kind, payload):
    os.makedirs(os.path.join(VERIF, "replays"), exist_ok=True)
    name = f"{ctx.prop}-{ctx.tier}-{ctx.seed}-{kind}-{int(time.time())}.json"
    path = os.path.join(VERIF, "replays", name)
    with open(path, "w") as f:
        json.dump(
            {"property": ctx.prop, "seed": ctx.seed, "tier": ctx.tier, "kind": kind, **payload},
            f,
            indent=1,
            default=str,
        )
    return os.path.relpath(path, VERIF)


def write_evidence(ctx, aud, build_s, extra=None, violations=0):
    os.makedirs(os.path.join(VERIF, "evidence"), exist_ok=True)
    cov = {
        "obligations": aud["obligations"],
        "discharged": aud["discharged"],
        "checker_cmd": "cd lean && lake build && lake env lean <generated #print axioms file> (harness/core.py:audit)"
        + ("; lake env leanchecker <modules>" if "leanchecker" in aud else ""),
        "trusted_base": TRUSTED_BASE,
        "theorems": aud["theorems"],
        "audit_problems": aud["problems"],
        "evaluations": ctx.evaluations,
        "distinct_nontrivial": len(ctx.nontrivial),
        "rule": ctx.rule,
        "traces_validated_against_impl": ctx.traces,
        "correspondence_divergences": len(ctx.divergences),
        "samples": ctx.samples or ["(no case generated)"],
        "input_distribution": ctx.hist,
        "exhaustive_domains": ctx.exhaustive,
        "exhaustive": bool(ctx.exhaustive) and all(ctx.exhaustive.values()),
        "notes": ctx.notes,
        "lake_build_s": round(build_s, 2),
        "driver_requests": ctx.driver.calls,
    }
    if "leanchecker" in aud:
        cov["leanchecker"] = aud["leanchecker"]
    if extra:
        cov.update(extra)
    ev = {
        "property_id": ctx.prop,
        "tier": ctx.tier,
        "seed": ctx.seed,
        "level": "proof",
        "coverage": cov,
        "assumptions": ctx.assumptions,
        "wall_s": round(time.time() - ctx.t0, 2),
        "violations": violations,
    }
    with open(os.path.join(VERIF, "evidence", f"{ctx.prop}.json"), "w") as f:
        json.dump(ev, f, indent=1, default=str)


def matches_known(prop, signature):
    if not signature:
        return None
    for k in known_findings().get("known", []):
        if k.get("property") == prop and k.get("signature") == signature:
            return k
    return None


def run_check(prop, module, tier, seed, replay=None):
    """Top-level flow shared by all properties.  `module` provides run(ctx) and optionally
    search(ctx) (deeper failing-input search) and replay(ctx, payload)."""
    payload = None
    if replay:
        payload = json.load(open(replay))
        tier = payload.get("tier", tier)
        seed = payload.get("seed", seed)
    ctx = Ctx(prop, tier, seed)
    ctx.is_replay = bool(replay)
    try:
        ok, log, build_s = lake_build()
        if not ok:
            print(log)
            raise Infra("lake build failed (the Lean sources do not depend on /repo)")
        aud = audit(prop, thorough=(tier == "thorough" and not replay))
        if replay:
            module.replay(ctx, payload)
        else:
            module.run(ctx)
        rc = decide(ctx, module, aud, build_s)
        return rc
    finally:
        ctx.cleanup()


def decide(ctx, module, aud, build_s):
    prop = ctx.prop
    out_lines = []
    rc = 0
    unlisted = []
    for v in ctx.violations:
        k = matches_known(prop, v.get("signature"))
        if k:
            line = f"KNOWN-FINDING: property={prop} {k.get('what', k.get('signature'))}"
            if line not in out_lines:
                out_lines.append(line)
        else:
            unlisted.append(v)
    nviol = len(unlisted)
    if unlisted:
        v = min(unlisted, key=lambda x: case_size(x["case"]))
        path = write_replay(
            ctx,
            "property-violation",
            {"case": v["case"], "detail": v["detail"], "others": len(unlisted) - 1},
        )
        out_lines.append(f"VIOLATION property={prop} replay={path}")
        rc = 1
    elif ctx.divergences or aud["problems"]:
        # the model / a theorem no longer checks against the code: search for a failing input
        found = None
        if hasattr(module, "search"):
            before = len(ctx.violations)
            try:
                module.search(ctx)
            except Infra:
                raise
            new = [
                v
                for v in ctx.violations[before:]
                if not matches_known(prop, v.get("signature"))
            ]
            if new:
                found = min(new, key=lambda x: case_size(x["case"]))
        if found:
            path = write_replay(
                ctx, "property-violation", {"case": found["case"], "detail": found["detail"]}
            )
            out_lines.append(f"VIOLATION property={prop} replay={path}")
            nviol = 1
        else:
            if ctx.divergences:
                d = min(ctx.divergences, key=lambda x: case_size(x["case"]))
                unchecked = "correspondence " + d["correspondence"]
                payload = {
                    "unchecked": unchecked,
                    "diverging_case": d["case"],
                    "impl_observation": d["impl"],
                    "model_observation": d["model"],
                    "divergences": len(ctx.divergences),
                }
            else:
                unchecked = "; ".join(aud["problems"])
                payload = {"unchecked": unchecked}
            path = write_replay(ctx, "correspondence" if ctx.divergences else "proof", payload)
            out_lines.append(
                f"VIOLATION property={prop} replay={path} no-failing-input-found"
            )
            nviol = 1
        rc = 1
    if not getattr(ctx, "is_replay", False):
        write_evidence(ctx, aud, build_s, violations=nviol)
    for l in out_lines:
        print(l)
    if rc == 0:
        print(
            f"OK property={prop} tier={ctx.tier} seed={ctx.seed} theorems={aud['discharged']}/{aud['obligations']} "
            f"evaluations={ctx.evaluations} nontrivial={len(ctx.nontrivial)} traces={ctx.traces} wall={time.time()-ctx.t0:.1f}s"
        )
    return rc


def main(argv):
    import argparse
    import importlib

    ap = argparse.ArgumentParser()
    ap.add_argument("prop")
    ap.add_argument("--tier", default=os.environ.get("VERIF_TIER", "quick"))
    ap.add_argument("--replay")
    a = ap.parse_args(argv)
    seed = int(os.environ.get("VERIF_SEED", "0") or 0)
    tier = a.tier if a.tier in ("quick", "thorough") else "quick"
    try:
        mod = importlib.import_module(f"harness.{a.prop.lower()}")
        return run_check(a.prop, mod, tier, seed, replay=a.replay)
    except Infra as e:
        print(f"INFRA-ERROR property={a.prop}: {e}")
        return 2
    except subprocess.TimeoutExpired as e:
        print(f"INFRA-ERROR property={a.prop}: timeout {e}")
        return 2
    except Exception:
        traceback.print_exc()
        print(f"INFRA-ERROR property={a.prop}: harness crashed")
        return 2
