"""C17 — lazy directory loading, filtered views and the fs adaptor are transparent
(index/index.py, index/view.py, fs.py, hashfile/tree.py)."""
import os

from . import gen, stores
from .util import md5hex, safe_call


def gen_case(rng, empty=None):
    """an index mixing files, explicit directories and unloaded directory objects at depth <= 3; with `empty` also unloaded
    directory objects whose listing is empty (the object `[]`): "sibling" = next to the other entries (top level or beside
    another directory object), "nested" = at depth 2-3 below implicit / explicit directories, "only" = the only entry"""
    tops = ["a", "b", "dirobj", "x", "nested"]
    files = {}       # explicit file entries: key -> bytes
    lazy = {}        # key of an unloaded directory entry -> {relkey: bytes}
    for _ in range(rng.randrange(1, 5)):
        k = tuple(rng.choice(tops[:3]) for _ in range(rng.randrange(0, 2))) + ("f%d" % rng.randrange(4),)
        files[k] = b"file-%d" % rng.randrange(1000)
    for _ in range(rng.randrange(1, 3)):
        d = tuple(rng.choice(["lz", "deep"]) for _ in range(rng.randrange(0, 2))) + ("obj%d" % rng.randrange(3),)
        sub = {}
        for _ in range(rng.randrange(1, 5)):
            rk = tuple(rng.choice(["s", "t"]) for _ in range(rng.randrange(0, 3))) + ("g%d" % rng.randrange(4),)
            if not any(rk[: len(o)] == o or o[: len(rk)] == rk for o in sub):
                sub[rk] = b"inner-%d" % rng.randrange(1000)
        lazy[d] = sub
    # well-formed: nothing explicit below an unloaded directory, no file above another entry
    keys = list(files) + list(lazy)
    ok = lambda k: not any(o != k and (o[: len(k)] == k or k[: len(o)] == o) for o in keys)  # noqa: E731
    files = {k: v for k, v in files.items() if ok(k)}
    lazy = {k: v for k, v in lazy.items() if ok(k)}
    if not lazy:
        lazy = {("only",): {("g",): b"inner"}}
    extra = {}
    if empty == "only":
        files, lazy = {}, {rng.choice([("only",), ("deep", "only"), ("lz", "deep", "only")]): {}}
    elif empty == "sibling":
        parents = [()] + sorted({d[:-1] for d in lazy if len(d) > 1})
        for _ in range(rng.randrange(1, 3)):
            lazy[rng.choice(parents) + ("emp%d" % rng.randrange(3),)] = {}
    elif empty == "nested":
        for _ in range(rng.randrange(1, 3)):
            lazy[tuple(rng.choice(["lz", "deep", "n"]) for _ in range(rng.randrange(1, 3))) + ("emp%d" % rng.randrange(3),)] = {}
    if empty:
        if rng.random() < 0.3:
            # one of the ordinary directory objects is empty as well
            lazy[rng.choice(sorted(lazy))] = {}
        extra = {"empty_listing": empty}
    explicit_dirs = rng.random() < 0.6
    return {
        **extra,
        "files": {"/".join(k): v.decode() for k, v in files.items()},
        "lazy": {"/".join(k): {"/".join(r): v.decode() for r, v in s.items()} for k, s in lazy.items()},
        "explicit_dirs": explicit_dirs, "sqlite": rng.random() < 0.4, "existence_index": rng.random() < 0.3,
        # SQLite-backed only: the handle is committed, closed and opened again before / in the middle of the queries, so
        # entries come from the database rather than from the objects the process itself inserted
        "reopen": rng.choice([None, "before", "middle", "middle"]),
    }


def split(s):
    return tuple(s.split("/"))


def build_indexes(case, root):
    """(lazy index, explicitly expanded index, expected flat view, listings)"""
    from dvc_data.hashfile.hash_info import HashInfo
    from dvc_data.hashfile.meta import Meta
    from dvc_data.index.index import DataIndex, DataIndexEntry, ObjectStorage

    odb = stores.make_odb(os.path.join(root, "odb"), local=True)

    def attach(idx):
        if case.get("existence_index"):
            # the storage carries the optional existence index (as remotes do); it has never been refreshed
            idx.storage_map.add_cache(ObjectStorage((), odb, index=DataIndex()))
        else:
            idx.storage_map.add_cache(ObjectStorage((), odb))
        return idx

    def new(name):
        return attach(DataIndex.open(os.path.join(root, name + ".db")) if case["sqlite"] else DataIndex())

    def reopen(idx, name, storage=True):
        """commit, close and open the SQLite-backed index again (a fresh handle: nothing in the identity cache)"""
        idx.commit()
        idx.close()
        fresh = DataIndex.open(os.path.join(root, name + ".db"))
        return attach(fresh) if storage else fresh

    build_indexes.reopen = reopen

    L, E = new("lazy"), new("expanded")
    files = {split(k): v.encode() for k, v in case["files"].items()}
    lazy = {split(k): {split(r): v.encode() for r, v in s.items()} for k, s in case["lazy"].items()}
    flat = {}
    listings = {}
    dirs = set()
    for k, c in files.items():
        h = md5hex(c)
        stores.put_raw(odb.path, h, c)
        for idx in (L, E):
            idx[k] = DataIndexEntry(key=k, meta=Meta(), hash_info=HashInfo("md5", h))
        flat[k] = [False, h]
        dirs.update(k[:i] for i in range(1, len(k)))
    for d, sub in lazy.items():
        ents = {r: md5hex(c) for r, c in sub.items()}
        for r, c in sub.items():
            stores.put_raw(odb.path, md5hex(c), c)
        raw = gen.canonical_listing(ents)
        toid = md5hex(raw) + ".dir"
        stores.put_raw(odb.path, toid, raw)
        listings[toid] = [[list(r), h] for r, h in ents.items()]
        L[d] = DataIndexEntry(key=d, meta=Meta(isdir=True), hash_info=HashInfo("md5", toid))
        E[d] = DataIndexEntry(key=d, meta=Meta(isdir=True), hash_info=HashInfo("md5", toid), loaded=True)
        flat[d] = [True, toid]
        dirs.update(d[:i] for i in range(1, len(d)))
        for r, h in ents.items():
            E[d + r] = DataIndexEntry(key=d + r, meta=Meta(md5=h), hash_info=HashInfo("md5", h))
            flat[d + r] = [False, h]
            for i in range(1, len(r)):
                sd = d + r[:i]
                E[sd] = DataIndexEntry(key=sd, meta=Meta(isdir=True), loaded=True)
                flat[sd] = [True, None]
    if case["explicit_dirs"]:
        for d in sorted(dirs):
            if d not in flat:
                for idx in (L, E):
                    idx[d] = DataIndexEntry(key=d, meta=Meta(isdir=True), loaded=True)
                flat[d] = [True, None]
    return L, E, flat, listings, odb, files, lazy


def proj(e):
    return [bool(e.meta.isdir) if e.meta else False, e.hash_info.value if e.hash_info else None]


def run_query(idx, q, proj=proj, field="md5"):
    from dvc_data.index.view import DataIndexView

    kind = q["q"]
    key = tuple(q.get("key", []))
    if kind == "get":
        k, v = safe_call(lambda: proj(idx[key]), expected=(KeyError,))
        return v if k == "ok" else "KeyError"
    if kind == "iter":
        k, v = safe_call(lambda: sorted([list(kk), proj(e)] for kk, e in idx.iteritems(key if key else None)), expected=(KeyError,))
        return v if k == "ok" else ([] if v == "KeyError" else v)
    if kind == "ls":
        k, v = safe_call(lambda: sorted(list(kk) for kk in idx.ls(key, detail=False)), expected=(KeyError,))
        return v if k == "ok" else v
    if kind == "info":
        def f():
            i = idx.info(key)
            return [i["type"], i.get(field)]
        k, v = safe_call(f, expected=(KeyError,))
        return v
    if kind == "view":
        acc = {tuple(a) for a in q["accept"]}
        view = DataIndexView(idx, lambda kk: kk in acc)
        k, v = safe_call(lambda: sorted([list(kk), proj(e)] for kk, e in view.iteritems()))
        return v
    if kind == "view_prefix":
        acc = {tuple(a) for a in q["accept"]}
        view = DataIndexView(idx, lambda kk: kk in acc)
        k, v = safe_call(lambda: sorted([list(kk), proj(e)] for kk, e in view.iteritems(prefix=key)), expected=(KeyError,))
        return v if k == "ok" else v
    raise ValueError(kind)


def check(ctx, case):
    from dvc_data.fs import DataFileSystem
    from dvc_data.index.diff import diff

    rng = ctx.rng
    root = ctx.mkdtemp()
    L, E, flat, listings, odb, files, lazy = build_indexes(case, root)
    allkeys = sorted(flat)
    below = sorted(k for k in flat if any(k[: len(d)] == d and k != d for d in lazy))
    queries = []
    for _ in range(rng.randrange(6, 20)):
        r = rng.random()
        pick = list(rng.choice(below if (below and rng.random() < 0.6) else allkeys))
        if rng.random() < 0.15:
            pick = pick + ["nope"]
        if r < 0.3:
            queries.append({"q": "get", "key": pick})
        elif r < 0.5:
            queries.append({"q": "iter", "key": pick[: rng.randrange(0, len(pick) + 1)] if rng.random() < 0.7 else []})
        elif r < 0.7:
            d = pick[:-1] if rng.random() < 0.7 else pick
            queries.append({"q": "ls", "key": d})
        elif r < 0.85:
            queries.append({"q": "info", "key": pick})
        else:
            # prefix-closed filter: a key is accepted with all of its prefixes
            chosen = [k for k in allkeys if rng.random() < 0.5]
            acc = sorted({k[:i] for k in chosen for i in range(1, len(k) + 1)})
            if acc and rng.random() < 0.35:
                # the view iterated under a prefix it accepts (possibly strictly inside an unloaded directory object)
                queries.append({"q": "view_prefix", "accept": [list(a) for a in acc], "key": list(rng.choice(acc))})
            else:
                queries.append({"q": "view", "accept": [list(a) for a in acc]})
    caseq = {**case, "queries": queries}
    ctx.case(caseq, nontrivial=any(q["q"] in ("get", "ls", "info") and tuple(q["key"]) in below for q in queries))
    ctx.count("backend:%s" % ("sqlite" if case["sqlite"] else "memory"))
    if any(not sub for sub in lazy.values()):
        ctx.count("empty-listing-directory:%s:%s" % (case.get("empty_listing"), "sqlite" if case["sqlite"] else "memory"))
        ctx.count("empty-listing-directory-at-depth:%d" % max(len(d) for d, sub in lazy.items() if not sub))
    impl_l, impl_e = [], []
    reopen = build_indexes.reopen
    when = case.get("reopen") if case["sqlite"] else None
    ctx.count("reopen:%s" % when)
    mid = rng.randrange(1, len(queries)) if when == "middle" else (0 if when == "before" else None)
    try:
        for qi, q in enumerate(queries):
            if mid is not None and qi == mid:
                L, E = reopen(L, "lazy"), reopen(E, "expanded")
            ctx.count("query:" + q["q"])
            a = run_query(L, q)
            b = run_query(E, q)
            impl_l.append(a)
            impl_e.append(b)
        for i, (a, b) in enumerate(zip(impl_l, impl_e)):
            ctx.oracle(a == b, caseq, {"why": "the lazy index answers differently from the explicitly expanded one",
                                       "query_no": i, "query": queries[i], "lazy": a, "expanded": b})
        # loading is idempotent and yields the expanded contents
        k1, after1 = safe_call(lambda: (L.load(), sorted([list(kk), proj(e)] for kk, e in L.iteritems()))[1])
        k2, after2 = safe_call(lambda: (L.load(), sorted([list(kk), proj(e)] for kk, e in L.iteritems()))[1])
        want = sorted([list(k), v] for k, v in flat.items())
        ctx.oracle(k1 == "ok" and after1 == after2 == want, caseq, {"why": "loading is not idempotent or does not yield the listed files",
                                                                    "after_first": after1 if after1 != want else "ok", "after_second": after2 if after2 != want else "ok"})
        if case["sqlite"]:
            # what was loaded is persisted, with its flag: after commit / close / reopen (no storage attached, so nothing
            # can be loaded again) the index holds the same keys with the same kinds, hashes and loaded flags
            def snap(idx):
                return sorted([list(k), proj(idx._trie.get(k)), bool(idx._trie.get(k).loaded)] for k in idx)

            k4, before_close = safe_call(lambda: snap(L))
            L = reopen(L, "lazy", storage=False)
            k5, after_open = safe_call(lambda: snap(L))
            ctx.oracle(k4 == "ok" and k5 == "ok" and before_close == after_open, caseq,
                       {"why": "the loaded index read back after commit/close/reopen differs (keys, kinds, hashes or loaded flags)",
                        "differs": [x for x in (before_close if k4 == "ok" else []) if x not in (after_open if k5 == "ok" else [])][:4]})
            unloaded = [x for x in (after_open if k5 == "ok" else []) if x[1][0] and x[1][1] and not x[2]]
            ctx.oracle(not unloaded, caseq, {"why": "a directory object loaded before the close is marked unloaded after the reopen", "dirs": unloaded[:3]})
        # hash-level diff against the expanded index shows nothing
        L2, E2, *_ = build_indexes(case, ctx.mkdtemp())
        k3, d = safe_call(lambda: sorted((c.typ, list(c.key)) for c in diff(L2, E2, hash_only=True)))
        ctx.oracle(k3 == "ok" and d == [], caseq, {"why": "hash-level diff between the lazy and the expanded index is not empty", "diff": d})
        # the filesystem adaptor agrees with the index and with the bytes in storage
        L3, _, *_ = build_indexes(case, ctx.mkdtemp())
        dfs = DataFileSystem(L3)
        content = {k: v for k, v in files.items()}
        for d_, sub in lazy.items():
            for r, c in sub.items():
                content[d_ + r] = c
        for k in rng.sample(sorted(content), min(4, len(content))):
            kk, got = safe_call(lambda: dfs.cat_file("/" + "/".join(k)))
            ctx.oracle(kk == "ok" and got == content[k], caseq, {"why": "adaptor content differs from the bytes in storage", "path": "/".join(k), "got": str(got)[:60]})
            ki, inf = safe_call(lambda: dfs.info("/" + "/".join(k)))
            ctx.oracle(ki == "ok" and inf["type"] == "file" and inf.get("md5") == md5hex(content[k]), caseq,
                       {"why": "adaptor metadata differs from the index", "path": "/".join(k), "info": str(inf)[:120]})
        for d_ in list(lazy)[:2]:
            kl, names = safe_call(lambda: sorted(os.path.basename(p.rstrip("/")) for p in dfs.ls("/" + "/".join(d_), detail=False)))
            exp = sorted({k[len(d_)] for k in flat if k[: len(d_)] == d_ and len(k) > len(d_)})
            ctx.oracle(kl == "ok" and names == exp, caseq, {"why": "adaptor listing differs from the index", "dir": "/".join(d_), "got": names, "expected": exp})
    finally:
        for idx in (L, E):
            safe_call(idx.close)
    # correspondence with the model
    entries = []
    for k, c in files.items():
        entries.append({"key": list(k), "isdir": False, "hash": md5hex(c), "loaded": False})
    for d_, sub in lazy.items():
        toid = md5hex(gen.canonical_listing({r: md5hex(c) for r, c in sub.items()})) + ".dir"
        entries.append({"key": list(d_), "isdir": True, "hash": toid, "loaded": False})
    if case["explicit_dirs"]:
        for k, v in flat.items():
            if v == [True, None] and not any(k[: len(d_)] == d_ for d_ in lazy):
                entries.append({"key": list(k), "isdir": True, "hash": None, "loaded": True})
    mq = []
    for q in queries:
        if q["q"] == "info":
            mq.append({"q": "get", "key": q["key"]})
        else:
            mq.append(q)
    ans = ctx.driver.ask({"op": "lazy", "entries": entries, "listings": [[o, es] for o, es in listings.items()], "queries": mq + [{"q": "expand"}]})
    if "results" not in ans:
        ctx.corr("IndexLazy queries", caseq, "ok", ans)
        return
    impl_view, model_view = [], []
    for q, a, m in zip(queries, impl_l, ans["results"]):
        if q["q"] == "info":
            # info() of a missing key below a loaded directory raises KeyError, of an implicit node says "directory"
            continue
        if q["q"] == "view_prefix" and a == "KeyError":
            a = []  # a prefix under which nothing exists: the traversal raises, the model yields nothing
        if q["q"] == "get" and a == "KeyError" and m == "KeyError":
            continue
        impl_view.append([q["q"], a])
        model_view.append([q["q"], m])
    ctx.corr("IndexLazy.getItem/iterItems/lsAt/viewItems~DataIndex (lazy)", caseq, impl_view, model_view)
    ctx.corr("IndexLazy.expand~explicitly expanded index", caseq, sorted([list(k), v] for k, v in flat.items()), ans["results"][-1])
    if len(ctx.samples) < 2:
        ctx.sample({"case": case, "queries": queries[:5]})


def root_key_cases(ctx):
    """an unloaded directory object at the root key (depth 0), both back ends: lookup below it and a filtered view, against
    the index that lists the files explicitly (fixed cases that run first)"""
    import hashlib
    import json

    from dvc_data.hashfile.hash_info import HashInfo
    from dvc_data.hashfile.meta import Meta
    from dvc_data.index.index import DataIndex, DataIndexEntry, ObjectStorage
    from dvc_data.index.view import view

    root = ctx.mkdtemp()
    odb = stores.make_odb(os.path.join(root, "odb"), local=True)
    files = {("a",): b"A-content", ("s", "b"): b"B-content"}
    ents = {k: md5hex(c) for k, c in files.items()}
    for c in files.values():
        stores.put_raw(odb.path, md5hex(c), c)
    raw = gen.canonical_listing(ents)
    toid = md5hex(raw) + ".dir"
    stores.put_raw(odb.path, toid, raw)
    for backend in ("memory", "sqlite"):
        def new(tag):
            idx = DataIndex.open(os.path.join(root, "%s-%s.db" % (backend, tag))) if backend == "sqlite" else DataIndex()
            idx.storage_map.add_cache(ObjectStorage((), odb))
            return idx

        def lazy(tag):
            idx = new(tag)
            idx[()] = DataIndexEntry(key=(), meta=Meta(isdir=True), hash_info=HashInfo("md5", toid))
            return idx

        E = new("expanded")
        for k, h in ents.items():
            E[k] = DataIndexEntry(key=k, meta=Meta(), hash_info=HashInfo("md5", h))
        case = {"root_key_directory_object": True, "backend": backend}
        ctx.case(case)
        sig = "unloaded-directory-object-at-the-root-key"
        for k, h in ents.items():
            kind, v = safe_call(lambda: lazy("get-" + "-".join(k))[k].hash_info.value, expected=(KeyError,))
            ctx.oracle(kind == "ok" and v == h, case, {"why": "lookup below an unloaded directory object at the root key differs from the expanded index",
                                                       "key": list(k), "lazy": v if kind == "ok" else v, "expanded": h}, signature=sig)
        kind, v = safe_call(lambda: sorted("/".join(k) for k, e in view(lazy("view"), lambda k: True).iteritems() if e.hash_info and not e.hash_info.isdir))
        exp = sorted("/".join(k) for k, e in view(E, lambda k: True).iteritems() if e.hash_info and not e.hash_info.isdir)
        ctx.oracle(kind == "ok" and v == exp, case, {"why": "a view of an unloaded directory object at the root key differs from the view of the expanded index",
                                                     "lazy": v, "expanded": exp}, signature=sig)


# ---------------------------------------------------------------------------------------------------------------------
# unloaded directories backed by a FileStorage (a workspace / remote directory tree instead of a directory object)
# ---------------------------------------------------------------------------------------------------------------------
def gen_fs_case(rng):
    """1-2 FileStorages registered at keys of depth 0-2, each with one of its possible path origins (`prefix`: the default =
    its key, or explicitly any prefix of its key down to ()), backing 1-2 unloaded directory entries at or below its key and
    0-2 explicitly listed files; decoy files with the same names sit at every position a mis-resolved path could land on"""
    tops = ["data", "w", "s"]
    rng.shuffle(tops)
    storages = []
    for si in range(rng.randrange(1, 3)):
        if si == 1 and rng.random() < 0.25:
            key = ()                                   # a second storage at the root: longest-prefix resolution matters
        else:
            key = (tops[si],) + ((rng.choice(["s", "sub"]),) if rng.random() < 0.4 else ())
        r = rng.random()
        prefix = None if r < 0.25 else list(key[: (0 if r < 0.6 else rng.randrange(0, len(key) + 1))])
        lazy, files = {}, {}
        for _ in range(rng.randrange(1, 3)):
            d = key + tuple(rng.choice(["lz", "s"]) for _ in range(rng.randrange(0, 2)))
            if not d:
                d = ("lz",)
            sub = {}
            for _ in range(rng.randrange(1, 5)):
                rk = tuple(rng.choice(["s", "t"]) for _ in range(rng.randrange(0, 3))) + ("g%d" % rng.randrange(4),)
                if not any(rk[: len(o)] == o or o[: len(rk)] == rk for o in sub):
                    sub[rk] = "inner-%d-%s" % (rng.randrange(1000), "x" * rng.randrange(0, 12))
            lazy[d] = sub
        for _ in range(rng.randrange(0, 3)):
            k = key + tuple(rng.choice(["a", "lz"]) for _ in range(rng.randrange(0, 2))) + ("g%d" % rng.randrange(4),)
            files[k] = "file-%d-%s" % (rng.randrange(1000), "y" * rng.randrange(0, 12))
        storages.append({"key": key, "prefix": prefix, "lazy": lazy, "files": files})
    # well-formed: no entry above / below another one; a key belongs to the storage with the longest matching key
    allk = [k for s in storages for k in list(s["lazy"]) + list(s["files"])]
    ok = lambda k: sum(1 for o in allk if o == k) == 1 and not any(o != k and (o[: len(k)] == k or k[: len(o)] == o) for o in allk)  # noqa: E731
    own = lambda s, k: max(storages, key=lambda t: len(t["key"]) if k[: len(t["key"])] == t["key"] else -1) is s  # noqa: E731
    for s in storages:
        s["lazy"] = {k: v for k, v in s["lazy"].items() if ok(k) and own(s, k)}
        s["files"] = {k: v for k, v in s["files"].items() if ok(k) and own(s, k)}
    if not any(s["lazy"] for s in storages):
        s = storages[0]
        s["files"] = {}
        s["lazy"] = {(s["key"] or ("only",)): {("g0",): "inner"}}
        storages[:] = [s]
    return {
        "file_storages": [{"key": list(s["key"]), "prefix": s["prefix"],
                           "lazy": {"/".join(k): {"/".join(r): v for r, v in sub.items()} for k, sub in s["lazy"].items()},
                           "files": {"/".join(k): v for k, v in s["files"].items()}} for s in storages],
        "explicit_dirs": rng.random() < 0.5, "sqlite": rng.random() < 0.3, "decoys": rng.random() < 0.85,
    }


def fs_layout(case):
    """per storage: (key, prefix argument, effective origin, {relative path: bytes} of the indexed files, decoys)"""
    out = []
    for s in case["file_storages"]:
        key = tuple(s["key"])
        prefix = None if s["prefix"] is None else tuple(s["prefix"])
        origin = key if prefix is None else prefix        # paths are taken relative to this index key
        real, lazydirs = {}, []
        for d, sub in s["lazy"].items():
            d = split(d)
            lazydirs.append(d[len(origin):])
            for r, v in sub.items():
                real[(d + split(r))[len(origin):]] = v.encode()
        for k, v in s["files"].items():
            real[split(k)[len(origin):]] = v.encode()
        decoys = {}
        if case["decoys"]:
            clash = lambda a, b: a[: len(b)] == b or b[: len(a)] == a  # noqa: E731
            for rel, v in sorted(real.items()):
                full = origin + rel
                cands = [rel[i:] for i in range(1, len(rel))] + [full[j:] for j in range(len(origin))]
                cands += [(c,) + rel for c in ("data", "w", "s", "sub")]
                for c in cands:
                    if any(c[: len(d)] == d for d in lazydirs) or any(clash(c, o) for o in real) or any(clash(c, o) for o in decoys):
                        continue
                    decoys[c] = b"DECOY-" + v + b"-not-in-the-index"
        out.append((key, prefix, origin, real, decoys))
    return out


def build_fs_indexes(case, root, tag=""):
    """(lazy index, explicitly expanded index, expected flat view {key: [isdir, size]}, {key: (bytes, path on disk)})"""
    from dvc_objects.fs.local import LocalFileSystem

    from dvc_data.hashfile.meta import Meta
    from dvc_data.index.index import DataIndex, DataIndexEntry, FileStorage

    from .util import write_file

    def new(name):
        return DataIndex.open(os.path.join(root, "%s%s.db" % (name, tag))) if case["sqlite"] else DataIndex()

    L, E = new("fs-lazy"), new("fs-expanded")
    flat, content, dirs = {}, {}, set()
    for si, (key, prefix, origin, real, decoys) in enumerate(fs_layout(case)):
        base = os.path.join(root, "ws%d" % si)
        os.makedirs(base, exist_ok=True)
        for rel, data in list(real.items()) + list(decoys.items()):
            p = os.path.join(base, *rel)
            if not os.path.exists(p):
                write_file(p, data)
        for idx in (L, E):
            kw = {} if prefix is None else {"prefix": prefix}
            idx.storage_map.add_data(FileStorage(key=key, fs=LocalFileSystem(), path=base, **kw))
        s = case["file_storages"][si]
        for k, v in s["files"].items():
            k = split(k)
            for idx in (L, E):
                idx[k] = DataIndexEntry(key=k, meta=Meta(size=len(v)))
            flat[k] = [False, len(v)]
            content[k] = (v.encode(), os.path.join(base, *k[len(origin):]))
            dirs.update(k[:i] for i in range(1, len(k)))
        for d, sub in s["lazy"].items():
            d = split(d)
            L[d] = DataIndexEntry(key=d, meta=Meta(isdir=True))
            E[d] = DataIndexEntry(key=d, meta=Meta(isdir=True), loaded=True)
            flat[d] = [True, None]
            dirs.update(d[:i] for i in range(1, len(d)))
            for r, v in sub.items():
                r = split(r)
                E[d + r] = DataIndexEntry(key=d + r, meta=Meta(size=len(v)))
                flat[d + r] = [False, len(v)]
                content[d + r] = (v.encode(), os.path.join(base, *(d + r)[len(origin):]))
                for i in range(1, len(r)):
                    E[d + r[:i]] = DataIndexEntry(key=d + r[:i], meta=Meta(isdir=True), loaded=True)
                    flat[d + r[:i]] = [True, None]
    if case["explicit_dirs"]:
        for d in sorted(dirs):
            if d not in flat:
                for idx in (L, E):
                    idx[d] = DataIndexEntry(key=d, meta=Meta(isdir=True), loaded=True)
                flat[d] = [True, None]
    return L, E, flat, content


def proj_size(e):
    isdir = bool(e.meta.isdir) if e.meta else False
    return [isdir, None if isdir or not e.meta else e.meta.size]


def check_fs(ctx, case):
    """the statement of C17 for unloaded directories that a FileStorage backs: the lazy index against the index that lists
    the same files explicitly (same storages), load() twice, diff, and the adaptor against the bytes on disk"""
    from dvc_data.fs import DataFileSystem
    from dvc_data.index.diff import diff

    rng = ctx.rng
    root = ctx.mkdtemp()
    L, E, flat, content = build_fs_indexes(case, root)
    lazydirs = [split(d) for s in case["file_storages"] for d in s["lazy"]]
    allkeys = sorted(flat)
    below = sorted(k for k in flat if any(k[: len(d)] == d and k != d for d in lazydirs))
    queries = []
    for _ in range(rng.randrange(4, 12)):
        r = rng.random()
        pick = list(rng.choice(below if (below and rng.random() < 0.6) else allkeys))
        if rng.random() < 0.15:
            pick = pick + ["nope"]
        if r < 0.35:
            queries.append({"q": "get", "key": pick})
        elif r < 0.55:
            queries.append({"q": "iter", "key": pick[: rng.randrange(0, len(pick) + 1)] if rng.random() < 0.7 else []})
        elif r < 0.8:
            queries.append({"q": "ls", "key": pick[:-1] if rng.random() < 0.7 else pick})
        else:
            queries.append({"q": "info", "key": pick})
    caseq = {**case, "queries": queries}
    ctx.case(caseq, nontrivial=any(q["q"] in ("get", "ls", "info") and tuple(q["key"]) in below for q in queries))
    ctx.count("family:file-storage")
    for s in case["file_storages"]:
        ctx.count("file-storage-prefix:%s" % ("default" if s["prefix"] is None else "key" if s["prefix"] == s["key"] else
                                                "root" if not s["prefix"] else "partial"))
    sig = "file-storage-backed-unloaded-directory"
    size_key = lambda m: m and (bool(m.isdir), None if m.isdir else m.size)  # noqa: E731
    try:
        for i, q in enumerate(queries):
            ctx.count("fs-query:" + q["q"])
            a = run_query(L, q, proj=proj_size, field="size")
            b = run_query(E, q, proj=proj_size, field="size")
            if q["q"] == "info" and isinstance(a, list) and a[0] == "directory":
                a, b = a[:1], b[:1]        # the size reported for a directory is the file system's, not part of the property
            ctx.oracle(a == b, caseq, {"why": "the lazy index (directory backed by a FileStorage) answers differently from the explicitly expanded one",
                                       "query_no": i, "query": q, "lazy": a, "expanded": b}, signature=sig)
        k1, after1 = safe_call(lambda: (L.load(), sorted([list(kk), proj_size(e)] for kk, e in L.iteritems()))[1])
        k2, after2 = safe_call(lambda: (L.load(), sorted([list(kk), proj_size(e)] for kk, e in L.iteritems()))[1])
        want = sorted([list(k), v] for k, v in flat.items())
        ctx.oracle(k1 == "ok" and after1 == after2 == want, caseq,
                   {"why": "loading a FileStorage-backed directory is not idempotent or does not yield the files of that directory",
                    "after_first": after1 if after1 != want else "ok", "after_second": after2 if after2 != want else "ok",
                    "expected": want}, signature=sig)
        L2, E2, *_ = build_fs_indexes(case, root, tag="-diff")
        try:
            k3, d = safe_call(lambda: sorted((c.typ, list(c.key)) for c in diff(E2, L2, meta_cmp_key=size_key)))
        finally:
            for idx in (L2, E2):
                safe_call(idx.close)
        ctx.oracle(k3 == "ok" and d == [], caseq, {"why": "diff between the expanded and the lazy index (kinds and sizes) is not empty", "diff": d}, signature=sig)
        # the adaptor over the lazy index: contents are the bytes the storage holds at the indexed position
        L3, E3, *_ = build_fs_indexes(case, root, tag="-fs")
        try:
            dfs = DataFileSystem(L3)
            for k in rng.sample(sorted(content), min(4, len(content))):
                data, disk = content[k]
                path = "/" + "/".join(k)
                with open(disk, "rb") as f:
                    on_disk = f.read()
                kk, got = safe_call(lambda: dfs.cat_file(path))
                ctx.oracle(kk == "ok" and got == data == on_disk, caseq,
                           {"why": "adaptor content differs from the bytes the FileStorage holds for that key", "path": path,
                            "got": str(got)[:80], "expected": data.decode()}, signature=sig)
                ki, inf = safe_call(lambda: dfs.info(path))
                ctx.oracle(ki == "ok" and inf["type"] == "file" and inf.get("size") == len(data), caseq,
                           {"why": "adaptor metadata differs from the index / the stored file", "path": path, "info": str(inf)[:120]}, signature=sig)
            for d_ in lazydirs[:2]:
                kl, names = safe_call(lambda: sorted(os.path.basename(p.rstrip("/")) for p in dfs.ls("/" + "/".join(d_), detail=False)))
                exp = sorted({k[len(d_)] for k in flat if k[: len(d_)] == d_ and len(k) > len(d_)})
                ctx.oracle(kl == "ok" and names == exp, caseq, {"why": "adaptor listing of a FileStorage-backed directory differs from the index",
                                                                "dir": "/".join(d_), "got": names, "expected": exp}, signature=sig)
                kf, found = safe_call(lambda: sorted(dfs.find("/" + "/".join(d_))))
                expf = sorted("/" + "/".join(k) for k, v in flat.items() if not v[0] and k[: len(d_)] == d_)
                ctx.oracle(kf == "ok" and found == expf, caseq, {"why": "adaptor find() under a FileStorage-backed directory differs from the index",
                                                                 "dir": "/".join(d_), "got": found, "expected": expf}, signature=sig)
        finally:
            for idx in (L3, E3):
                safe_call(idx.close)
    finally:
        for idx in (L, E):
            safe_call(idx.close)


# ---------------------------------------------------------------------------------------------------------------------
# several adaptors alive in one process: revisions of one dataset (usually sharing one cache), lazy / explicit, views
# ---------------------------------------------------------------------------------------------------------------------
def gen_adaptors_case(rng):
    """2-3 revisions of one dataset (a directory object at depth 1-2 plus 0-2 files next to it; a later revision rewrites,
    drops and adds files), usually all stored in ONE object database as the revisions of a project are; per revision the lazy
    index and the one listing the files explicitly; 3-7 adaptors, each over one of these indexes or over a view of it with
    a random prefix-closed filter, created in a random order, either all up front or one at a time"""
    dirkey = rng.choice([("data",), ("data", "sub"), ("d",), ("proj", "data")])
    pool = [("g%d" % i,) for i in range(4)] + [("s", "g%d" % i) for i in range(3)] + [("s", "t", "g0",), ("t", "g1")]
    outside = [("top0",), ("top1",), ("other", "f0")]
    cur_dir = {r: "rev0-%d" % rng.randrange(1000) for r in rng.sample(pool, rng.randrange(1, 5))}
    cur_out = {k: "rev0-out-%d" % rng.randrange(1000) for k in rng.sample(outside, rng.randrange(0, 3))}
    revisions = []
    for ri in range(rng.randrange(2, 4)):
        if ri:
            if rng.random() < 0.12:
                pass                                           # a revision that changes nothing: same hashes, other index
            else:
                cur_dir = {r: (v if rng.random() < 0.35 else "rev%d-%d" % (ri, rng.randrange(1000))) for r, v in cur_dir.items()}
                cur_out = {k: (v if rng.random() < 0.5 else "rev%d-out-%d" % (ri, rng.randrange(1000))) for k, v in cur_out.items()}
                if len(cur_dir) > 1 and rng.random() < 0.3:
                    del cur_dir[rng.choice(sorted(cur_dir))]
                if rng.random() < 0.3:
                    cur_dir.setdefault(rng.choice(pool), "rev%d-new-%d" % (ri, rng.randrange(1000)))
        revisions.append({"dir": {"/".join(r): v for r, v in sorted(cur_dir.items())},
                          "files": {"/".join(k): v for k, v in sorted(cur_out.items())}})
    adaptors = []
    for _ in range(rng.randrange(3, 8)):
        ri = rng.randrange(len(revisions))
        spec = {"rev": ri, "form": rng.choice(["lazy", "lazy", "explicit"]), "accept": None,
                "index_first": rng.random() < 0.3}
        if rng.random() < 0.45:
            rev = revisions[ri]
            keys = [dirkey + split(r) for r in rev["dir"]] + [split(k) for k in rev["files"]]
            chosen = [k for k in keys if rng.random() < 0.5]
            spec["accept"] = [list(a) for a in sorted({k[:i] for k in chosen for i in range(1, len(k) + 1)})]
        adaptors.append(spec)
    return {"adaptors_in_one_process": True, "dirkey": list(dirkey), "revisions": revisions, "adaptors": adaptors,
            "shared_odb": rng.random() < 0.8, "sqlite": rng.random() < 0.3, "explicit_dirs": rng.random() < 0.5,
            "create_all_first": rng.random() < 0.5}


def check_adaptors(ctx, case):
    """the adaptor clause of C17 with more than one adaptor in the process: whatever other adaptors exist, each one lists
    exactly the files of the index / view it was built over, reports their hashes and serves the bytes storage holds"""
    from dvc_data.fs import DataFileSystem
    from dvc_data.hashfile.hash_info import HashInfo
    from dvc_data.hashfile.meta import Meta
    from dvc_data.index.index import DataIndex, DataIndexEntry, ObjectStorage
    from dvc_data.index.view import DataIndexView

    root = ctx.mkdtemp()
    dirkey = tuple(case["dirkey"])
    shared = stores.make_odb(os.path.join(root, "odb"), local=True)
    revs = []
    for ri, rev in enumerate(case["revisions"]):
        odb = shared if case["shared_odb"] else stores.make_odb(os.path.join(root, "odb%d" % ri), local=True)
        sub = {split(r): v.encode() for r, v in rev["dir"].items()}
        out = {split(k): v.encode() for k, v in rev["files"].items()}
        ents = {r: md5hex(c) for r, c in sub.items()}
        for c in list(sub.values()) + list(out.values()):
            stores.put_raw(odb.path, md5hex(c), c)
        raw = gen.canonical_listing(ents)
        toid = md5hex(raw) + ".dir"
        stores.put_raw(odb.path, toid, raw)
        content = {dirkey + r: c for r, c in sub.items()}
        content.update(out)
        revs.append({"odb": odb, "sub": sub, "out": out, "ents": ents, "toid": toid, "content": content})

    indexes = {}

    def index_of(ri, form):
        if (ri, form) in indexes:
            return indexes[(ri, form)]
        rev = revs[ri]
        idx = DataIndex.open(os.path.join(root, "rev%d-%s.db" % (ri, form))) if case["sqlite"] else DataIndex()
        idx.storage_map.add_cache(ObjectStorage((), rev["odb"]))
        dirs = {k[:i] for k in list(rev["out"]) + [dirkey] for i in range(1, len(k))}
        for k, c in rev["out"].items():
            idx[k] = DataIndexEntry(key=k, meta=Meta(), hash_info=HashInfo("md5", md5hex(c)))
        if form == "lazy":
            idx[dirkey] = DataIndexEntry(key=dirkey, meta=Meta(isdir=True), hash_info=HashInfo("md5", rev["toid"]))
        else:
            idx[dirkey] = DataIndexEntry(key=dirkey, meta=Meta(isdir=True), hash_info=HashInfo("md5", rev["toid"]), loaded=True)
            for r, h in rev["ents"].items():
                idx[dirkey + r] = DataIndexEntry(key=dirkey + r, meta=Meta(md5=h), hash_info=HashInfo("md5", h))
                for i in range(1, len(r)):
                    idx[dirkey + r[:i]] = DataIndexEntry(key=dirkey + r[:i], meta=Meta(isdir=True), loaded=True)
        if case["explicit_dirs"]:
            for d in sorted(dirs):
                idx[d] = DataIndexEntry(key=d, meta=Meta(isdir=True), loaded=True)
        indexes[(ri, form)] = idx
        return idx

    def target_of(spec):
        idx = index_of(spec["rev"], spec["form"])
        if spec["accept"] is None:
            return idx
        acc = {tuple(a) for a in spec["accept"]}
        return DataIndexView(idx, lambda kk: kk in acc)

    distinct = {(s["rev"], s["form"], None if s["accept"] is None else tuple(map(tuple, s["accept"]))) for s in case["adaptors"]}
    ctx.case(case, nontrivial=len(distinct) >= 2)
    ctx.count("family:several-adaptors")
    ctx.count("several-adaptors-odb:%s" % ("shared" if case["shared_odb"] else "one-per-revision"))
    ctx.count("several-adaptors-creation:%s" % ("all-up-front" if case["create_all_first"] else "one-at-a-time"))
    sig = "several-adaptors-in-one-process"
    path_of = lambda k: "/" + "/".join(k)  # noqa: E731

    def examine(no, spec, target, dfs):
        ctx.count("adaptor-over:%s-%s" % (spec["form"], "index" if spec["accept"] is None else "view"))
        rev = revs[spec["rev"]]
        acc = None if spec["accept"] is None else {tuple(a) for a in spec["accept"]}
        exp = {path_of(k): md5hex(c) for k, c in rev["content"].items() if acc is None or k in acc}
        who = {"adaptor_no": no, "revision": spec["rev"], "form": spec["form"], "filter": spec["accept"]}

        def own():
            return {path_of(k): e.hash_info.value for k, e in target.iteritems() if not (e.meta and e.meta.isdir)}

        ko = idx_files = None
        if spec["index_first"]:
            ko, idx_files = safe_call(own)
        kf, got = safe_call(lambda: {p: i.get("md5") for p, i in dfs.find("/", detail=True).items()})
        if not spec["index_first"]:
            ko, idx_files = safe_call(own)
        ctx.oracle(ko == "ok" and idx_files == exp, case,
                   {**who, "why": "the index / view itself does not hold exactly the files of its revision that its filter accepts",
                    "holds": idx_files, "expected": exp}, signature=sig)
        ctx.oracle(kf == "ok" and got == exp, case,
                   {**who, "why": "the adaptor's listing / hashes differ from the index (view) it was built over",
                    "adaptor": got, "index": idx_files, "expected": exp}, signature=sig)
        for p in ctx.rng.sample(sorted(exp), min(3, len(exp))):
            data = rev["content"][tuple(p[1:].split("/"))]
            kc, b = safe_call(lambda: dfs.cat_file(p))
            ctx.oracle(kc == "ok" and b == data, case,
                       {**who, "why": "the adaptor serves other bytes than storage holds for the entry of its own index", "path": p,
                        "got": str(b)[:60], "expected": data.decode()}, signature=sig)
            ki, inf = safe_call(lambda: dfs.info(p))
            ctx.oracle(ki == "ok" and inf["type"] == "file" and inf.get("md5") == md5hex(data), case,
                       {**who, "why": "adaptor metadata differs from the entry of its own index", "path": p, "info": str(inf)[:120]}, signature=sig)
        if acc is None or dirkey in acc:
            names = sorted({k[len(dirkey)] for k in rev["content"] if k[: len(dirkey)] == dirkey and len(k) > len(dirkey)
                            and (acc is None or k[: len(dirkey) + 1] in acc)})
            kl, ls = safe_call(lambda: sorted(os.path.basename(p.rstrip("/")) for p in dfs.ls(path_of(dirkey), detail=False)))
            ctx.oracle(kl == "ok" and ls == names, case,
                       {**who, "why": "the adaptor's listing of the directory differs from its own index (view)", "got": ls, "expected": names}, signature=sig)

    try:
        if case["create_all_first"]:
            made = []
            for spec in case["adaptors"]:
                t = target_of(spec)
                made.append((spec, t, DataFileSystem(t)))
            for no, (spec, t, dfs) in enumerate(made):
                examine(no, spec, t, dfs)
        else:
            for no, spec in enumerate(case["adaptors"]):
                t = target_of(spec)
                examine(no, spec, t, DataFileSystem(t))
    finally:
        for idx in indexes.values():
            safe_call(idx.close)


# ---------------------------------------------------------------------------------------------------------------------
# one entry, several storage roles: cache / remote object stores next to `data` FileStorages (import sources, workspaces)
# ---------------------------------------------------------------------------------------------------------------------
def gen_roles_case(rng):
    """an index that pins 1-3 files and one directory (held as a directory object at depth 1-2) by hash, with storages of
    several roles registered for the same keys: a cache and / or a remote object store at () or at a prefix, each holding an
    independently chosen subset of the pinned objects, and `data` FileStorages (the places the paths were imported from)
    registered per file or at the prefix of the explicit files, whose current bytes are the pinned ones, have moved on since,
    or are gone"""
    dirkey = rng.choice([("dir",), ("imp", "dir"), ("d",)])
    pool = [("x",), ("g1",), ("sub", "y"), ("sub", "z"), ("s", "t", "w")]
    inner = {dirkey + r: "pinned-%d-%s" % (rng.randrange(1000), "p" * rng.randrange(0, 9)) for r in rng.sample(pool, rng.randrange(1, 4))}
    grp = rng.choice([(), ("a",), ("ws", "in")])           # the explicit files live under this (possibly empty) prefix
    outer = {grp + ("f%d" % i,): "pinned-file-%d-%s" % (rng.randrange(1000), "q" * rng.randrange(0, 9)) for i in rng.sample(range(4), rng.randrange(1, 4))}
    roles = {"cache": rng.random() < 0.85, "remote": rng.random() < 0.6}
    if not (roles["cache"] or roles["remote"]):
        roles[rng.choice(["cache", "remote"])] = True
    # where the object stores are registered: () or (sometimes) the two halves of the index separately
    split_at = {r: (rng.random() < 0.25) for r in roles}
    data_kind = lambda: rng.choice([None, None, "same", "moved", "moved", "gone"])  # noqa: E731
    files = {}
    for k, v in sorted({**inner, **outer}.items()):
        same_size = rng.random() < 0.5
        files["/".join(k)] = {
            "pinned": v, "below_dir": k in inner,
            "cache": rng.random() < 0.6, "remote": rng.random() < 0.6,
            "data": data_kind(),
            # what the import source holds now (same length as the pinned bytes half of the time)
            "now": ("MOVED-" + v)[: len(v)] if same_size else "upstream has moved on: %d" % rng.randrange(1000),
        }
    for f in files.values():
        if f["data"] == "moved" and f["now"] == f["pinned"]:
            f["now"] = f["now"] + "!"
    # the explicit files share ONE data storage registered at their prefix (a workspace directory) instead of one per file
    group_data = bool(grp) and rng.random() < 0.4
    return {"storage_roles": True, "dirkey": list(dirkey), "group": list(grp), "files": files, "roles": roles,
            "split_at": split_at, "dirobj_in": rng.choice(["cache", "remote", "both"]), "group_data": group_data,
            "sqlite": rng.random() < 0.3, "explicit_dirs": rng.random() < 0.5,
            "existence_index": rng.random() < 0.25}


def check_roles(ctx, case):
    """the adaptor clause of C17 when more than one storage could serve a path: metadata is the index's, and the contents
    are the bytes of the object the metadata names whenever a registered object store holds it - whatever else (an import
    source that has moved on, a workspace copy) is registered for the same key; lazy index = explicit index = loaded index"""
    from dvc_objects.fs.local import LocalFileSystem

    from dvc_data.fs import DataFileSystem
    from dvc_data.hashfile.hash_info import HashInfo
    from dvc_data.hashfile.meta import Meta
    from dvc_data.index.index import DataIndex, DataIndexEntry, FileStorage, ObjectStorage

    from .util import write_file

    root = ctx.mkdtemp()
    dirkey, grp = tuple(case["dirkey"]), tuple(case["group"])
    files = {split(k): f for k, f in case["files"].items()}
    pinned = {k: f["pinned"].encode() for k, f in files.items()}
    roles = dict(case["roles"])
    odbs = {r: stores.make_odb(os.path.join(root, r), local=True) for r in ("cache", "remote")}
    ents = {k[len(dirkey):]: md5hex(pinned[k]) for k, f in files.items() if f["below_dir"]}
    raw = gen.canonical_listing(ents)
    toid = md5hex(raw) + ".dir"
    want_dir = case["dirobj_in"]
    for r in ("cache", "remote"):
        for k, f in files.items():
            if f[r]:
                stores.put_raw(odbs[r].path, md5hex(pinned[k]), pinned[k])
    # the directory object sits in a registered object store (otherwise nothing below it can be named at all)
    holders = [r for r in ("cache", "remote") if roles[r] and want_dir in (r, "both")] or [r for r in ("cache", "remote") if roles[r]][:1]
    for r in holders:
        stores.put_raw(odbs[r].path, toid, raw)
    # import sources / workspace copies as they are now
    src = os.path.join(root, "upstream")
    os.makedirs(src)
    ws = os.path.join(root, "workspace")
    os.makedirs(ws)
    grouped = {k for k, f in files.items() if case["group_data"] and not f["below_dir"]}
    disk = {}                                     # key -> (path, bytes or None) of the data storage registered for it
    for k, f in files.items():
        if f["data"] is None:
            continue
        p = os.path.join(ws, *k[len(grp):]) if k in grouped else os.path.join(src, "_".join(k))
        now = None if f["data"] == "gone" else (pinned[k] if f["data"] == "same" else f["now"].encode())
        if now is not None:
            write_file(p, now)
        disk[k] = (p, now)

    def make(form, tag):
        idx = DataIndex.open(os.path.join(root, "roles-%s.db" % tag)) if case["sqlite"] else DataIndex()
        for k, f in files.items():
            if f["below_dir"]:
                if form == "explicit":
                    idx[k] = DataIndexEntry(key=k, meta=Meta(md5=md5hex(pinned[k])), hash_info=HashInfo("md5", md5hex(pinned[k])))
                    for i in range(len(dirkey) + 1, len(k)):
                        idx[k[:i]] = DataIndexEntry(key=k[:i], meta=Meta(isdir=True), loaded=True)
            else:
                idx[k] = DataIndexEntry(key=k, meta=Meta(), hash_info=HashInfo("md5", md5hex(pinned[k])))
        idx[dirkey] = DataIndexEntry(key=dirkey, meta=Meta(isdir=True), hash_info=HashInfo("md5", toid),
                                     loaded=True if form == "explicit" else None)
        if case["explicit_dirs"]:
            for d in sorted({k[:i] for k in list(files) + [dirkey] for i in range(1, len(k))} - {dirkey}):
                if not (d[: len(dirkey)] == dirkey):
                    idx[d] = DataIndexEntry(key=d, meta=Meta(isdir=True), loaded=True)
        for r, add in (("cache", idx.storage_map.add_cache), ("remote", idx.storage_map.add_remote)):
            if not roles[r]:
                continue
            kw = {"index": DataIndex()} if (case["existence_index"] and r == "remote") else {}
            if case["split_at"][r] and grp:
                add(ObjectStorage(dirkey[:1], odbs[r], **kw))          # the same store, registered for each half of the index
                add(ObjectStorage(grp[:1], odbs[r], **kw))
            else:
                add(ObjectStorage((), odbs[r], **kw))
        if grouped:
            idx.storage_map.add_data(FileStorage(grp, LocalFileSystem(), ws))
        for k, (p, _) in disk.items():
            if k not in grouped:
                idx.storage_map.add_data(FileStorage(k, LocalFileSystem(), p))
        return idx

    held = {k: any(roles[r] and f[r] for r in ("cache", "remote")) for k, f in files.items()}
    ctx.case(case, nontrivial=any(held[k] and files[k]["data"] == "moved" for k in files))
    ctx.count("family:storage-roles")
    ctx.count("storage-roles-registered:%s" % "+".join(r for r in ("cache", "remote") if roles[r]))
    for k, f in files.items():
        ctx.count("storage-roles-entry:%s/data-%s" % ("object-held" if held[k] else "object-nowhere", f["data"]))
    sig = "several-storage-roles-for-one-entry"
    outcomes = {}
    made = []
    try:
        for form in ("lazy", "explicit", "lazy-then-loaded"):
            idx = make("explicit" if form == "explicit" else "lazy", form)
            made.append(idx)
            if form == "lazy-then-loaded":
                kl, _ = safe_call(idx.load)
                ctx.oracle(kl == "ok", case, {"why": "load() of the index fails", "form": form, "error": str(_)[:120]}, signature=sig)
            dfs = DataFileSystem(idx)
            kf, found = safe_call(lambda: sorted(dfs.find("/")))
            expf = sorted("/" + "/".join(k) for k in files)
            ctx.oracle(kf == "ok" and found == expf, case, {"why": "the adaptor does not list exactly the files the index pins",
                                                            "form": form, "got": found, "expected": expf}, signature=sig)
            out = outcomes[form] = {}
            for k in sorted(files):
                f, c, h = files[k], pinned[k], md5hex(pinned[k])
                path = "/" + "/".join(k)
                who = {"form": form, "path": path, "object_in": [r for r in ("cache", "remote") if roles[r] and f[r]],
                       "data_storage": f["data"]}
                ki, inf = safe_call(lambda: dfs.info(path))
                ctx.oracle(ki == "ok" and inf["type"] == "file" and inf.get("md5") == h, case,
                           {**who, "why": "adaptor metadata differs from the hash the index pins", "info": str(inf)[:120], "pinned_md5": h}, signature=sig)
                kc, got = safe_call(lambda: dfs.cat_file(path), expected=(FileNotFoundError,))

                def via_open():
                    with dfs.open(path, "rb") as fobj:
                        return fobj.read()

                def via_get():
                    dst = os.path.join(ctx.mkdtemp(), "out")
                    dfs.get_file(path, dst)
                    with open(dst, "rb") as fobj:
                        return fobj.read()

                ko, got_open = safe_call(via_open, expected=(FileNotFoundError,))
                kg, got_get = safe_call(via_get, expected=(FileNotFoundError,))
                out[path] = [got if kc == "ok" else str(got)[:40]]
                ctx.oracle((kc, got) == (ko, got_open) == (kg, got_get), case,
                           {**who, "why": "cat, open and get_file of one adaptor path disagree with each other",
                            "cat": str(got)[:60], "open": str(got_open)[:60], "get_file": str(got_get)[:60]}, signature=sig)
                if held[k]:
                    # a registered object store holds the object the metadata names: these are the bytes of that path
                    ctx.oracle(kc == "ok" and got == c, case,
                               {**who, "why": "the adaptor serves bytes that are not the object its own metadata (and the index) name for the path, "
                                              "although a registered object store holds that object",
                                "got": str(got)[:80], "got_md5": md5hex(got) if isinstance(got, bytes) else None,
                                "pinned": c.decode(), "pinned_md5": h}, signature=sig)
                elif k in disk and disk[k][1] is not None:
                    # no object store has it: the only bytes any registered storage holds for the key
                    ctx.oracle(kc == "ok" and got == disk[k][1], case,
                               {**who, "why": "the adaptor does not serve the only bytes a registered storage holds for the path",
                                "got": str(got)[:80], "held": disk[k][1].decode()}, signature=sig)
                else:
                    ctx.oracle(kc != "ok", case, {**who, "why": "the adaptor serves bytes for a path no registered storage holds", "got": str(got)[:80]}, signature=sig)
        ctx.oracle(outcomes["lazy"] == outcomes["explicit"] == outcomes["lazy-then-loaded"], case,
                   {"why": "the adaptor over the lazy index serves other contents than over the explicit / loaded index",
                    "differs": [p for p in outcomes["lazy"] if not (outcomes["lazy"][p] == outcomes["explicit"].get(p) == outcomes["lazy-then-loaded"].get(p))][:4]},
                   signature=sig)
    finally:
        for idx in made:
            safe_call(idx.close)


def fs_key_table(ctx):
    """FsPath.getKey ~ DataFileSystem._get_key, exhaustively over every path spelling of up to 6 characters over {a, b, '.', '/'}
    (5461 strings: absolute and relative, empty, runs of slashes, '.' and '..' components, '..' above the root)"""
    import itertools

    from dvc_data.fs import DataFileSystem
    from dvc_data.index import DataIndex

    dfs = DataFileSystem(index=DataIndex())
    paths = [""]
    for n in range(1, 7):
        paths += ["".join(t) for t in itertools.product("ab./", repeat=n)]
    impl = [list(dfs._get_key(p)) for p in paths]
    model = ctx.driver.ask({"op": "fs_key", "paths": paths})["keys"]
    ctx.evaluations += len(paths)
    ctx.exhaustive["DataFileSystem._get_key over %d path spellings (length <= 6 over {a, b, '.', '/'})" % len(paths)] = True
    bad = [i for i, (a, b) in enumerate(zip(impl, model)) if a != b]
    if bad:
        i = bad[0]
        ctx.corr("FsPath.getKey~DataFileSystem._get_key (table)", {"path": paths[i]}, impl[i], model[i])
    else:
        ctx.traces += len(paths)
    # the property itself on the implementation: the key read from the spelled-out key is that key
    for k in impl:
        if k:
            ctx.oracle(list(dfs._get_key("/" + "/".join(k))) == k, {"key": k}, {"why": "the adaptor does not read back the key it spelled out"})


def run(ctx):
    ctx.rule = (
        "indexes mixing explicit files, explicit or implicit directories and 1-2 unloaded directory objects (nested listings, depth "
        "<= 3), in memory and SQLite-backed; 6-19 random queries per index (lookup incl. below unloaded directories and missing keys, "
        "iteration under a prefix, listing, info, views with random prefix-closed filters) run against the lazy index, the "
        "explicitly expanded index (oracle) and the model; load() twice; hash-level diff; adaptor cat/info/ls. non-trivial = a "
        "query hits a key below an unloaded directory. Second family (oracle only): unloaded directory entries backed by 1-2 "
        "FileStorages (directory trees on disk) registered at keys of depth 0-2 with every path origin (prefix default / = key / "
        "partial / explicit ()), explicit files next to them, decoy files with the same names at the positions a shifted path "
        "would resolve to; lookup / iteration / listing / info against the explicitly expanded index with the same storages, "
        "load() twice, diff on kinds and sizes, adaptor cat/info/ls/find against the bytes on disk. Third family (oracle only): "
        "several adaptors alive in one process - 2-3 revisions of one dataset (a directory object at depth 1-2 and files next to "
        "it; later revisions rewrite / drop / add files), in one shared object database (80%) or one per revision, each revision as "
        "a lazy and as an explicitly expanded index (memory / SQLite); 3-7 adaptors over these indexes or over views of them with "
        "random prefix-closed filters, created all up front or one at a time: every adaptor's find / info / cat / ls must show "
        "exactly the files, hashes and bytes of the index or view it was built over. Fourth family (oracle only): several storage "
        "roles for one entry - an index pinning 1-3 files and a directory object by hash, a cache and / or remote object store "
        "(at () or per top-level prefix, remote optionally with an existence index) each holding an independent subset of the "
        "pinned objects, and `data` FileStorages (import sources per file, or one workspace directory for the explicit files) "
        "whose bytes are the pinned ones / have moved on / are gone; over the lazy, the explicit and the lazy-then-loaded index "
        "(memory / SQLite) the adaptor's find, info, cat = open = get_file: the bytes are those of the object the metadata names "
        "whenever a registered object store holds it, else the only bytes a registered storage holds, else FileNotFoundError. "
        "Fifth: the first family again with unloaded directory objects whose listing is EMPTY (the object `[]`) - as a sibling of "
        "the other entries, nested at depth 2-3, or as the only entry of the index; memory and SQLite (same oracles and model tie). Exhaustive: the adaptor's path -> key conversion over every spelling of up to 6 characters over {a, b, '.', '/'}"
    )
    ctx.assumptions = ["len() of an index before any access is not load-transparent and not part of the property"]
    root_key_cases(ctx)
    fs_key_table(ctx)
    for _ in range(ctx.n(110, 1500)):
        check(ctx, gen_case(ctx.rng))
    for _ in range(ctx.n(40, 400)):
        check_fs(ctx, gen_fs_case(ctx.rng))
    for _ in range(ctx.n(40, 400)):
        check_adaptors(ctx, gen_adaptors_case(ctx.rng))
    for _ in range(ctx.n(24, 300)):
        check_roles(ctx, gen_roles_case(ctx.rng))
    for i in range(ctx.n(18, 300)):
        check(ctx, gen_case(ctx.rng, empty=("sibling", "nested", "only")[i % 3]))


def search(ctx):
    for _ in range(1200):
        check(ctx, gen_case(ctx.rng))
        if ctx.rng.random() < 0.3:
            check_fs(ctx, gen_fs_case(ctx.rng))
        if ctx.rng.random() < 0.3:
            check_adaptors(ctx, gen_adaptors_case(ctx.rng))
        if ctx.rng.random() < 0.3:
            check_roles(ctx, gen_roles_case(ctx.rng))
        if ctx.rng.random() < 0.2:
            check(ctx, gen_case(ctx.rng, empty=ctx.rng.choice(["sibling", "nested", "only"])))


def replay(ctx, payload):
    run(ctx)
