"""Structured generators shared by the checks (all randomness from the ctx PRNG)."""
import os

from .util import md5hex, write_file

NAME_POOL = [
    "a", "b", "c", "data", "x.txt", "file", "z",
    "sp ace", "qu\"ote", "back\\slash", "new\nline", "tab\there", ".hidden", "x.dir", "é", "日本", "😀",
    "a.b.c", "notes..txt", "..hidden", "trail..", "-dash", "~tilde", "per%cent", "#hash", "UPPER", "0", "00", "same", "Same", "x" * 40,
]
DIR_POOL = ["d", "sub", "dir", "d.dir", "é dir", "deep", "a", "b", "x y", "q\\r", "v1..v2"]


def rand_name(rng, pool=NAME_POOL):
    if rng.random() < 0.85:
        return rng.choice(pool)
    while True:
        n = "".join(rng.choice("abcXYZ019 _-.é") for _ in range(rng.randrange(1, 9)))
        if n not in (".", ".."):
            return n


def rand_content(rng, pool=None):
    r = rng.random()
    if pool and r < 0.3:
        return rng.choice(pool)
    if r < 0.4:
        return b""
    if r < 0.55:
        return b"line1\r\nline2\r\n" + bytes(rng.choice(b"abc") for _ in range(rng.randrange(0, 5)))
    if r < 0.65:
        return b"\x00bin" + bytes(rng.randrange(256) for _ in range(rng.randrange(0, 20)))
    return bytes(rng.choice(b"abcdefgh\n") for _ in range(rng.randrange(1, 30)))


def rand_tree(rng, max_files=8, max_depth=3, allow_odd=True):
    """{key tuple: bytes}; no key is a proper prefix of another; >=1 file"""
    files = {}
    dirs = set()
    pool = []
    n = rng.randrange(1, max_files + 1)
    tries = 0
    while len(files) < n and tries < 100:
        tries += 1
        depth = rng.randrange(0, max_depth + 1)
        parts = []
        for _ in range(depth):
            parts.append(rng.choice(DIR_POOL[: 4 if not allow_odd else None]))
        parts.append(rand_name(rng, NAME_POOL if allow_odd else NAME_POOL[:7]))
        key = tuple(parts)
        # a path cannot be both file and directory
        if key in dirs or any(key[:i] in files for i in range(1, len(key))) or key in files:
            continue
        c = rand_content(rng, pool)
        pool.append(c)
        files[key] = c
        for i in range(1, len(key)):
            dirs.add(key[:i])
    return files


def materialize(root, files, rng=None, exec_keys=()):
    """write {key: bytes} under root (creation order permuted when rng is given)"""
    keys = list(files)
    if rng is not None:
        rng.shuffle(keys)
    os.makedirs(root, exist_ok=True)
    for k in keys:
        p = os.path.join(root, *k)
        write_file(p, files[k], mode=0o755 if k in exec_keys else None)


def canonical_listing(entries):
    """independent encoder of a directory listing: entries = {key: md5 hex}"""
    import json

    lst = sorted(({"md5": v, "relpath": "/".join(k)} for k, v in entries.items()), key=lambda e: e["relpath"])
    return json.dumps(lst, sort_keys=True).encode("utf-8")


def canonical_oid(entries):
    return md5hex(canonical_listing(entries)) + ".dir"


def tree_entries(files):
    return {k: md5hex(v) for k, v in files.items()}
