"""C07 — corrupted objects are detected and dropped, never served; intact ones unharmed
(db/__init__.py, db/local.py, diff.py, checkout.py, state.py)."""
import contextlib
import os
import stat

from . import gen, stores
from .c13 import stamp_of
from .util import md5hex, safe_call

TAMPERS = ["truncate", "append", "rewrite_same_len", "rewrite_diff_len", "replace_by_rename"]


def obj_path(odb, oid):
    return os.path.join(odb.path, oid[:2], oid[2:])


def snapshot(odb):
    out = {}
    for oid in stores.listing_of(odb.path):
        p = obj_path(odb, oid)
        with open(p, "rb") as f:
            b = f.read()
        out[oid] = [md5hex(b), stat.S_IMODE(os.stat(p).st_mode) == 0o444]
    return dict(sorted(out.items()))


def model_store(ans_store):
    return dict(sorted((o, [d, p]) for o, d, p in ans_store))


def tamper(rng, p, kind, delta):
    os.chmod(p, 0o644)
    clock = os.stat(p).st_mtime_ns + delta  # relative to the previous mtime: small deltas stay within the same second
    with open(p, "rb") as f:
        old = f.read()
    if kind == "truncate":
        new = old[: max(0, len(old) - 1)] if old else b"x"
        with open(p, "r+b") as f:
            f.truncate(len(new))
            if not old:
                f.write(new)
    elif kind == "append":
        new = old + b"~"
        with open(p, "ab") as f:
            f.write(b"~")
    elif kind == "rewrite_same_len":
        new = bytes((c + 1) % 256 for c in old) if old else b""
        with open(p, "r+b") as f:
            f.write(new)
    elif kind == "rewrite_diff_len":
        new = b"completely different " + old
        with open(p, "wb") as f:
            f.write(new)
    else:
        new = bytes((c + 3) % 256 for c in old) + b"r"
        with open(p + ".x", "wb") as f:
            f.write(new)
        os.replace(p + ".x", p)
    # visible in the stamp: bump the mtime by a sub-second or larger amount
    os.utime(p, ns=(clock, clock))
    return new


def run_history(ctx):
    from dvc_objects.errors import ObjectFormatError

    from dvc_data.hashfile import load
    from dvc_data.hashfile.checkout import CheckoutError, checkout
    from dvc_data.hashfile.hash_info import HashInfo
    from dvc_data.hashfile.state import State

    rng = ctx.rng
    root = ctx.mkdtemp()
    local = rng.random() < 0.6
    use_state = rng.random() < 0.7
    st = State(root_dir=root, tmp_dir=os.path.join(root, "tmp")) if use_state else None
    cfg = {"state": st} if st else {}
    odb = stores.make_odb(os.path.join(root, "odb"), local=local, **cfg)
    fs = stores.fs_local()
    src = os.path.join(root, "src")
    os.makedirs(src)
    clock = 1_700_000_000_000_000_000
    ops, expect, trace, viol = [], [], [], []
    contents = {}
    try:
        # objects: a few files and one directory object listing some of them
        for i in range(rng.randrange(2, 5)):
            b = gen.rand_content(rng) + b"#%d" % i
            contents[md5hex(b)] = b
        files = list(contents)
        tree_entries = {("n%d" % i,): f for i, f in enumerate(files[: rng.randrange(1, len(files) + 1)])}
        traw = stores.tree_bytes(tree_entries)
        toid = md5hex(traw) + ".dir"
        contents[toid] = traw
        for oid, b in contents.items():
            p = os.path.join(src, oid)
            with open(p, "wb") as f:
                f.write(b)
            odb.add(p, fs, oid)
            op = obj_path(odb, oid)
            ops.append({"op": "put", "oid": oid, "data": b.hex(), "stamp": stamp_of(op), "prot": stat.S_IMODE(os.stat(op).st_mode) == 0o444})
            expect.append(None)
            if use_state:
                ops.append({"op": "save", "oid": oid, "value": oid})
                expect.append(None)
        # once populated, the store is sometimes opened read-only (a shared / remote cache): integrity checks behave the same
        read_only = rng.random() < 0.25
        if read_only:
            odb.read_only = True
        ctx.count("history:read_only=%s" % read_only)
        tampered = {}
        for step in range(rng.randrange(3, 9)):
            r = rng.random()
            oid = rng.choice(list(contents))
            p = obj_path(odb, oid)
            if r < 0.35 and os.path.exists(p):
                kind = rng.choice(TAMPERS)
                new = tamper(rng, p, kind, rng.choice([1_000_000, 30_000_000, 400_000_000, 1_000_000_000, 2_500_000_000]))
                keep_prot = local and rng.random() < 0.2
                if keep_prot:
                    os.chmod(p, 0o444)
                tampered[oid] = new
                trace.append(["tamper", oid, kind, "protected" if keep_prot else "writable"])
                ops.append({"op": "put", "oid": oid, "data": new.hex(), "stamp": stamp_of(p), "prot": keep_prot})
                expect.append(None)
            elif r < 0.65:
                before = snapshot(odb)
                kind, res = safe_call(lambda: odb.check(oid), expected=(ObjectFormatError, FileNotFoundError))
                got = "ok" if kind == "ok" else res
                after = snapshot(odb)
                trace.append(["check", oid, got])
                ops.append({"op": "check", "oid": oid, "local": local})
                expect.append({"res": got, "store": after})
                _audit(viol, "check", oid, got, before, after, local)
            elif r < 0.85:
                q = [o for o in contents if rng.random() < 0.7] or [oid]
                before = snapshot(odb)
                kind, res = safe_call(lambda: sorted(odb.oids_exist(q)))
                after = snapshot(odb)
                trace.append(["oids_exist", q, res])
                if local:
                    ops.append({"op": "oids_exist", "oids": q, "local": True})
                    expect.append({"found": res if kind == "ok" else res, "store": after})
                    for o in q:
                        _audit(viol, "oids_exist", o, "ok" if (kind == "ok" and o in res) else "absent", before, after, local)
            elif r < 0.91 and not read_only:
                # an add of this object whose copy fails (the source is gone), issued as transfer() issues it (check_exists off):
                # whatever sits at the object's path is neither protected nor vouched for
                errs = []
                kind, res = safe_call(lambda: odb.add(os.path.join(root, "gone"), fs, oid, check_exists=False,
                                                      on_error=lambda o, e: errs.append(o)))
                after = snapshot(odb)
                trace.append(["failed_add", oid, sorted(errs) if kind == "ok" else res])
                ops.append({"op": "add_nocheck", "oid": oid, "data": None, "local": local})
                expect.append({"failed": sorted(errs) if kind == "ok" else res, "store": after})
            else:
                # checkout of the directory object: a corrupt unprotected member must never be materialised
                dest = os.path.join(root, "out%d" % step)
                before = snapshot(odb)
                kind, res = safe_call(lambda: checkout(dest, fs, load(odb, HashInfo("md5", toid)), odb, force=True, state=st),
                                      expected=(CheckoutError, ObjectFormatError, FileNotFoundError))
                after = snapshot(odb)
                trace.append(["checkout", kind if kind == "ok" else res])
                served = {}
                if os.path.isdir(dest):
                    for k, f in tree_entries.items():
                        fp = os.path.join(dest, *k)
                        if os.path.exists(fp):
                            with open(fp, "rb") as fh:
                                served[f] = md5hex(fh.read())
                for f, h in served.items():
                    trusted = local and before.get(f, [None, False])[1]
                    if h != f and not trusted:
                        viol.append({"why": "checkout materialised a corrupted object", "oid": f, "served_md5": h, "trace": trace[-3:]})
                for o in before:
                    trusted = local and before[o][1]
                    if before[o][0] == o.split(".")[0] and o not in after:
                        viol.append({"why": "checkout deleted an intact object", "oid": o})
                # resync the model with whatever the checkout's integrity checks did (drop / protect)
                for o in list(contents):
                    if o not in after:
                        ops.append({"op": "rm", "oid": o})
                        expect.append(None)
                    else:
                        pth = obj_path(odb, o)
                        with open(pth, "rb") as fh:
                            cur = fh.read()
                        ops.append({"op": "put", "oid": o, "data": cur.hex(), "stamp": stamp_of(pth), "prot": after[o][1]})
                        expect.append(None)
                        if use_state and after[o][0] == o.split(".")[0]:
                            ops.append({"op": "save", "oid": o, "value": o.split(".")[0]})
                            expect.append(None)
    finally:
        if st:
            st.close()
    case = {"local": local, "state": use_state, "history": trace}
    ctx.case(case, nontrivial=any(t[0] == "tamper" for t in trace))
    ctx.count("store=%s state=%s" % ("local" if local else "generic", use_state))
    for t in trace:
        ctx.count("op:" + t[0] + (":" + t[2] if t[0] == "tamper" else ""))
    for v in viol:
        ctx.oracle(False, case, v)
    ans = ctx.driver.ask({"op": "store_history", "ops": ops})
    if "results" not in ans:
        ctx.corr("Store model history", case, "ok", ans)
        return
    impl, model = [], []
    for e, o, r in zip(expect, ops, ans["results"]):
        if o["op"] == "check":
            impl.append(e)
            model.append({"res": r["res"], "store": model_store(r["store"])})
        elif o["op"] == "oids_exist":
            impl.append(e)
            model.append({"found": sorted(r["found"]), "store": model_store(r["store"])})
        elif o["op"] == "add_nocheck":
            impl.append(e)
            model.append({"failed": sorted(r["failed"]), "store": model_store(r["store"])})
    ctx.corr("Store.check/oidsExistLocal/addBatch~check()/oids_exist()/add() over a tamper history", case, impl, model)
    if len(ctx.samples) < 2:
        ctx.sample(case)


def _audit(viol, what, oid, got, before, after, local):
    """property oracle on one integrity query"""
    b = before.get(oid)
    if b is None:
        return
    intact = b[0] == oid.split(".")[0]
    trusted = local and b[1]
    if intact:
        if got != "ok" or oid not in after:
            viol.append({"why": "an intact object was rejected or deleted by " + what, "oid": oid, "result": got})
        elif local and not after[oid][1]:
            viol.append({"why": "a successful check left a local object writable", "oid": oid})
    elif not trusted:
        if got == "ok":
            viol.append({"why": "a corrupted, unprotected object was reported as valid by " + what, "oid": oid})
        if oid in after:
            viol.append({"why": "a corrupted, unprotected object was not deleted by " + what, "oid": oid})


VERIFY_ARGS = ["omitted", "none", "true"]


def run_verify_add(ctx, n):
    """a store configured to verify never retains a mismatching object after an add - however the caller states its own
    wish (verify left out, passed as None = "no opinion, the store's setting applies" as index/fetch.py forwards
    data.odb.verify of a remote whose key is unset, or True), and whether the add is issued directly or by transfer()
    from another store (check_exists off, batches, optional hard links)"""
    from dvc_data.hashfile.hash_info import HashInfo
    from dvc_data.hashfile.transfer import transfer

    rng = ctx.rng
    for _ in range(n):
        root = ctx.mkdtemp()
        local = rng.random() < 0.5
        with_state = rng.random() < 0.5
        cfg = {"verify": True}
        st = None
        if with_state:
            from dvc_data.hashfile.state import State

            st = State(root_dir=root, tmp_dir=os.path.join(root, "tmp"))
            cfg["state"] = st
        odb = stores.make_odb(os.path.join(root, "odb"), local=local, **cfg)
        fs = stores.fs_local()
        good = gen.rand_content(rng) + b"g"
        bad = good + b"CORRUPT"
        oid = md5hex(good)
        corrupt = rng.random() < 0.6
        route = "transfer" if rng.random() < 0.4 else "add"
        varg = rng.choice(VERIFY_ARGS if route == "add" else VERIFY_ARGS[1:])  # transfer() always states a value
        vkw = {} if varg == "omitted" else {"verify": None if varg == "none" else True}
        hardlink = rng.random() < 0.4
        protect_src = rng.random() < 0.5
        errs = []
        # a mismatching object is already sitting there (on the transfer route only in a local store: a generic one
        # answers the status query "present" from the name alone, no add is issued and the property is silent)
        pre = rng.random() < 0.3 and (route == "add" or local)
        if pre:
            stores.put_raw(odb.path, oid, bad)
        src_local = None
        if route == "add":
            p = os.path.join(root, "payload")
            with open(p, "wb") as f:
                f.write(bad if corrupt else good)
            # the source may be a write-protected file (an object of another cache, a protected workspace link) taken by hard link
            if protect_src:
                os.chmod(p, 0o444)
            kind, res = safe_call(lambda: odb.add(p, fs, oid, hardlink=hardlink, on_error=lambda o, e: errs.append(o), **vkw))
        else:
            # the source store holds the bytes under the name; a local source trusts them only when write-protected
            # (an unprotected mismatching object would be dropped from it by the status query - C11)
            src_local = rng.random() < 0.5
            sdb = stores.make_odb(os.path.join(root, "remote"), local=src_local)
            p = stores.put_raw(sdb.path, oid, bad if corrupt else good, mode=0o444 if (protect_src or (src_local and corrupt)) else None)

            def do_transfer():
                r = transfer(sdb, odb, {HashInfo("md5", oid)}, hardlink=hardlink, **vkw)
                errs.extend(sorted(h.value for h in r.failed))
                return sorted(h.value for h in r.transferred)

            kind, res = safe_call(do_transfer)
        if st:
            st.close()
        snap = snapshot(odb)
        case = {"verify_add": {"corrupt_source": corrupt, "mismatching_preexisting": pre, "local": local, "state": with_state,
                               "hardlink": hardlink, "source_mode": oct(os.stat(p).st_mode & 0o777), "route": route,
                               "verify_arg": varg, "source_store": None if src_local is None else ("local" if src_local else "generic")}}
        ctx.case(case, nontrivial=corrupt or pre)
        ctx.count("verify_add:corrupt=%s" % corrupt)
        ctx.count("verify_add:route=%s verify=%s" % (route, varg))
        ok = all(v[0] == o.split(".")[0] for o, v in snap.items())
        ctx.oracle(kind == "ok" and ok, case, {"why": "a verifying store retained a mismatching object", "store": snap, "result": res,
                                                "failed": errs})
        if corrupt and route == "transfer" and kind == "ok":
            ctx.oracle(oid not in res, case, {"why": "transfer into a verifying store reported a mismatching object as transferred",
                                              "transferred": res, "failed": errs})
        if not corrupt:
            ctx.oracle(oid in snap, case, {"why": "an intact object was not added", "store": snap, "result": res, "failed": errs})
        if route == "add" and not pre and kind == "ok":
            # correspondence with Store.add (effVerify + addVerify) on an empty store without hash-state rows
            req = {"op": "store_add", "local": local, "store_verify": True, "oid": oid, "data": (bad if corrupt else good).hex()}
            if varg != "omitted":
                req["verify_arg"] = None if varg == "none" else True
            ans = ctx.driver.ask(req)
            ctx.corr("Store.add~HashFileDB.add(verify=...) into a verifying store", case,
                     {"store": {o: [v[0], bool(v[1]) and local] for o, v in snap.items()}, "reported_failed": bool(errs)},
                     {"store": {o: [d, bool(pr)] for o, d, pr in ans.get("store", [])}, "reported_failed": ans.get("verdict") == "corrupt"})


def run_failed_add(ctx, n):
    """an add that fails (vanished or unreadable source, as transfer() issues it: check_exists=False) over a tampered,
    unprotected object: the failure must not turn the mismatching object into a valid one"""
    from dvc_objects.errors import ObjectFormatError

    rng = ctx.rng
    for _ in range(n):
        root = ctx.mkdtemp()
        local = rng.random() < 0.5
        with_state = rng.random() < 0.7
        cfg = {}
        st = None
        if with_state:
            from dvc_data.hashfile.state import State

            st = State(root_dir=root, tmp_dir=os.path.join(root, "tmp"))
            cfg["state"] = st
        odb = stores.make_odb(os.path.join(root, "odb"), local=local, **cfg)
        fs = stores.fs_local()
        good = gen.rand_content(rng) + b"g"
        oid = md5hex(good)
        src = os.path.join(root, "payload")
        with open(src, "wb") as f:
            f.write(good)
        odb.add(src, fs, oid)
        op = obj_path(odb, oid)
        os.chmod(op, 0o644)
        kind_t = rng.choice(["append", "rewrite_same_len", "truncate"])
        tamper(rng, op, kind_t, rng.choice([1_000_000, 30_000_000, 1_000_000_000]))
        tampered = open(op, "rb").read()
        how = rng.choice(["source_missing", "source_unreadable_dir"])
        bad_src = os.path.join(root, "gone") if how == "source_missing" else root
        errs = []
        kind, res = safe_call(lambda: odb.add(bad_src, fs, oid, check_exists=False, on_error=lambda o, e: errs.append(type(e).__name__)))
        case = {"failed_add": {"tamper": kind_t, "failure": how, "local": local, "state": with_state}}
        ctx.case(case, nontrivial=True)
        ctx.count("failed_add:%s" % how)

        def verdict():
            try:
                odb.check(oid)
                return "accepted"
            except (ObjectFormatError, FileNotFoundError) as e:
                return type(e).__name__

        k2, v = safe_call(verdict)
        k3, ex = safe_call(lambda: odb.exists(oid) if local else None)
        still = os.path.exists(op) and open(op, "rb").read() == tampered
        if st:
            st.close()
        ctx.oracle(not (tampered != good and still and (v == "accepted" or ex is True)), case,
                   {"why": "after a failed add a tampered (mismatching, previously unprotected) object is reported as valid",
                    "add": kind if kind != "ok" else errs, "check": v, "exists": ex, "mode": oct(os.stat(op).st_mode & 0o777) if os.path.exists(op) else None})


EDGE_ARRIVALS = ["protected", "chmod_refused", "unprotected_after", "raw", "absent"]
EDGE_QUERIES = ["check", "exists", "oids_exist", "add", "checkout"]
WRITABLE_MODES = [0o644, 0o664, 0o600, 0o666, 0o640, 0o400]


def edge_content(rng):
    """object contents at the boundaries of "size": nothing at all, a single byte, more than one read buffer, ordinary"""
    r = rng.random()
    if r < 0.35:
        return b""
    if r < 0.55:
        return rng.choice([b"\n", b"\x00", b"a", b" "])
    if r < 0.65:
        return bytes([rng.randrange(256)]) * rng.choice([65536, 65537, 1 << 20])
    return gen.rand_content(rng) + b"e"


@contextlib.contextmanager
def chmod_refused(under):
    """a file system that refuses to change modes below `under` (Samba, a shared cache owned by somebody else - the NOTE
    in LocalHashFileDB.protect): os.chmod is wrapped from the harness process for the duration of one library call"""
    real = os.chmod
    base = os.path.join(under, "")

    def refusing(path, *a, **kw):
        if isinstance(path, (str, os.PathLike)) and os.fspath(path).startswith(base):
            raise PermissionError(1, "Operation not permitted (injected)", os.fspath(path))
        return real(path, *a, **kw)

    os.chmod = refusing
    try:
        yield
    finally:
        os.chmod = real


def run_unprotected_intact(ctx, n):
    """the "intact ones unharmed" half on objects that are complete but NOT write-protected: a local store trusts only
    mode 0o444, so everything else goes through the re-hash - which must accept them whatever their size (the empty file's
    object is a legal zero-length object), keep them and make them read-only.  How an intact object comes to be writable:
    the add ran where chmod is refused, somebody reset the mode afterwards, it was placed by hand / by an add interrupted
    before protecting, or it is being added right now into a store that verifies.  Oracle only."""
    from dvc_objects.errors import ObjectFormatError

    from dvc_data.hashfile import load
    from dvc_data.hashfile.checkout import CheckoutError, checkout
    from dvc_data.hashfile.hash_info import HashInfo
    from dvc_data.hashfile.state import State

    rng = ctx.rng
    for _ in range(n):
        root = ctx.mkdtemp()
        local = rng.random() < 0.75
        use_state = rng.random() < 0.3  # opening a hash-state cache dominates the cost of a case
        verify_store = rng.random() < 0.4
        st = State(root_dir=root, tmp_dir=os.path.join(root, "tmp")) if use_state else None
        cfg = {"state": st} if st else {}
        if verify_store:
            cfg["verify"] = True
        odb = stores.make_odb(os.path.join(root, "odb"), local=local, **cfg)
        fs = stores.fs_local()
        src = os.path.join(root, "src")
        os.makedirs(src)
        contents = {}
        for _i in range(rng.randrange(1, 4)):
            b = edge_content(rng)
            contents[md5hex(b)] = b
        files = list(contents)
        tree_entries = {("n%d" % i,): rng.choice(files) for i in range(rng.randrange(1, 4))}
        traw = stores.tree_bytes(tree_entries)
        toid = md5hex(traw) + ".dir"
        contents[toid] = traw
        target = rng.choice(files + [toid] if rng.random() < 0.15 else files)
        query = rng.choice(EDGE_QUERIES if local else [q for q in EDGE_QUERIES if q != "exists"])
        arrival = {}
        viol = []
        setup_failed = None
        try:
            for oid, b in contents.items():
                p = os.path.join(src, oid)
                with open(p, "wb") as f:
                    f.write(b)
                how = rng.choice(EDGE_ARRIVALS if oid == target else EDGE_ARRIVALS[:-1])
                if how == "absent":
                    query = "add"
                elif how == "raw":
                    stores.put_raw(odb.path, oid, b)
                else:
                    # the add that brings the object in is itself under the property (the store may be a verifying one)
                    errs0 = []
                    with chmod_refused(odb.path) if how == "chmod_refused" else contextlib.nullcontext():
                        k0, r0 = safe_call(lambda: odb.add(p, fs, oid, on_error=lambda o, e: errs0.append([o, type(e).__name__])))
                    if k0 != "ok" or errs0 or not os.path.isfile(obj_path(odb, oid)):
                        setup_failed = {"why": "an add of an intact object was rejected or did not leave it in the store", "oid": oid,
                                        "size": len(b), "chmod_refused": how == "chmod_refused", "result": r0, "failed": errs0}
                        arrival[oid] = how
                        break
                    if how == "unprotected_after":
                        os.chmod(obj_path(odb, oid), rng.choice(WRITABLE_MODES))
                arrival[oid] = how
            if setup_failed:
                case = {"unprotected_intact": {"local": local, "state": use_state, "verify_store": verify_store, "setup": True,
                                               "objects": [[o, len(contents[o]), arrival[o]] for o in arrival]}}
                ctx.case(case, nontrivial=True)
                ctx.count("unprotected_intact:setup_add_failed")
                ctx.oracle(False, case, setup_failed)
                continue
            # the file system may still refuse chmod when the query runs: then nothing can be made read-only
            refused_q = arrival[target] == "chmod_refused" and rng.random() < 0.3
            guard = chmod_refused(odb.path) if refused_q else contextlib.nullcontext()
            can_protect = local and not refused_q
            before = snapshot(odb)
            op = obj_path(odb, target)
            with guard:
                if query == "check":
                    kind, res = safe_call(lambda: odb.check(target), expected=(ObjectFormatError, FileNotFoundError))
                    got = "ok" if kind == "ok" else res
                    after = snapshot(odb)
                    _audit(viol, "check", target, got, before, after, can_protect)
                elif query == "exists":
                    kind, res = safe_call(lambda: odb.exists(target))
                    got = "ok" if (kind == "ok" and res is True) else ("absent" if kind == "ok" else res)
                    after = snapshot(odb)
                    _audit(viol, "exists", target, got, before, after, can_protect)
                elif query == "oids_exist":
                    q = [o for o in contents if o == target or rng.random() < 0.6]
                    kind, res = safe_call(lambda: sorted(odb.oids_exist(q)))
                    got = res
                    after = snapshot(odb)
                    if local:
                        for o in q:
                            _audit(viol, "oids_exist", o, "ok" if (kind == "ok" and o in res) else "absent", before, after, can_protect)
                elif query == "add":
                    # (re-)adding the same intact bytes; the store verifies by configuration or because the caller says so
                    errs = []
                    vkw = {} if verify_store and rng.random() < 0.5 else {"verify": True}
                    kind, res = safe_call(lambda: odb.add(os.path.join(src, target), fs, target,
                                                          on_error=lambda o, e: errs.append([o, type(e).__name__]), **vkw))
                    got = [kind if kind == "ok" else res, errs]
                    after = snapshot(odb)
                    if kind != "ok" or errs:
                        viol.append({"why": "a verifying add of an intact object was rejected", "oid": target, "result": got})
                    if target not in after or after[target][0] != target.split(".")[0]:
                        viol.append({"why": "a verifying add of an intact object did not leave it in the store", "oid": target, "result": got})
                    elif can_protect and not after[target][1]:
                        viol.append({"why": "a verifying add left a local object writable", "oid": target})
                else:
                    dest = os.path.join(root, "out")
                    kind, res = safe_call(lambda: checkout(dest, fs, load(odb, HashInfo("md5", toid)), odb, force=True, state=st),
                                          expected=(CheckoutError, ObjectFormatError, FileNotFoundError))
                    got = kind if kind == "ok" else res
                    after = snapshot(odb)
                    if kind != "ok":
                        viol.append({"why": "checkout of a directory all of whose objects are intact failed", "result": got})
                    for k, f in tree_entries.items():
                        fp = os.path.join(dest, *k)
                        served = None
                        if os.path.isfile(fp):
                            with open(fp, "rb") as fh:
                                served = md5hex(fh.read())
                        if served != f:
                            viol.append({"why": "checkout did not materialise an intact object", "name": k[0], "oid": f, "served_md5": served})
            for o, bb in before.items():
                if bb[0] == o.split(".")[0] and o not in after:
                    viol.append({"why": "an intact object was deleted by " + query, "oid": o, "size": len(contents[o]),
                                 "was_protected": bb[1]})
        finally:
            if st:
                st.close()
        case = {"unprotected_intact": {"local": local, "state": use_state, "verify_store": verify_store, "query": query,
                                       "target": target, "chmod_refused_at_query": refused_q,
                                       "objects": [[o, len(contents[o]), arrival[o]] for o in contents], "result": got}}
        ctx.case(case, nontrivial=arrival[target] != "protected" or not local)
        ctx.count("unprotected_intact:query=%s" % query)
        ctx.count("unprotected_intact:arrival=%s" % arrival[target])
        ctx.count("unprotected_intact:target_size=%s" % ("0" if not contents[target] else "1" if len(contents[target]) == 1 else ">1"))
        for v in viol:
            ctx.oracle(False, case, v)


def run(ctx):
    ctx.rule = (
        "stores of both classes with 2-4 file objects and a directory object, hash-state cache absent / warm (entry saved by add); "
        "histories of 3-8 steps of tampering (truncate, append, rewrite with same or different length, replace by rename; mode "
        "left writable or re-protected; mtime moved forward by 1 ms to 2.5 s relative to the previous one), check(), oids_exist(), and forced checkout of the "
        "directory object before and after tampering; verifying add with corrupt sources and mismatching pre-existing objects, the caller's verify left out / None / True, issued directly or by transfer() from a generic or local (write-protected) source store, with and without hard links; adds that fail (source gone / unreadable, check_exists off as transfer issues them) over a tampered object; "
        "intact objects of boundary sizes (empty, one byte, larger than a read buffer) that are not write-protected (chmod refused during the add and possibly still at query time, mode reset to a writable one, placed raw, or absent) queried by check / exists / oids_exist / verifying (re-)add / checkout of the directory listing them, stores with and without hash-state cache and verify. "
        "non-trivial = at least one tamper step"
    )
    ctx.assumptions = ["tampering is visible in (inode, mtime, size)", "a local object whose mode is exactly 0o444 is trusted without hashing (by design)"]
    for _ in range(ctx.n(140, 1800)):
        run_history(ctx)
    run_verify_add(ctx, ctx.n(80, 800))
    run_failed_add(ctx, ctx.n(40, 400))
    run_unprotected_intact(ctx, ctx.n(60, 700))


def search(ctx):
    for _ in range(1500):
        run_history(ctx)
    run_verify_add(ctx, 600)
    run_failed_add(ctx, 400)
    run_unprotected_intact(ctx, 700)


def replay(ctx, payload):
    run(ctx)
