"""Child process of the crash / concurrency checks (C15, C16).

usage: python -m harness.crash_child <root> <scenario> <crash_at> <mode> [trace_file]

Runs one scenario against stores under <root>.  Every store-mutating event is counted:
Python audit events (open-for-write, os.rename/replace, os.chmod, os.link, os.symlink,
os.remove/unlink, os.mkdir, os.rmdir, os.truncate) whose path lies in one of the store
directories, the data copy (shutil.copyfile, which has no audit event inside), and the
hash-state transaction (State.save_many).  When the counter reaches <crash_at> the process
dies with os._exit(77) *before* the event takes place; with mode 'partial' and a copy event,
half of the bytes are written first.  All of this is harness-side; nothing is patched in /repo.
"""
import json
import os
import sys

sys.dont_write_bytecode = True
HERE = os.path.dirname(os.path.dirname(os.path.abspath(__file__)))
REPO = os.environ.get("DVC_DATA_REPO", "/repo")
sys.path.insert(0, HERE)
sys.path.insert(0, os.path.join(REPO, "src"))
import logging  # noqa: E402

logging.disable(logging.CRITICAL)

WRITE_FLAGS = os.O_WRONLY | os.O_RDWR | os.O_CREAT | os.O_TRUNC | os.O_APPEND


class Tracer:
    def __init__(self, root, crash_at, mode):
        self.roots = [os.path.join(root, d) + os.sep for d in ("odb", "odb2", "remote")]
        self.crash_at = crash_at
        self.mode = mode
        self.n = 0
        self.events = []
        self.active = True

    def mine(self, p):
        try:
            p = os.fspath(p)
        except TypeError:
            return False
        if isinstance(p, bytes):
            p = p.decode("utf-8", "surrogateescape")
        return any(p.startswith(r) for r in self.roots)

    def hit(self, kind, path, extra=None):
        """returns True when the process has to die at this event"""
        if not self.active:
            return False
        self.events.append([kind, path, extra])
        idx = self.n
        self.n += 1
        return idx == self.crash_at

    def die(self):
        os._exit(77)

    def hook(self, event, args):
        if not self.active:
            return
        try:
            if event == "open":
                path, mode, flags = args
                if isinstance(path, (str, bytes, os.PathLike)) and self.mine(path):
                    writing = (isinstance(mode, str) and any(c in mode for c in "wax+")) or (isinstance(flags, int) and flags & WRITE_FLAGS)
                    if writing and self.hit("open-w", os.fspath(path)):
                        self.die()
            elif event in ("os.rename",):
                src, dst = args[0], args[1]
                if self.mine(dst) or self.mine(src):
                    if self.hit("rename", os.fspath(dst), os.fspath(src)):
                        self.die()
            elif event in ("os.remove", "os.rmdir", "os.mkdir", "os.chmod", "os.truncate", "os.utime"):
                if self.mine(args[0]):
                    extra = oct(args[1]) if event == "os.chmod" else None
                    if self.hit(event[3:], os.fspath(args[0]), extra):
                        self.die()
            elif event in ("os.link", "os.symlink"):
                if self.mine(args[1]):
                    if self.hit(event[3:], os.fspath(args[1]), os.fspath(args[0])):
                        self.die()
        except SystemExit:
            raise
        except Exception:  # noqa: BLE001
            pass


def install(tr):
    import shutil

    sys.addaudithook(tr.hook)
    real_copyfile = shutil.copyfile

    def copyfile(src, dst, *a, **kw):
        if tr.active and tr.mine(dst):
            tr.active = False  # the copy is one event: do not count the opens inside it
            try:
                die = False
                tr.active = True
                die = tr.hit("copy", os.fspath(dst), os.fspath(src))
                tr.active = False
                if die:
                    if tr.mode == "partial":
                        with open(src, "rb") as f:
                            data = f.read()
                        with open(dst, "wb") as f:
                            f.write(data[: len(data) // 2])
                            f.flush()
                            os.fsync(f.fileno())
                    os._exit(77)
                return real_copyfile(src, dst, *a, **kw)
            finally:
                tr.active = True
        return real_copyfile(src, dst, *a, **kw)

    shutil.copyfile = copyfile
    import dvc_objects.fs.utils as u

    if hasattr(u, "shutil"):
        u.shutil.copyfile = copyfile

    from dvc_data.hashfile.state import State

    real_save_many = State.save_many

    def save_many(self, items, fs):
        items = list(items)
        paths = [it[0] for it in items]
        if any(tr.mine(p) for p in paths):
            if tr.hit("state-save", ";".join(os.path.basename(os.path.dirname(p)) + os.path.basename(p) for p in paths if tr.mine(p))):
                os._exit(77)
            tr.active = False
            try:
                return real_save_many(self, items, fs)
            finally:
                tr.active = True
        return real_save_many(self, items, fs)

    State.save_many = save_many


def scenario(name, root):
    from dvc_objects.fs.local import LocalFileSystem

    from dvc_data.hashfile.build import build
    from dvc_data.hashfile.db import HashFileDB
    from dvc_data.hashfile.db.local import LocalHashFileDB
    from dvc_data.hashfile.hash_info import HashInfo
    from dvc_data.hashfile.state import State
    from dvc_data.hashfile.transfer import transfer
    from dvc_data.index import build as ibuild
    from dvc_data.index.save import md5 as imd5
    from dvc_data.index.save import save as isave

    fs = LocalFileSystem()
    src = os.path.join(root, "src")
    state = State(root_dir=root, tmp_dir=os.path.join(root, "state"))
    try:
        if name == "stage_transfer":
            odb = LocalHashFileDB(fs, os.path.join(root, "odb"), state=state)
            staging, meta, obj = build(odb, src, fs, "md5")
            res = transfer(staging, odb, {obj.hash_info}, shallow=False)
            assert not res.failed
        elif name == "index_save":
            odb = LocalHashFileDB(fs, os.path.join(root, "odb"), state=state)
            idx = imd5(ibuild(src, fs), state=state)
            isave(idx, odb=odb)
        elif name in ("store_to_store", "store_to_store_verify"):
            a = HashFileDB(fs, os.path.join(root, "srcstore"))
            b = LocalHashFileDB(fs, os.path.join(root, "odb"), state=state)
            with open(os.path.join(root, "request.json")) as f:
                ids = json.load(f)
            res = transfer(a, b, {HashInfo("md5", o) for o in ids}, shallow=False, verify=name.endswith("verify"))
            if not name.endswith("verify"):
                assert not res.failed
        elif name == "store_to_store_index":
            # a push to a local remote that keeps an existence index (what index/push.py does)
            from dvc_data.hashfile.db.index import ObjectDBIndex

            a = HashFileDB(fs, os.path.join(root, "srcstore"))
            b = LocalHashFileDB(fs, os.path.join(root, "odb"), state=state)
            with open(os.path.join(root, "request.json")) as f:
                ids = json.load(f)
            idx = ObjectDBIndex(os.path.join(root, "remote-index"), "dest")
            try:
                res = transfer(a, b, {HashInfo("md5", o) for o in ids}, shallow=False, dest_index=idx)
            finally:
                idx.close()
            assert not res.failed
        elif name in ("store_to_store_fetchlike", "store_to_store_pushlike"):
            # the listings are looked up first in the *destination* itself, as index/fetch.py (cache_odb=cache.odb) and
            # index/push.py (cache_odb=data.odb, with the remote's existence index) call transfer()
            from dvc_data.hashfile.db.index import ObjectDBIndex

            a = HashFileDB(fs, os.path.join(root, "srcstore"))
            b = LocalHashFileDB(fs, os.path.join(root, "odb"), state=state)
            with open(os.path.join(root, "request.json")) as f:
                ids = json.load(f)
            idx = ObjectDBIndex(os.path.join(root, "remote-index"), "dest") if name.endswith("pushlike") else None
            try:
                res = transfer(a, b, {HashInfo("md5", o) for o in ids}, dest_index=idx, cache_odb=b)
            finally:
                if idx is not None:
                    idx.close()
            assert not res.failed
        elif name == "stage_transfer_legacy":
            odb = LocalHashFileDB(fs, os.path.join(root, "odb"), state=state, hash_name="md5-dos2unix")
            staging, meta, obj = build(odb, src, fs, "md5-dos2unix")
            res = transfer(staging, odb, {obj.hash_info}, shallow=False)
            assert not res.failed
        elif name == "upload_staging":
            odb = LocalHashFileDB(fs, os.path.join(root, "odb"), state=state)
            staging, meta, obj = build(odb, src, fs, "md5", upload=True)
            res = transfer(staging, odb, {obj.hash_info}, shallow=False)
            assert not res.failed
        elif name == "writer":
            # one concurrent writer (C16): stage + transfer a workspace into the shared store
            odb = LocalHashFileDB(fs, os.path.join(root, "odb"), state=state)
            wsdir = os.environ["VERIF_WRITER_WS"]
            staging, meta, obj = build(odb, wsdir, fs, "md5")
            res = transfer(staging, odb, {obj.hash_info}, shallow=False)
            assert not res.failed
            print("TREE", obj.oid)
        else:
            raise SystemExit("unknown scenario " + name)
    finally:
        state.close()


def main():
    root, name, crash_at, mode = sys.argv[1], sys.argv[2], int(sys.argv[3]), sys.argv[4]
    trace_file = sys.argv[5] if len(sys.argv) > 5 else None
    tr = Tracer(root, crash_at, mode)
    install(tr)
    scenario(name, root)
    tr.active = False
    if trace_file:
        with open(trace_file, "w") as f:
            json.dump(tr.events, f)


if __name__ == "__main__":
    main()
