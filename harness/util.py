"""Helpers shared by the per-property harness modules."""
import hashlib
import os
import stat

EXPECTED_NAMES = (
    "MergeError",
    "PromptError",
    "CheckoutError",
    "LinkError",
    "ObjectFormatError",
    "ObjectDBPermissionError",
    "FileNotFoundError",
    "TreeError",
    "DataIndexDirError",
)


def safe_call(f, expected=()):
    """run implementation code; map the outcome to ('ok', value) | ('err', name).

    Exceptions listed in `expected` are reported by class name; anything else is reported as
    crash:<type> so that a behaviour change never crashes the harness itself."""
    try:
        return "ok", f()
    except expected as e:  # type: ignore[misc]
        return "err", type(e).__name__
    except BaseException as e:  # noqa: BLE001
        if isinstance(e, (KeyboardInterrupt,)):
            raise
        return "err", "crash:" + type(e).__name__


def md5hex(b: bytes) -> str:
    return hashlib.md5(b).hexdigest()


def write_file(path, data: bytes, mode=None):
    os.makedirs(os.path.dirname(path), exist_ok=True)
    with open(path, "wb") as f:
        f.write(data)
    if mode is not None:
        os.chmod(path, mode)


def walk_files(root):
    """{relpath: bytes} of all regular files / symlinks-to-files under root"""
    out = {}
    for r, ds, fs in os.walk(root):
        for f in fs:
            p = os.path.join(r, f)
            rel = os.path.relpath(p, root).replace(os.sep, "/")
            try:
                with open(p, "rb") as fh:
                    out[rel] = fh.read()
            except OSError as e:
                out[rel] = "unreadable:" + type(e).__name__
    return out


def walk_dirs(root):
    out = []
    for r, ds, fs in os.walk(root):
        for d in ds:
            out.append(os.path.relpath(os.path.join(r, d), root).replace(os.sep, "/"))
    return sorted(out)


def list_store(path):
    """{oid: (md5 of bytes, mode)} for a fan-out object store directory"""
    out = {}
    if not os.path.isdir(path):
        return out
    for d in sorted(os.listdir(path)):
        dp = os.path.join(path, d)
        if len(d) != 2 or not os.path.isdir(dp):
            continue
        for f in sorted(os.listdir(dp)):
            fp = os.path.join(dp, f)
            if os.path.isfile(fp):
                with open(fp, "rb") as fh:
                    b = fh.read()
                out[d + f] = (md5hex(b), stat.S_IMODE(os.stat(fp).st_mode))
    return out


def bump_mtime(path, delta_ns=1_000_000_000):
    st = os.stat(path)
    os.utime(path, ns=(st.st_atime_ns, st.st_mtime_ns + delta_ns))
