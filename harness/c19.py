"""C19 — three-way directory merge (tree.py::_merge / merge)."""
import hashlib
import itertools
import json

from . import core
from .util import safe_call

KEYS = [("a",), ("b",), ("sub", "c")]
POLICIES = [[], ["add", "remove", "change"], ["add", "remove"], ["add", "change"]]

# A policy is a set of operation kinds; callers may hand it over in any of these forms.  The default (add-only) policy in
# particular can be said as None, as an empty sequence, or by naming it.  "canonical" is what the harness always used.
SPELLINGS = ["canonical", "list", "tuple", "reversed", "doubled", "explicit", "explicit_tuple"]


def spell(al, how="canonical"):
    """the policy `al` (a list of kinds, [] = default) as the `allowed=` argument, in the form `how`"""
    if how == "canonical":
        return list(al) if al else None
    if how == "list":
        return list(al)            # the default becomes []
    if how == "tuple":
        return tuple(al)           # the default becomes ()
    if how == "reversed":
        return list(reversed(al))
    if how == "doubled":
        return list(al) + list(al)
    if how == "explicit":
        return list(al) if al else ["add"]
    if how == "explicit_tuple":
        return tuple(al) if al else ("add",)
    raise ValueError(how)


def _within(da, do, dt, al):
    """the policy admits this combination: one side unchanged, or both sides did only allowed kinds of operation"""
    if do == da or dt == da:
        return True
    return (_ops(da, do) | _ops(da, dt)) <= set(al or ["add"])


def _mk(vals):
    from dvc_data.hashfile.hash_info import HashInfo

    d = {}
    for k, v in zip(KEYS, vals):
        if v:
            d[k] = (None, HashInfo("md5", v))
    return d


def _canon(d):
    return sorted(["/".join(k), v[1].value if v[1] is not None else ""] for k, v in d.items())


def _pairs(d):
    return [["/".join(k), v[1].value if v[1] is not None else ""] for k, v in d.items()]


def three_way(a, o, t):
    """independent oracle: per-key rule; returns (dict, conflicts)"""
    res, conflicts = {}, []
    for k in sorted(set(a) | set(o) | set(t)):
        av, ov, tv = a.get(k), o.get(k), t.get(k)
        if ov == tv:
            r = ov
        elif ov == av:
            r = tv
        elif tv == av:
            r = ov
        else:
            conflicts.append(k)
            continue
        if r is not None:
            res[k] = r
    return res, conflicts


def run_impl(a, o, t, allowed, how="canonical"):
    from dvc_data.hashfile.tree import MergeError, _merge

    def f():
        return _merge(a, o, t, allowed=spell(allowed, how))

    kind, val = safe_call(f, expected=(MergeError,))
    if kind == "ok":
        return {"ok": _canon(val)}, val
    return {"err": val}, None


def model_req(a, o, t, allowed):
    return {"op": "merge", "allowed": allowed, "a": _pairs(a), "o": _pairs(o), "t": _pairs(t)}


def canon_model(ans):
    if "ok" in ans:
        return {"ok": sorted(ans["ok"])}
    return ans


def check_cases(ctx, cases, name):
    reqs = [model_req(*c[:4]) for c in cases]
    answers = ctx.driver.batch(reqs)
    for (a, o, t, al, *rest), ans in zip(cases, answers):
        how = rest[0] if rest else "canonical"
        case = {"a": _pairs(a), "o": _pairs(o), "t": _pairs(t), "allowed": al}
        if how != "canonical":
            case["spell"] = how
            ctx.count("spelled:" + how)
        impl, res = run_impl(a, o, t, al, how)
        nontriv = bool(a != o and a != t)
        ctx.case(case, nontrivial=nontriv)
        ctx.count("outcome:" + ("ok" if "ok" in impl else impl["err"]))
        ctx.corr(name, case, impl, canon_model(ans))
        # oracle (implementation side only)
        if "ok" in impl:
            exp, conflicts = three_way(a, o, t)
            good = not conflicts and _canon(exp) == impl["ok"]
            ctx.oracle(good, case, {"impl": impl, "three_way": _canon(exp), "conflicts": [list(c) for c in conflicts]})
            if good and not al and a != o and a != t:
                # default policy: both sides only added
                onlyadds = all(k in o and o[k] == v for k, v in a.items()) and all(
                    k in t and t[k] == v for k, v in a.items()
                )
                ctx.oracle(onlyadds, case, {"impl": impl, "why": "default policy accepted a non-additive combination"})
            if good and how != "canonical":
                ctx.oracle(_within(a, o, t, al), case, {"impl": impl, "why": "policy (spelled %s: %r) accepted a merge in which a side did more than the allowed operations" % (how, spell(al, how)),
                                                        "ours_did": sorted(_ops(a, o)), "theirs_did": sorted(_ops(a, t)), "allowed": al or ["add"]})
        elif impl["err"] != "MergeError":
            ctx.oracle(False, case, {"impl": impl, "why": "merge neither returned nor raised MergeError"})
        if len(ctx.samples) < 3 and nontriv:
            ctx.sample({"case": case, "impl": impl})


def exhaustive(ctx, policies):
    vals = [None, "v1", "v2"]
    dicts = [_mk(c) for c in itertools.product(vals, repeat=len(KEYS))]
    cases = [(a, o, t, al) for a in dicts for o in dicts for t in dicts for al in policies]
    check_cases(ctx, cases, "Merge.merge~tree._merge (exhaustive 3 keys x 3 values)")
    return len(cases)


def random_cases(ctx, n):
    rng = ctx.rng
    keys = [("f%d" % i,) for i in range(6)] + [("d", "x%d" % i) for i in range(4)] + [("d", "e", "y")]
    from dvc_data.hashfile.hash_info import HashInfo

    def rd(base=None):
        d = {}
        for k in keys:
            if base is not None and rng.random() < 0.7:
                if k in base:
                    d[k] = base[k]
                continue
            r = rng.random()
            if r < 0.5:
                d[k] = (None, HashInfo("md5", rng.choice(["p", "q", "r"])))
        return d

    cases = []
    for _ in range(n):
        a = rd() if rng.random() < 0.9 else {}
        o = rd(a)
        t = rd(a)
        cases.append((a, o, t, rng.choice(POLICIES), rng.choice(SPELLINGS)))
    check_cases(ctx, cases, "Merge.merge~tree._merge (random, 11 keys, policy in any spelling)")


def _store(odb, d):
    from dvc_data.hashfile.tree import Tree

    tr = Tree()
    for k, v in d.items():
        tr.add(k, None, v[1] if isinstance(v, tuple) else v)
    tr.digest()
    odb.add(tr.path, tr.fs, tr.oid)
    return tr


def stored_case(ctx, odb, base, od, td, al, how="canonical"):
    """real `merge()` through stored trees: three-way result, canonical oid, object bytes, within the policy (handed over
    in the form `how`)"""
    from dvc_data.hashfile.tree import MergeError, merge

    a, o, t = _store(odb, base), _store(odb, od), _store(odb, td)
    case = {"stored": True, "a": _pairs(a.as_dict()), "o": _pairs(o.as_dict()), "t": _pairs(t.as_dict()), "allowed": al}
    if how != "canonical":
        case["spell"] = how
        ctx.count("stored:spelled:" + how)
    kind, res = safe_call(lambda: merge(odb, a.hash_info, o.hash_info, t.hash_info, allowed=spell(al, how)), expected=(MergeError,))
    ctx.case(case)
    if kind == "ok":
        d = res.as_dict()
        exp, conflicts = three_way(a.as_dict(), o.as_dict(), t.as_dict())
        lst = sorted(({"md5": v[1].value, "relpath": "/".join(k)} for k, v in d.items()), key=lambda e: e["relpath"])
        body = json.dumps(lst, sort_keys=True).encode()
        oid = hashlib.md5(body).hexdigest() + ".dir"
        k2, stored_bytes = safe_call(lambda: res.fs.cat_file(res.path))
        ctx.oracle(
            not conflicts and _canon(exp) == _canon(d) and res.oid == oid and res.hash_info.value == oid and stored_bytes == body,
            case,
            {"impl_oid": res.oid, "canonical_oid": oid, "impl": _canon(d), "three_way": _canon(exp),
             "object_bytes_match_listing": stored_bytes == body},
        )
        ctx.oracle(_within(a.as_dict(), o.as_dict(), t.as_dict(), al), case,
                   {"why": "policy (spelled %s: %r) accepted a merge in which a side did more than the allowed operations" % (how, spell(al, how)),
                    "ours_did": sorted(_ops(a.as_dict(), o.as_dict())), "theirs_did": sorted(_ops(a.as_dict(), t.as_dict())),
                    "allowed": al or ["add"], "impl": _canon(d)})
        ctx.count("stored:ok")
    else:
        ctx.oracle(res == "MergeError", case, {"impl": res, "why": "unexpected exception"})
        ctx.count("stored:" + res)


def _new_odb(ctx):
    import os

    from dvc_objects.fs.local import LocalFileSystem

    from dvc_data.hashfile.db import HashFileDB

    return HashFileDB(LocalFileSystem(), os.path.join(ctx.mkdtemp(), "odb"))


def stored_merge(ctx, n):
    from dvc_data.hashfile.hash_info import HashInfo

    rng = ctx.rng
    odb = _new_odb(ctx)
    keys = [("a",), ("b",), ("d", "c"), ("d", "e", "f"), ("\u00e9 x",)]

    def rv():
        return HashInfo("md5", hashlib.md5(rng.choice(["1", "2", "3", "4"]).encode()).hexdigest())

    def derive(base):
        d = dict(base)
        for k in keys:
            r = rng.random()
            if k in d:
                if r < 0.25:
                    d[k] = rv()  # change
                elif r < 0.32:
                    del d[k]  # remove
            elif r < 0.15:
                d[k] = rv()  # add
        return d

    for _ in range(n):
        base = {k: rv() for k in keys if rng.random() < 0.7}
        stored_case(ctx, odb, base, derive(base), derive(base), rng.choice(POLICIES), rng.choice(SPELLINGS))


def policy_spellings(ctx, n):
    """the same triple under the same policy handed over in EVERY spelling (None / [] / () / list / tuple / reordered /
    with repeats / the default named explicitly), through `_merge` (tied to the model, which knows the policy only as a set
    of kinds) and through the real `merge()` of stored trees in both argument orders.  Triples are drawn so that both sides
    differ from the ancestor and the sides do a mix of adding, removing and changing: exactly where the policy decides."""
    from dvc_data.hashfile.hash_info import HashInfo

    rng = ctx.rng
    odb = _new_odb(ctx)
    keys = [("a",), ("b",), ("d", "c"), ("d", "e", "f")]

    def rv():
        return (None, HashInfo("md5", hashlib.md5(rng.choice(["1", "2", "3"]).encode()).hexdigest()))

    def derive(base, p_change, p_remove, p_add):
        d = dict(base)
        for k in keys:
            r = rng.random()
            if k in d:
                if r < p_change:
                    d[k] = rv()
                elif r < p_change + p_remove:
                    del d[k]
            elif r < p_add:
                d[k] = rv()
        return d

    direct = []
    for _ in range(n):
        base = {k: rv() for k in keys if rng.random() < 0.6}
        for _try in range(20):
            # per-side profile: a side that only adds / also removes / also changes
            od = derive(base, rng.choice([0.0, 0.3]), rng.choice([0.0, 0.3]), 0.5)
            td = derive(base, rng.choice([0.0, 0.3]), rng.choice([0.0, 0.3]), 0.5)
            if od != base and td != base:
                break
        al = rng.choice(POLICIES)
        ctx.count("spellings:triple")
        for how in SPELLINGS:
            direct.append((base, od, td, al, how))
            direct.append((base, td, od, al, how))
        if rng.random() < 0.1:
            for how in SPELLINGS:
                stored_case(ctx, odb, base, od, td, al, how)
                stored_case(ctx, odb, base, td, od, al, how)
    check_cases(ctx, direct, "Merge.merge~tree._merge (one triple, one policy, every spelling of it, both orders)")


FAULTS = ["missing", "truncated", "empty", "not_a_list", "not_json"]
FAULT_ERRORS = ("MergeError", "FileNotFoundError", "ObjectFormatError")


def _damage(odb, oid, kind, cut):
    """make the stored object `oid` unreadable as a listing (never: readable as a different listing)"""
    import os

    path = odb.oid_to_path(oid)
    if kind == "missing":
        os.unlink(path)
        return
    with open(path, "rb") as f:
        body = f.read()
    if kind == "truncated":
        # a proper prefix of a serialised JSON list is never a JSON document
        new = body[: int(cut * len(body)) % len(body)]
    elif kind == "empty":
        new = b""
    elif kind == "not_a_list":
        new = b'{"relpath": "a"}'
    else:
        new = b"\x00\xff not json " + body[:7]
    os.chmod(path, 0o644)
    with open(path, "wb") as f:
        f.write(new)
    os.chmod(path, 0o444)


def _ops(a, s):
    """operation kinds by which listing s differs from listing a"""
    ops = set()
    for k in set(a) | set(s):
        if k not in a:
            ops.add("add")
        elif k not in s:
            ops.add("remove")
        elif a[k] != s[k]:
            ops.add("change")
    return ops


def faulty_case(ctx, base, od, td, al, target, kind, cut, how="canonical"):
    """real `merge()` through a store in which one of the three named objects cannot be read as a listing (collected,
    half-written, overwritten) - or with no ancestor at all (`ancestor_info=None`: the ancestor IS the empty listing).
    The listings the three identifiers name are known to the harness; whatever the store does, a merge that returns must
    return their three-way merge under the policy, in both argument orders; otherwise it must fail."""
    from dvc_data.hashfile.tree import MergeError, merge
    from dvc_objects.errors import ObjectFormatError

    odb = _new_odb(ctx)
    a, o, t = _store(odb, base), _store(odb, od), _store(odb, td)
    da, do, dt = a.as_dict(), o.as_dict(), t.as_dict()
    case = {"stored_fault": {"target": target, "kind": kind, "cut": cut}, "a": _pairs(da), "o": _pairs(do), "t": _pairs(dt), "allowed": al}
    if how != "canonical":
        case["spell"] = how
        ctx.count("stored_fault:spelled:" + how)
    anc_info = a.hash_info
    if target == "no_ancestor":
        anc_info, da = None, {}
    else:
        _damage(odb, {"ancestor": a, "ours": o, "theirs": t}[target].oid, kind, cut)
    ctx.case(case)
    exp, conflicts = three_way(da, do, dt)
    both = do != da and dt != da
    within = (not both) or (_ops(da, do) | _ops(da, dt)) <= set(al or ["add"])
    for order, (x, y) in (("ours,theirs", (o, t)), ("theirs,ours", (t, o))):
        kind_, res = safe_call(lambda: merge(odb, anc_info, x.hash_info, y.hash_info, allowed=spell(al, how)),
                               expected=(MergeError, FileNotFoundError, ObjectFormatError))
        if kind_ == "ok":
            d = res.as_dict()
            lst = sorted(({"md5": v[1].value, "relpath": "/".join(k)} for k, v in d.items()), key=lambda e: e["relpath"])
            oid = hashlib.md5(json.dumps(lst, sort_keys=True).encode()).hexdigest() + ".dir"
            ctx.oracle(
                not conflicts and _canon(exp) == _canon(d) and res.oid == oid,
                case,
                {"why": "merge through a store with an unreadable object returned something other than the three-way merge of the named listings",
                 "order": order, "impl": _canon(d), "three_way": _canon(exp), "conflicts": ["/".join(c) for c in conflicts],
                 "impl_oid": res.oid, "canonical_oid": oid},
            )
            ctx.oracle(within, case, {"why": "policy accepted a merge in which a side did more than the allowed operations", "order": order,
                                      "ours_did": sorted(_ops(da, do)), "theirs_did": sorted(_ops(da, dt)), "allowed": al or ["add"]})
            ctx.count("stored_fault:%s:ok" % target)
        else:
            ctx.oracle(res in FAULT_ERRORS, case, {"impl": res, "order": order, "why": "unexpected exception"})
            ctx.count("stored_fault:%s:%s" % (target, res))


def stored_merge_faulty(ctx, n):
    from dvc_data.hashfile.hash_info import HashInfo

    rng = ctx.rng
    keys = [("a",), ("b",), ("d", "c"), ("d", "e", "f"), ("\u00e9 x",)]

    def rv():
        return HashInfo("md5", hashlib.md5(rng.choice(["1", "2", "3", "4"]).encode()).hexdigest())

    def derive(base, p_change, p_remove, p_add):
        d = dict(base)
        for k in keys:
            r = rng.random()
            if k in d:
                if r < p_change:
                    d[k] = rv()
                elif r < p_change + p_remove:
                    del d[k]
            elif r < p_add:
                d[k] = rv()
        return d

    for _ in range(n):
        base = {k: rv() for k in keys if rng.random() < 0.7}
        # per-case profile: histories that only add / also remove / also change
        pc, pr, pa = rng.choice([0.0, 0.25]), rng.choice([0.0, 0.1, 0.3]), rng.choice([0.15, 0.5])
        od, td = derive(base, pc, pr, pa), derive(base, pc, pr, pa)
        target = rng.choice(["ancestor", "ancestor", "ancestor", "ours", "theirs", "no_ancestor"])
        faulty_case(ctx, base, od, td, rng.choice(POLICIES), target, rng.choice(FAULTS), round(rng.random(), 3), rng.choice(SPELLINGS))


def stored_merge_with_meta(ctx, n):
    """real merge() on a legacy (md5-dos2unix) store whose directory listings carry per-entry metadata: a side may change only
    the metadata of an entry (exec bit, size) - that is a change like any other for the three-way rule and for the policy"""
    import os

    from dvc_objects.fs.local import LocalFileSystem

    from dvc_data.hashfile import load
    from dvc_data.hashfile.db import HashFileDB
    from dvc_data.hashfile.hash_info import HashInfo
    from dvc_data.hashfile.meta import Meta
    from dvc_data.hashfile.tree import MergeError, Tree, merge

    rng = ctx.rng
    odb = HashFileDB(LocalFileSystem(), os.path.join(ctx.mkdtemp(), "odb"), hash_name="md5-dos2unix")
    keys = [("a",), ("run.sh",), ("d", "c"), ("d", "e", "f")]

    def rv():
        return hashlib.md5(rng.choice(["1", "2", "3"]).encode()).hexdigest()

    def store(d):
        tr = Tree()
        for k, (ex, h) in d.items():
            tr.add(k, Meta(size=7, isexec=ex), HashInfo("md5-dos2unix", h))
        tr.digest(with_meta=True)
        odb.add(tr.path, tr.fs, tr.oid)
        return tr

    def derive(base):
        d = dict(base)
        for k in keys:
            r = rng.random()
            if k in d:
                if r < 0.2:
                    d[k] = (d[k][0], rv())            # content change
                elif r < 0.45:
                    d[k] = (not d[k][0], d[k][1])     # metadata-only change
                elif r < 0.5:
                    del d[k]
            elif r < 0.2:
                d[k] = (rng.random() < 0.5, rv())
        return d

    def view(dd):
        return {k: (bool(v[0].isexec) if v[0] is not None else None, v[1].value if v[1] is not None else None) for k, v in dd.items()}

    for _ in range(n):
        base = {k: (rng.random() < 0.3, rv()) for k in keys if rng.random() < 0.8}
        od, td = derive(base), derive(base)
        al, how = rng.choice(POLICIES), rng.choice(SPELLINGS)
        a, o, t = store(base), store(od), store(td)
        if len({a.oid, o.oid, t.oid}) < 3 and rng.random() < 0.7:
            continue  # identifiers ignore metadata: equal identifiers mean the same stored object
        case = {"stored_with_meta": True, "a": {"/".join(k): list(v) for k, v in base.items()}, "o": {"/".join(k): list(v) for k, v in od.items()},
                "t": {"/".join(k): list(v) for k, v in td.items()}, "allowed": al, "spell": how}
        ctx.case(case)
        la, lo, lt = (view(load(odb, x.hash_info).as_dict()) for x in (a, o, t))
        kind, res = safe_call(lambda: merge(odb, a.hash_info, o.hash_info, t.hash_info, allowed=spell(al, how)), expected=(MergeError,))
        exp, conflicts = three_way(la, lo, lt)
        if kind == "ok":
            got = view(res.as_dict())
            ctx.oracle(not conflicts and got == exp, case, {"why": "merge with per-entry metadata is not the three-way merge", "impl": {"/".join(k): list(v) for k, v in got.items()},
                                                           "three_way": {"/".join(k): list(v) for k, v in exp.items()}, "conflicts": ["/".join(k) for k in conflicts]})
            if not al or al == ["add"]:
                both = lo != la and lt != la
                only_adds = all(k not in la or lo.get(k) == la[k] for k in set(la) | set(lo)) and all(k in lo for k in la) and \
                    all(k not in la or lt.get(k) == la[k] for k in set(la) | set(lt)) and all(k in lt for k in la)
                ctx.oracle((not both) or only_adds, case, {"why": "default policy accepted a merge in which a side did more than add entries"})
            ctx.count("stored_meta:ok")
        else:
            ctx.oracle(res == "MergeError", case, {"impl": res, "why": "unexpected exception"})
            ctx.count("stored_meta:" + res)


# File names that are ordinary on POSIX (one path component: non-empty, no "/", no NUL) but mean something under some OTHER
# naming convention: a foreign separator, a drive, an escape, a glob, a different normal form or letter case, padding.
# A listing names entries by posix-joined components and by nothing else: none of these may be re-read as another key.
ODD_NAMES = [
    "logs\\run1", "C:\\data\\x.csv", "back\\", "\\lead", "a\\\\b", "d\\c", "d\\e\\f",
    "a:b", "C:", "x y", " lead", "trail ", "trail.", "-rf", "tab\there", "new\nline", "cr\rlf", 'q"uote', "it's",
    "%2F", "a%5Cb", "a%2Fb", "*", "?", "[x]", "~", "#h", "$HOME", "{a,b}", "a|b", "a;b", "a&b", "...", "..a", ".hidden",
    "\u00e9", "e\u0301", "\u00c9", "README", "readme", "ReadMe", "\u2215", "\uff0f", "\uff3c", "a\u2215b", "\U0001f600",
    "\u200b", "a\u00a0b", "\\u0041", "\\n", "\\", "\\\\", "n" * 200,
]


def _lookalikes(name):
    """keys a reader applying a foreign convention to `name` would produce instead of (name,)"""
    import unicodedata
    from urllib.parse import unquote

    out = []
    for sep in ("\\", ":", "\u2215", "\uff0f", "\uff3c", "%2F", "%5C"):
        if sep in name:
            out.append(tuple(name.split(sep)))
            out.append((name.replace(sep, "_"),))
    for f in (str.casefold, str.upper, str.strip, lambda s: s.rstrip(". "), unquote,
              lambda s: unicodedata.normalize("NFC", s), lambda s: unicodedata.normalize("NFD", s),
              lambda s: unicodedata.normalize("NFKC", s)):
        out.append((f(name),))
    return [k for k in out if k != (name,) and all(c and "/" not in c and "\0" not in c and c not in (".", "..") for c in k)]


def _odd_universe(rng):
    """a key universe of odd names (at top level and nested, as file and as directory names), some of them next to the key
    a foreign reading would confuse them with; no key is a prefix of another (a name is a file or a directory, not both)"""
    keys = []

    def add(k):
        for q in keys:
            m = min(len(q), len(k))
            if q[:m] == k[:m]:
                return
        keys.append(k)

    for name in rng.sample(ODD_NAMES, rng.randint(3, 5)):
        r = rng.random()
        k = (name,) if r < 0.6 else (("d", name) if r < 0.8 else (name, "f"))
        add(k)
        if rng.random() < 0.5:
            alts = _lookalikes(name)
            if alts:
                alt = rng.choice(alts)
                add(k[:-1] + alt if k[-1] == name else alt + k[1:])
    add(("plain",))
    return keys


def _listing_bytes(d):
    """the serialised listing of {key: md5}, written independently of Tree.as_bytes (JSON list sorted by relpath)"""
    lst = sorted(({"md5": v, "relpath": "/".join(k)} for k, v in d.items()), key=lambda e: e["relpath"])
    return json.dumps(lst, sort_keys=True).encode("utf-8")


def _store_listing(odb, d, by):
    """store the listing {key: md5}: through Tree.add/digest/odb.add ("tree") or as bytes written straight into the store
    ("hand", e.g. an object pulled from a remote); returns its HashInfo"""
    import os

    from dvc_data.hashfile.hash_info import HashInfo

    if by == "tree":
        return _store(odb, {k: HashInfo("md5", v) for k, v in d.items()}).hash_info
    body = _listing_bytes(d)
    oid = hashlib.md5(body).hexdigest() + ".dir"
    path = odb.oid_to_path(oid)
    if not os.path.exists(path):
        os.makedirs(os.path.dirname(path), exist_ok=True)
        with open(path, "wb") as f:
            f.write(body)
    return HashInfo("md5", oid)


def odd_names_case(ctx, odb, da, do, dt, al, how, by, anc="stored"):
    """real `merge()` (both argument orders) of stored listings whose entries have odd file names.  da/do/dt: {key: md5} as
    the harness wrote them - the reference is computed on these, never on what the library read back; results are compared
    key by key as component tuples (so `a\\b` and `a/b` are different entries)."""
    from dvc_data.hashfile.tree import MergeError, merge

    def show(d):
        return sorted([list(k), v] for k, v in d.items())

    case = {"odd_names": {"by": by, "ancestor": anc}, "a": show(da), "o": show(do), "t": show(dt), "allowed": al}
    if how != "canonical":
        case["spell"] = how
    ctx.case(case, nontrivial=bool(da != do and da != dt))
    ia, io, it = (_store_listing(odb, d, by) for d in (da, do, dt))
    if anc == "none":  # no common ancestor: the ancestor IS the empty listing
        assert not da
        ia = None
    exp, conflicts = three_way(da, do, dt)
    body = _listing_bytes(exp)
    oid = hashlib.md5(body).hexdigest() + ".dir"
    for order, (x, y) in (("ours,theirs", (io, it)), ("theirs,ours", (it, io))):
        kind, res = safe_call(lambda: merge(odb, ia, x, y, allowed=spell(al, how)),
                              expected=(MergeError,))
        if kind != "ok":
            ctx.oracle(res == "MergeError", case, {"impl": res, "order": order, "why": "unexpected exception"})
            ctx.count("odd_names:" + res)
            continue
        got = {k: (v[1].value if v[1] is not None else None) for k, v in res.as_dict().items()}
        _k, stored_bytes = safe_call(lambda: res.fs.cat_file(res.path))
        ok = not conflicts and got == exp and res.oid == oid and res.hash_info.value == oid and stored_bytes == body
        detail = {"why": "merge of listings with odd file names is not the three-way merge of the listings as written (or not under its canonical id)",
                  "order": order, "impl": show(got), "three_way": show(exp), "conflicts": [list(c) for c in conflicts],
                  "lost": sorted(list(k) for k in set(exp) - set(got)), "unjustified": sorted(list(k) for k in set(got) - set(exp)),
                  "overridden": sorted(list(k) for k in set(got) & set(exp) if got[k] != exp[k]),
                  "impl_oid": res.oid, "canonical_oid": oid, "object_bytes_match_listing": stored_bytes == body}
        ctx.oracle(ok, case, detail)
        ctx.oracle(_within(da, do, dt, al), case,
                   {"why": "policy (spelled %s: %r) accepted a merge in which a side did more than the allowed operations" % (how, spell(al, how)),
                    "order": order, "ours_did": sorted(_ops(da, do)), "theirs_did": sorted(_ops(da, dt)), "allowed": al or ["add"]})
        ctx.count("odd_names:ok")


def stored_merge_odd_names(ctx, n):
    """listings whose entries are named by ODD_NAMES (and their look-alike keys), stored through Tree or written by hand"""
    rng = ctx.rng
    odb = _new_odb(ctx)

    def rv():
        return hashlib.md5(rng.choice(["1", "2", "3"]).encode()).hexdigest()

    def derive(keys, base, p_change, p_remove, p_add):
        d = dict(base)
        for k in keys:
            r = rng.random()
            if k in d:
                if r < p_change:
                    d[k] = rv()
                elif r < p_change + p_remove:
                    del d[k]
            elif r < p_add:
                d[k] = rv()
        return d

    for _ in range(n):
        keys = _odd_universe(rng)
        base = {k: rv() for k in keys if rng.random() < 0.5}
        # per-case profile: histories that only add (what the default policy admits) / also remove / also change
        pc, pr = rng.choice([0.0, 0.0, 0.25]), rng.choice([0.0, 0.0, 0.2])
        od, td = derive(keys, base, pc, pr, 0.5), derive(keys, base, pc, pr, 0.5)
        by = rng.choice(["tree", "hand"])
        ctx.count("odd_names:written_by_" + by)
        if any("\\" in c for d in (base, od, td) for k in d for c in k):
            ctx.count("odd_names:with_backslash")
        anc = "none" if not base and rng.random() < 0.5 else "stored"
        odd_names_case(ctx, odb, base, od, td, rng.choice(POLICIES), rng.choice(SPELLINGS), by, anc)


def run(ctx):
    ctx.rule = (
        "exhaustive: all (ancestor, ours, theirs) over 3 keys (one nested) x {absent,v1,v2} x policies through the real _merge; "
        "random: derived triples over 11 keys; in every non-exhaustive family the policy is handed over in a randomly chosen spelling (None / [] / () / list / tuple / reordered / with repeats / the default named explicitly as ['add']); "
        "spellings: triples in which both sides changed (adding, removing, changing), each under one policy in EVERY spelling and both argument orders through _merge (tied to the model) and through merge() of stored trees - "
        "a merge that is accepted must be the three-way merge and within the policy the spelling denotes (empty = default = add-only); stored: real merge() of stored trees, also on a legacy store whose listings carry per-entry metadata (metadata-only changes); stored_fault: real merge() (both argument orders) through a store in which the ancestor / ours / theirs object is missing, truncated, empty or not a listing, or with no ancestor (None): "
        "a merge that returns must return the three-way merge of the named listings within the policy, otherwise fail with MergeError/FileNotFoundError/ObjectFormatError; "
        "odd_names: real merge() (both argument orders, any policy spelling, ancestor possibly None) of stored listings - written through Tree.digest or as bytes by hand - whose entries carry file names that are ordinary on POSIX "
        "but special under another convention (backslashes, drive/colon, percent escapes, globs, control characters, padding, NFC/NFD and letter-case variants, slash look-alikes), at top level and nested, next to the key a foreign "
        "reading would confuse them with: an accepted merge must be, key by key as component tuples, the three-way merge of the listings AS WRITTEN, within the policy, under the canonical id of that content (object bytes included). non-trivial = both sides differ from the ancestor; "
        "distinct = sha256 of the canonical case"
    )
    ctx.assumptions = ["dictdiffer treats tuples as atomic values (checked by the exhaustive tie)"]
    if ctx.tier == "thorough":
        n = exhaustive(ctx, POLICIES)
        ctx.exhaustive["merge 27^3 triples x 4 policies"] = True
    else:
        n = exhaustive(ctx, [[], ["add", "remove", "change"]])
        ctx.exhaustive["merge 27^3 triples x 2 policies (default, all)"] = True
    random_cases(ctx, ctx.n(3000, 40000))
    policy_spellings(ctx, ctx.n(120, 1500))
    stored_merge(ctx, ctx.n(150, 1500))
    stored_merge_with_meta(ctx, ctx.n(200, 2000))
    stored_merge_faulty(ctx, ctx.n(200, 2000))
    stored_merge_odd_names(ctx, ctx.n(250, 2500))


def search(ctx):
    exhaustive(ctx, POLICIES)
    random_cases(ctx, 40000)


def replay(ctx, payload):
    from dvc_data.hashfile.hash_info import HashInfo

    c = payload.get("case") or payload.get("diverging_case")

    def d(p):
        return {tuple(k.split("/")): (None, HashInfo("md5", v)) for k, v in p}

    if c.get("odd_names"):
        def dd(p):
            return {tuple(k): v for k, v in p}

        odd_names_case(ctx, _new_odb(ctx), dd(c["a"]), dd(c["o"]), dd(c["t"]), c["allowed"], c.get("spell", "canonical"),
                       c["odd_names"]["by"], c["odd_names"]["ancestor"])
    elif c.get("stored_fault"):
        f = c["stored_fault"]
        faulty_case(ctx, d(c["a"]), d(c["o"]), d(c["t"]), c["allowed"], f["target"], f["kind"], f["cut"], c.get("spell", "canonical"))
    elif c.get("stored"):
        stored_case(ctx, _new_odb(ctx), d(c["a"]), d(c["o"]), d(c["t"]), c["allowed"], c.get("spell", "canonical"))
    else:
        check_cases(ctx, [(d(c["a"]), d(c["o"]), d(c["t"]), c["allowed"], c.get("spell", "canonical"))], "replay")
