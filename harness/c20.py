"""C20 — index and entry serialisation round-trips (serialize.py, index.py, meta.py, hash_info.py, tree.py)."""
import json
import os

from . import gen
from .c03 import hi_to_json, meta_to_json
from .util import md5hex, safe_call


def rand_meta(rng):
    from dvc_data.hashfile.meta import Meta

    r = rng.random()
    if r < 0.1:
        return None
    if r < 0.2:
        return Meta()
    return Meta(
        isdir=rng.random() < 0.2,
        size=rng.choice([None, 0, 1, 12345]),
        nfiles=rng.choice([None, None, 0, 3]),
        isexec=rng.random() < 0.3,
        version_id=rng.choice([None, None, "", "v1"]),
        etag=rng.choice([None, None, "", "etag-é"]),
        checksum=rng.choice([None, None, "", "cks"]),
        md5=rng.choice([None, None, "", "d41d8cd98f00b204e9800998ecf8427e"]),
        remote=rng.choice([None, None, "", "origin"]),
    )


def rand_hi(rng):
    from dvc_data.hashfile.hash_info import HashInfo

    r = rng.random()
    if r < 0.15:
        return None
    if r < 0.2:
        return HashInfo()
    if r < 0.25:
        return HashInfo("md5", "")
    name = rng.choice(["md5", "md5", "md5-dos2unix", "sha256", "etag"])
    v = md5hex(str(rng.random()).encode())
    if rng.random() < 0.3:
        v += ".dir"
    return HashInfo(name, v)


def rand_key(rng):
    return tuple(gen.rand_name(rng) for _ in range(rng.randrange(1, 4)))


def rand_index_entries(rng, n):
    from dvc_data.index.index import DataIndexEntry

    out = {}
    for _ in range(n):
        k = rand_key(rng)
        if any("/" in p for p in k):
            continue
        out[k] = DataIndexEntry(key=k, meta=rand_meta(rng), hash_info=rand_hi(rng), loaded=rng.choice([None, True, False]))
    return out


def proj(e):
    """serialisable projection, computed by the harness from the fields (not via to_dict)"""
    from .c03 import _meta_dict

    md = _meta_dict(e.meta) if e.meta is not None else {}
    hd = {}
    if e.hash_info is not None and e.hash_info.value and e.hash_info.name:
        hd = {e.hash_info.name: e.hash_info.value}
    return {"meta": md, "hash_info": hd, "loaded": e.loaded}


def canon_pairs(pairs):
    return dict(pairs) if pairs is not None else None


def model_proj(p):
    return {"meta": dict(p["meta"]), "hash_info": dict(p["hash_info"]), "loaded": p["loaded"]}


def run_dicts(ctx, n):
    """Meta / HashInfo / entry <-> dict, against the model"""
    from dvc_data.hashfile.hash_info import HashInfo
    from dvc_data.hashfile.meta import Meta
    from dvc_data.index.index import DataIndexEntry

    rng = ctx.rng
    ents = list(rand_index_entries(rng, n).items())
    req = {"op": "entries", "entries": [{"key": list(k), "meta": meta_to_json(e.meta), "hi": hi_to_json(e.hash_info), "loaded": e.loaded} for k, e in ents]}
    ans = ctx.driver.ask(req)
    for (k, e), mdict, mback, mproj in zip(ents, ans["to_dict"], ans["back"], ans["proj"]):
        case = {"entry": {"key": list(k), "meta": meta_to_json(e.meta), "hi": hi_to_json(e.hash_info), "loaded": e.loaded}}
        ctx.case(case, nontrivial=e.meta is not None or e.hash_info is not None)
        ctx.count("meta:" + ("none" if e.meta is None else "default" if not proj(e)["meta"] else "fields"))
        ctx.count("hash:" + ("none" if e.hash_info is None else "falsy" if not e.hash_info else "dir" if e.hash_info.isdir else "file"))
        ctx.count("loaded:%s" % e.loaded)

        def f():
            d = e.to_dict()
            b = DataIndexEntry.from_dict(json.loads(json.dumps(d)))
            return d, b

        kind, v = safe_call(f)
        if kind != "ok":
            ctx.oracle(False, case, {"why": "to_dict/from_dict raised", "impl": v})
            continue
        d, b = v
        impl_dict = {"meta": d.get("meta"), "hash_info": d.get("hash_info"), "loaded": d.get("loaded")}
        model_dict = {"meta": canon_pairs(mdict["meta"]), "hash_info": canon_pairs(mdict["hash_info"]), "loaded": mdict["loaded"]}
        ctx.corr("Entry.toDict~DataIndexEntry.to_dict", case, impl_dict, model_dict)
        ctx.corr("Entry.proj(fromDict(toDict))~from_dict(to_dict)", case, proj(b), model_proj(mproj) if mback != "crash" else "crash")
        ctx.oracle(proj(b) == proj(e), case, {"why": "entry changed by to_dict/from_dict", "before": proj(e), "after": proj(b)})
        # Meta and HashInfo on their own
        if e.meta is not None:
            k2, m2 = safe_call(lambda: Meta.from_dict(e.meta.to_dict()))
            ctx.oracle(k2 == "ok" and m2.to_dict() == e.meta.to_dict() and m2.isdir == e.meta.isdir and m2.size == e.meta.size
                       and m2.isexec == e.meta.isexec and m2.nfiles == e.meta.nfiles, case, {"why": "Meta round trip", "impl": str(m2)})
        if e.hash_info is not None:
            k3, h3 = safe_call(lambda: HashInfo.from_dict(e.hash_info.to_dict()))
            ctx.oracle(k3 == "ok" and h3.to_dict() == e.hash_info.to_dict() and (not e.hash_info or h3 == e.hash_info), case,
                       {"why": "HashInfo round trip", "impl": str(h3)})
        ctx.sample(case)


def index_items(idx):
    out = {}
    for k, e in idx.iteritems():
        out["/".join(k) if k else "<root>"] = proj(e)
    return dict(sorted(out.items()))


def run_indexes(ctx, n):
    """the three persistent forms, incl. overwrite/delete histories on the SQLite-backed index"""
    from dvc_data.index.index import DataIndex, DataIndexEntry
    from dvc_data.index.serialize import read_db, read_json, write_db, write_json

    rng = ctx.rng
    root = ctx.mkdtemp()
    reqs, work = [], []
    for i in range(n):
        ents = rand_index_entries(rng, rng.randrange(1, 7))
        expect = {"/".join(k): proj(e) for k, e in ents.items()}
        expect = dict(sorted(expect.items()))
        case = {"index": [{"key": list(k), "meta": meta_to_json(e.meta), "hi": hi_to_json(e.hash_info), "loaded": e.loaded} for k, e in ents.items()]}
        ctx.case(case, nontrivial=len(ents) >= 2)

        def mk():
            idx = DataIndex()
            for k, e in ents.items():
                idx[k] = e
            return idx

        def fj():
            p = os.path.join(root, f"i{i}.json")
            write_json(mk(), p)
            return index_items(read_json(p))

        def fd():
            p = os.path.join(root, f"i{i}.db")
            write_db(mk(), p)
            return index_items(read_db(p))

        # history on the sqlite-backed index: sets, overwrites that differ in a single field, deletes
        hist = []
        final = {}
        keys = list(ents)
        for k in keys:
            hist.append(("set", k, ents[k]))
            final[k] = ents[k]
        for _ in range(rng.randrange(0, 5)):
            k = rng.choice(keys)
            r = rng.random()
            if r < 0.2 and k in final:
                hist.append(("del", k, None))
                del final[k]
            else:
                base = final.get(k, ents[k])
                e2 = DataIndexEntry(key=k, meta=base.meta, hash_info=base.hash_info, loaded=base.loaded)
                which = rng.choice(["remote", "loaded", "meta", "hash", "isexec", "same"])
                from dvc_data.hashfile.meta import Meta
                import copy

                if which == "remote":
                    m = copy.copy(e2.meta) if e2.meta is not None else Meta()
                    m.remote = rng.choice(["r1", "r2", None])
                    e2.meta = m
                elif which == "loaded":
                    e2.loaded = rng.choice([None, True, False])
                elif which == "meta":
                    e2.meta = rand_meta(rng)
                elif which == "hash":
                    e2.hash_info = rand_hi(rng)
                elif which == "isexec":
                    m = copy.copy(e2.meta) if e2.meta is not None else Meta()
                    m.isexec = not m.isexec
                    e2.meta = m
                hist.append(("set", k, e2))
                final[k] = e2
        if rng.random() < 0.3:
            rootent = DataIndexEntry(key=(), meta=rand_meta(rng), hash_info=rand_hi(rng), loaded=True)
            hist.append(("set", (), rootent))
            final[()] = rootent

        other_index = rng.random() < 0.5

        def fs():
            p = os.path.join(root, f"i{i}.sqlite")
            idx = DataIndex.open(p)
            for op, k, e in hist:
                if op == "set":
                    idx[k] = e
                else:
                    del idx[k]
                if rng.random() < 0.2:
                    idx.commit()
            idx.commit()
            idx.close()
            if other_index:
                # another SQLite-backed index of the same process uses the very same key tuples for different entries
                from dvc_data.hashfile.hash_info import HashInfo as _HI
                from dvc_data.hashfile.meta import Meta as _M

                o = DataIndex.open(os.path.join(root, f"i{i}-other.sqlite"))
                for k in final:
                    o[k] = DataIndexEntry(key=k, meta=_M(size=424242, isexec=True), hash_info=_HI("md5", "f" * 32), loaded=False)
                o.commit()
                list(o.iteritems())
                o.close()
            idx2 = DataIndex.open(p)
            try:
                return index_items(idx2)
            finally:
                idx2.close()

        kj, vj = safe_call(fj)
        kd, vd = safe_call(fd)
        ks, vs = safe_call(fs)
        exp_sql = dict(sorted({("/".join(k) if k else "<root>"): proj(e) for k, e in final.items()}.items()))
        ctx.count("history_len:%d" % min(len(hist), 10))
        ctx.oracle(vj == expect, case, {"why": "JSON form round trip", "impl": vj, "expected": expect})
        ctx.oracle(vd == expect, case, {"why": "key-value DB form round trip", "impl": vd, "expected": expect})
        hcase = {"index": case["index"], "history": [[op, list(k), None if e is None else {"meta": meta_to_json(e.meta), "hi": hi_to_json(e.hash_info), "loaded": e.loaded}] for op, k, e in hist]}
        ctx.oracle(vs == exp_sql, hcase, {"why": "SQLite-backed index after commit/close/reopen", "impl": vs, "expected": exp_sql})
        reqs.append({"op": "entries", "entries": case["index"]})
        work.append((case, vj, vd))
    for (case, vj, vd), ans in zip(work, ctx.driver.batch(reqs)):
        mj = ans["joined"]
        model = mj if mj == "crash" else dict(sorted({"/".join(p["key"]): model_proj(p["proj"]) for p in mj}.items()))
        ctx.corr("Serialize.readJoined(writeJoined)~read_json(write_json)", case, vj, model)
        ctx.corr("Serialize.readJoined(writeJoined)~read_db(write_db)", case, vd, model)


from .c03 import entries_json  # noqa: E402


def run_listing_with_meta(ctx, n):
    """a directory listing written with metadata parses back, given its hash name, to the same entries"""
    from dvc_data.hashfile.hash_info import HashInfo
    from dvc_data.hashfile.meta import Meta
    from dvc_data.hashfile.tree import Tree

    rng = ctx.rng
    pending = []
    for _ in range(n):
        files = gen.rand_tree(rng, max_files=5)
        name = rng.choice(["md5", "md5", "md5-dos2unix", "etag", "checksum"])
        t = Tree()
        exp = {}
        for k, c in files.items():
            h = md5hex(c)
            mname = "md5" if name == "md5-dos2unix" else name
            m = Meta(size=len(c), isexec=rng.random() < 0.3, nfiles=rng.choice([None, 2]),
                     md5=rng.choice([None, "", h, md5hex(b"other")]), etag=rng.choice([None, "E", h]),
                     checksum=rng.choice([None, "C"]), version_id=rng.choice([None, "v"]))
            t.add(k, m, HashInfo(name, h))
            em = {kk: vv for kk, vv in _md(m).items()}
            em[mname] = h
            exp["/".join(k)] = {"hash": [name, h], "meta": em}
        case = {"with_meta_listing": {kk: vv for kk, vv in exp.items()}, "hash_name": name}
        ctx.case(case)
        ctx.count("listing_hash:" + name)

        def f():
            lst = json.loads(t.as_bytes(with_meta=True))
            t2 = Tree.from_list(lst, hash_name=name)
            return {"/".join(k): {"hash": [h.name, h.value], "meta": _md(m)} for k, m, h in t2}

        kind, v = safe_call(f)
        ctx.oracle(kind == "ok" and v == exp, case, {"why": "listing with metadata does not parse back to the same entries", "impl": v})
        ents = [(k, (m, h)) for k, m, h in t]
        kb, real_bytes = safe_call(lambda: t.as_bytes(with_meta=True).decode())
        pending.append((case, name, entries_json(ents), kb, real_bytes, kind, v))
    # the model's `asList true` / `fromList (some name)` against the real serialiser and parser (theorem listing_roundtrip)
    mbs = ctx.driver.batch([{"op": "tree_bytes", "with_meta": True, "entries": p[2]} for p in pending])
    for p, mb in zip(pending, mbs):
        ctx.corr("Tree.asBytes(with_meta)~Tree.as_bytes", p[0], p[4] if p[3] == "ok" else {"err": p[4]}, mb.get("bytes"))
    good = [p for p in pending if p[3] == "ok"]
    mls = ctx.driver.batch([{"op": "tree_fromlist", "hash_name": p[1],
                             "list": [[[kk, vv] for kk, vv in d.items()] for d in json.loads(p[4])]} for p in good])
    for p, ml in zip(good, mls):
        if "tree" in ml:
            model = {"/".join(e["key"]): {"hash": [(e["hi"] or {}).get("name"), (e["hi"] or {}).get("value")],
                                          "meta": {kk: vv for kk, vv in (e["meta"] or {}).items()
                                                   if not (vv is None or vv is False or vv == "")}}
                     for e in ml["tree"]}
        else:
            model = ml
        ctx.corr("Tree.fromList(hash_name)~Tree.from_list", p[0], p[6] if p[5] == "ok" else {"err": p[6]}, model)


def run_lazy_persist(ctx, n):
    """the SQLite-backed form also persists what lazy loading wrote: the children of a directory object and the entry's
    loaded flag read back after commit / close / reopen exactly as the live index held them"""
    from . import c17

    rng = ctx.rng
    for _ in range(n):
        case = c17.gen_case(rng)
        case["sqlite"], case["existence_index"] = True, False
        case["reopen"] = rng.choice([None, "before"])
        how = rng.choice(["iter", "ls", "get", "load"])
        root = ctx.mkdtemp()
        L, E, flat, listings, odb, files, lazy = c17.build_indexes(case, root)
        reopen = c17.build_indexes.reopen
        c = {"lazy_persist": case, "trigger": how}
        ctx.case(c)
        ctx.count("lazy_persist:%s reopen_first=%s" % (how, case["reopen"]))

        def snap(idx):
            out = []
            for k in idx:
                e = idx._trie.get(k)
                out.append(["/".join(k), _entry_proj(e)])
            return sorted(out)

        def f():
            nonlocal L
            if case["reopen"]:
                L = reopen(L, "lazy")
            d = sorted(lazy)[0]
            if how == "iter":
                list(L.iteritems(prefix=d))
            elif how == "ls":
                list(L.ls(d, detail=False))
            elif how == "get":
                L[d + sorted(lazy[d])[0]]
            else:
                L.load()
            live = snap(L)
            L = reopen(L, "lazy", storage=False)
            return live, snap(L)

        kind, v = safe_call(f)
        ok = kind == "ok" and v[0] == v[1]
        ctx.oracle(ok, c, {"why": "the lazily loaded SQLite-backed index reads back differently after commit/close/reopen",
                           "impl": v if kind != "ok" else [x for x in v[0] if x not in v[1]][:4]})
        for idx in (L, E):
            safe_call(idx.close)


def _vary(rng, base, k):
    """a copy of `base` (under key `k`) that differs from it in at most one serialised field"""
    import copy

    from dvc_data.hashfile.meta import Meta
    from dvc_data.index.index import DataIndexEntry

    e2 = DataIndexEntry(key=k, meta=base.meta, hash_info=base.hash_info, loaded=base.loaded)
    which = rng.choice(["remote", "loaded", "meta", "hash", "isexec", "same"])
    if which == "remote":
        m = copy.copy(e2.meta) if e2.meta is not None else Meta()
        m.remote = rng.choice(["r1", "r2", None])
        e2.meta = m
    elif which == "loaded":
        e2.loaded = rng.choice([None, True, False])
    elif which == "meta":
        e2.meta = rand_meta(rng)
    elif which == "hash":
        e2.hash_info = rand_hi(rng)
    elif which == "isexec":
        m = copy.copy(e2.meta) if e2.meta is not None else Meta()
        m.isexec = not m.isexec
        e2.meta = m
    return e2


def _ent_json(e):
    return None if e is None else {"meta": meta_to_json(e.meta), "hi": hi_to_json(e.hash_info), "loaded": e.loaded}


def run_views(ctx, n):
    """one SQLite-backed index written through several handles: the index that owns the file (DataIndex.open) and views of
    its sub-trees (index.view(prefix), views of views, the trivial view(()) - the way index/collect.py hands its results out).
    Every set / overwrite / delete of the history goes through some handle that covers the key (relative to that handle's
    prefix); intermediate commits are issued on any handle; then commit() on the OWNING index, close, reopen: the reopened
    index holds exactly the final entries under their absolute keys."""
    from dvc_data.index.index import DataIndex, DataIndexEntry

    rng = ctx.rng
    root = ctx.mkdtemp()
    for i in range(n):
        # handles: 0 = the owner (prefix ()), the others are views; parent < child so that a view of a view is possible
        prefixes, parents = [()], [None]
        for _ in range(rng.randrange(1, 4)):
            r = rng.random()
            if r < 0.1:
                par, rel = 0, ()  # view(()) - a second DataIndex over the very same trie object
            elif r < 0.3 and len(prefixes) > 1:
                par = rng.randrange(1, len(prefixes))
                rel = tuple(gen.rand_name(rng) for _ in range(rng.randrange(1, 3)))
            else:
                par = 0
                rel = tuple(gen.rand_name(rng) for _ in range(rng.randrange(1, 3)))
            if any("/" in p for p in rel):
                continue
            prefixes.append(prefixes[par] + rel)
            parents.append((par, rel))
        # absolute keys: most of them under some handle's prefix (now and then the prefix itself: the view's root key)
        keys = []
        for _ in range(rng.randrange(1, 7)):
            p = rng.choice(prefixes)
            k = p + (() if p and rng.random() < 0.15 else rand_key(rng))
            if k and not any("/" in x for x in k) and k not in keys:
                keys.append(k)
        if not keys:
            continue
        mode = rng.choice(["views", "views", "mixed", "mixed", "owner"])

        def handle_for(k):
            cov = [h for h, p in enumerate(prefixes) if k[: len(p)] == p]
            if mode == "owner":
                return 0
            if mode == "views":
                cov = [h for h in cov if h != 0] or cov
            return rng.choice(cov)

        hist, final = [], {}
        for k in keys:
            e = DataIndexEntry(key=k, meta=rand_meta(rng), hash_info=rand_hi(rng), loaded=rng.choice([None, True, False]))
            hist.append(["set", handle_for(k), k, e, rng.random() < 0.2 and rng.randrange(len(prefixes))])
            final[k] = e
        for _ in range(rng.randrange(0, 5)):
            k = rng.choice(keys)
            cm = rng.random() < 0.2 and rng.randrange(len(prefixes))
            if rng.random() < 0.2 and k in final:
                hist.append(["del", handle_for(k), k, None, cm])
                del final[k]
            else:
                base = final[k] if k in final else DataIndexEntry(key=k, meta=rand_meta(rng), hash_info=rand_hi(rng))
                e2 = _vary(rng, base, k)
                hist.append(["set", handle_for(k), k, e2, cm])
                final[k] = e2
        case = {"views": {"prefixes": [list(p) for p in prefixes],
                          "made_from": [None if q is None else [q[0], list(q[1])] for q in parents], "writes_through": mode,
                          "history": [[op, h, list(k), _ent_json(e), cm if cm is not False else None] for op, h, k, e, cm in hist]}}
        ctx.case(case, nontrivial=len(keys) >= 2)
        used = {h for _, h, _, _, _ in hist}
        ctx.count("views:writes_through=%s" % mode)
        ctx.count("views:handles_written=%s" % ("owner_only" if used == {0} else "views_only" if 0 not in used else "both"))
        ctx.count("views:last_write_through=%s" % ("owner" if hist[-1][1] == 0 else "view"))
        if any(q is not None and q[0] != 0 for q in parents):
            ctx.count("views:view_of_view")

        def f():
            p = os.path.join(root, f"v{i}.sqlite")
            idx = DataIndex.open(p)
            hs = [idx]
            try:
                for q in parents[1:]:
                    hs.append(hs[q[0]].view(q[1]))
                for op, h, k, e, cm in hist:
                    rel = k[len(prefixes[h]):]
                    if op == "set":
                        hs[h][rel] = DataIndexEntry(key=rel, meta=e.meta, hash_info=e.hash_info, loaded=e.loaded)
                    else:
                        del hs[h][rel]
                    if cm is not False:
                        hs[cm].commit()
                idx.commit()
            finally:
                idx.close()
            idx2 = DataIndex.open(p)
            try:
                return index_items(idx2)
            finally:
                idx2.close()

        kind, v = safe_call(f)
        exp = dict(sorted({("/".join(k) if k else "<root>"): proj(e) for k, e in final.items()}.items()))
        ctx.oracle(kind == "ok" and v == exp, case,
                   {"why": "SQLite-backed index written through views: after commit (on the owning index) / close / reopen it "
                           "does not hold the final entries", "impl": v, "expected": exp,
                    "missing": sorted(set(exp) - set(v)) if isinstance(v, dict) else None})


# ---------------------------------------------------------------------------------------------------------------------
# string fields are opaque: whatever spelling a back end (or a user) put into version_id / etag / checksum / md5 / remote /
# the hash value has to come back character for character from every persistent form
# ---------------------------------------------------------------------------------------------------------------------

ODD_STRINGS = [
    '"0x8DA1B2C3D4E5F60"',  # a quoted ETag header value (what Meta.from_info keeps for azure)
    'W/"5d8c72a5edda8"',  # weak validator
    '"unbalanced', "trailing'", "'single'", '""', '"',
    " padded ", "\tlead-tab", "trail-nl\n", " ",
    "ABCDEF0123456789ABCDEF0123456789", "d41d8cd98f00b204e9800998ecf8427e-5",
    "0", "00123", "1e3", "null", "true", "None", "-1",
    "é", "ü-日本", "a b", "a/b", "\\back\\slash", '{"k": 1}', "%41%2F", "x.dir", ".dir", "CKS==", "Zm9v",
]


def collected_meta(rng):
    """metadata the way Meta.from_info collects it from the info dictionaries of the various file systems"""
    from dvc_data.hashfile.meta import Meta

    hexs = md5hex(str(rng.random()).encode())
    proto = rng.choice(["azure", "azure", "s3", "gs", "http", "https", "local", None])
    info = {"type": "file", "size": rng.choice([0, 3, 1 << 40])}
    if proto == "azure":
        info["etag"] = rng.choice(["0x8D" + hexs[:13].upper(), '"0x8D' + hexs[:13].upper() + '"'])
        if rng.random() < 0.5:
            info["version_id"] = "2024-01-01T00:00:00.0000000Z"
    elif proto == "s3":
        info["ETag"] = rng.choice(['"%s"' % hexs, '"%s-12"' % hexs])
        if rng.random() < 0.5:
            info["VersionId"] = rng.choice(["null", "3HL4kqtJlcpXroDTDmJ.rUMvJ9gF"])
    elif proto == "gs":
        import base64

        info["etag"] = base64.b64encode(bytes.fromhex(hexs[:16])).decode()
        if rng.random() < 0.5:
            info["generation"] = "1700000000000000"
    elif proto in ("http", "https"):
        info[rng.choice(["ETag", "Content-MD5"])] = rng.choice(['"%s"' % hexs[:12], 'W/"%s"' % hexs[:12], "1B2M2Y8AsgTpgAmY7PhCfg=="])
    else:
        info.update({"md5": hexs, "ino": 7, "mtime": 1.5, "mode": rng.choice([0o100644, 0o100755])})
    if rng.random() < 0.2:
        info["remote"] = rng.choice(["origin", '"quoted remote"'])
    return proto, Meta.from_info(info, protocol=proto)


def odd_meta(rng):
    from dvc_data.hashfile.meta import Meta

    def s():
        return rng.choice(ODD_STRINGS) if rng.random() < 0.4 else None

    return Meta(size=rng.choice([None, 0, 7]), isexec=rng.random() < 0.2, version_id=s(), etag=s(), checksum=s(), md5=s(), remote=s())


def verbatim_entry(rng, k):
    """an entry whose string fields carry back-end / odd spellings; for cloud-versioned style entries the hash is the
    metadata field itself (HashInfo('etag', meta.etag))"""
    from dvc_data.hashfile.hash_info import HashInfo
    from dvc_data.index.index import DataIndexEntry

    if rng.random() < 0.5:
        src, m = collected_meta(rng)
        src = "collected:%s" % src
    else:
        src, m = "odd", odd_meta(rng)
    r = rng.random()
    mirror = [f for f in ("etag", "checksum", "md5") if getattr(m, f)]
    if r < 0.5 and mirror:
        f = rng.choice(mirror)
        hi = HashInfo(f, getattr(m, f))
    elif r < 0.85:
        hi = HashInfo(rng.choice(["md5", "md5-dos2unix", "etag", "checksum", "sha256"]), rng.choice(ODD_STRINGS))
    else:
        hi = None
    return src, DataIndexEntry(key=k, meta=m, hash_info=hi, loaded=rng.choice([None, True, False]))


def run_verbatim_values(ctx, n):
    """every persistent form gives string fields back unchanged (quotes, weak-validator prefixes, surrounding blanks, case,
    numeric / keyword look-alikes, non-ASCII ...), with metadata as Meta.from_info collects it per protocol"""
    from dvc_data.hashfile.hash_info import HashInfo
    from dvc_data.hashfile.meta import Meta
    from dvc_data.hashfile.tree import Tree
    from dvc_data.index.index import DataIndex, DataIndexEntry
    from dvc_data.index.serialize import read_db, read_json, write_db, write_json

    rng = ctx.rng
    root = ctx.mkdtemp()
    for i in range(n):
        ents = {}
        for _ in range(rng.randrange(1, 5)):
            k = tuple("k%d" % rng.randrange(6) for _ in range(rng.randrange(1, 3)))
            src, e = verbatim_entry(rng, k)
            ents[k] = e
            ctx.count("verbatim:meta=%s" % src)
        case = {"verbatim": [{"key": list(k), **_ent_json(e)} for k, e in ents.items()]}
        ctx.case(case)
        expect = dict(sorted({"/".join(k): proj(e) for k, e in ents.items()}.items()))

        # 1. dictionaries (directly and through their JSON text)
        for k, e in ents.items():
            for via_json in (False, True):
                def tr(d):
                    return json.loads(json.dumps(d)) if via_json else d

                kind, b = safe_call(lambda: DataIndexEntry.from_dict(tr(e.to_dict())))
                ctx.oracle(kind == "ok" and proj(b) == proj(e), case,
                           {"why": "entry -> dict -> entry changed a serialised field", "key": list(k), "via_json_text": via_json,
                            "before": proj(e), "after": proj(b) if kind == "ok" else b})
                kind, m2 = safe_call(lambda: Meta.from_dict(tr(e.meta.to_dict())))
                ctx.oracle(kind == "ok" and _md(m2) == _md(e.meta), case,
                           {"why": "Meta -> dict -> Meta changed a serialised field", "key": list(k), "via_json_text": via_json,
                            "before": _md(e.meta), "after": _md(m2) if kind == "ok" else m2})
                if e.hash_info is not None:
                    kind, h2 = safe_call(lambda: HashInfo.from_dict(tr(e.hash_info.to_dict())))
                    ctx.oracle(kind == "ok" and (h2.name, h2.value) == (e.hash_info.name, e.hash_info.value), case,
                               {"why": "HashInfo -> dict -> HashInfo changed", "key": list(k), "after": str(h2)})

        def mk(idx):
            for k, e in ents.items():
                idx[k] = DataIndexEntry(key=k, meta=e.meta, hash_info=e.hash_info, loaded=e.loaded)
            return idx

        # 2. the persistent forms of an index
        def fj():
            p = os.path.join(root, f"s{i}.json")
            write_json(mk(DataIndex()), p)
            return index_items(read_json(p))

        def fd():
            p = os.path.join(root, f"s{i}.db")
            write_db(mk(DataIndex()), p)
            return index_items(read_db(p))

        def fs():
            p = os.path.join(root, f"s{i}.sqlite")
            idx = mk(DataIndex.open(p))
            idx.commit()
            idx.close()
            idx2 = DataIndex.open(p)
            try:
                return index_items(idx2)
            finally:
                idx2.close()

        forms = [("JSON file", fj), ("key-value DB", fd), ("SQLite-backed index after commit/close/reopen", fs)]
        for what, f in (forms if i % 3 == 0 else [forms[rng.randrange(3)]]):
            kind, v = safe_call(f)
            ctx.count("verbatim:form=%s" % what.split()[0])
            ctx.oracle(kind == "ok" and v == expect, case,
                       {"why": what + " does not give the string fields back unchanged", "impl": v,
                        "differs": sorted(k for k in expect if not isinstance(v, dict) or v.get(k) != expect[k])})

        # 3. a listing written with metadata, parsed with its hash name: the hash is the metadata field of that name
        for name in ("md5", "md5-dos2unix", "etag", "checksum"):
            mname = "md5" if name == "md5-dos2unix" else name
            t, exp = Tree(), {}
            for k, e in ents.items():
                v = getattr(e.meta, mname)
                if not v:
                    continue
                t.add(k, e.meta, HashInfo(name, v))
                exp["/".join(k)] = {"hash": [name, v], "meta": _md(e.meta)}
            if not exp:
                continue
            ctx.count("verbatim:listing_hash=%s" % name)

            def fl():
                t2 = Tree.from_list(json.loads(t.as_bytes(with_meta=True)), hash_name=name)
                return {"/".join(k): {"hash": [h.name, h.value], "meta": _md(m)} for k, m, h in t2}

            kind, v = safe_call(fl)
            ctx.oracle(kind == "ok" and v == exp, case,
                       {"why": "listing with metadata, parsed with hash name %r, does not give the same entries" % name,
                        "impl": v, "expected": exp})


def _entry_proj(e):
    h = e.hash_info
    return {"meta": _md(e.meta), "hash": [h.name, h.value] if h else None, "loaded": e.loaded}


def _md(m):
    from .c03 import _meta_dict

    return _meta_dict(m)


def run(ctx):
    ctx.rule = (
        "entries with every combination of optional fields (None / default / falsy strings / zero sizes / '.dir' hashes / "
        "loaded in {None,True,False}), non-ASCII and odd key parts; indexes of 1-6 entries through write_json/read_json, "
        "write_db/read_db and the SQLite-backed index with set/overwrite-one-field/delete histories, commit, close, (often: another SQLite-backed index written under the same keys), reopen "
        "(incl. the root key); listings written with metadata for md5 / md5-dos2unix / etag / checksum; SQLite-backed indexes with unloaded directory objects loaded on demand (iteration, listing, lookup, load) then committed, closed and reopened; "
        "SQLite-backed indexes written through several handles - the owning index and views of its sub-trees (index.view(prefix), views of views, "
        "view(())), writes through views only / mixed / owner only, relative keys incl. the view's root key, intermediate commits on any handle - "
        "then commit on the owning index, close, reopen, compared under absolute keys; "
        "string fields as opaque values: metadata as Meta.from_info collects it per protocol (azure quoted ETags, s3 / gs / http(s) "
        "validators, version ids, local) and odd spellings (quotes, weak-validator prefix, surrounding blanks / tab / newline, upper case, "
        "multipart suffix, numeric / keyword look-alikes, non-ASCII, '/' and '.dir' inside a value) in version_id / etag / checksum / md5 / "
        "remote / the hash value, hashes mirroring a metadata field (cloud-versioned style), through dict (and its JSON text), JSON file, "
        "key-value DB, SQLite reopen and listings with metadata parsed under md5 / md5-dos2unix / etag / checksum (oracle only). "
        "non-trivial = entry has meta or hash / index has >= 2 entries; distinct = sha256 of the canonical case"
    )
    ctx.assumptions = ["Meta() and None both project to {} (an all-default Meta serialises to no field)",
                       "keys of the '/'-joined forms are non-empty and their parts contain no '/'"]
    run_dicts(ctx, ctx.n(600, 6000))
    run_indexes(ctx, ctx.n(120, 1200))
    run_listing_with_meta(ctx, ctx.n(150, 1500))
    run_lazy_persist(ctx, ctx.n(40, 400))
    run_views(ctx, ctx.n(100, 1000))
    run_verbatim_values(ctx, ctx.n(60, 600))


def search(ctx):
    run_dicts(ctx, 6000)
    run_indexes(ctx, 1000)
    run_listing_with_meta(ctx, 1500)
    run_lazy_persist(ctx, 400)
    run_views(ctx, 1000)
    run_verbatim_values(ctx, 600)


def replay(ctx, payload):
    run(ctx)
