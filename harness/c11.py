"""C11 — a transfer's result tells the truth about what arrived (transfer.py, status.py, db/__init__.py)."""
from . import stores, xfer
from .util import md5hex


def check(ctx, sc, uni):
    src_eff, fails = xfer.effective(sc)
    run = xfer.Run(ctx, sc, uni)
    try:
        obs = run.transfer(sc["fail"])
        src_after = {o: stores.read_obj(run.src.path, o) for o in stores.listing_of(run.src.path)}
        intact_bad = stores.intact_violations(run.dest.path)
        src_before = run.src_before
    finally:
        run.close()
    case = dict(sc)
    wanted = sorted(uni.closure(sc["req"])) if not sc["shallow"] else sorted(set(sc["req"]))
    before = set(run.dest_before)
    new = sorted(o for o in wanted if o in src_eff and o not in before)
    nontriv = bool(new) and (bool(sc["fail"]) or bool(sc["corrupt"]))
    ctx.case(case, nontrivial=nontriv)
    ctx.count("verify=%s corrupt=%d" % (sc["verify"], min(len(sc["corrupt"]), 2)))
    ctx.count("new=%d" % min(len(new), 6))
    ctx.count("index=%s" % sc["index"])
    a = ctx.driver.ask(xfer.model_req(sc, uni, run.dest_before, run.index_before, obs["dir_order"]))
    ctx.corr("Transfer.transferWith∘compareStatus~transfer()", case, xfer.canon_impl(obs), xfer.canon_model(a))
    if "err" in obs:
        loadable = all((d in src_eff) for d in sc["req"] if d.endswith(".dir")) or sc["shallow"]
        ctx.oracle(not loadable and obs.get("err") == "FileNotFoundError", case, {"why": "transfer raised", "obs": obs.get("err")})
        return
    tr, fl, after = set(obs["transferred"]), set(obs["failed"]), set(obs["dest"])
    d = {"transferred": sorted(tr), "failed": sorted(fl), "new": new, "dest_after": sorted(after)}
    ctx.oracle(tr | fl == set(new) and not (tr & fl), case, {"why": "transferred/failed do not partition the new objects", **d})
    ctx.oracle(tr <= after, case, {"why": "an object reported as transferred is absent from the destination", "absent": sorted(tr - after), **d})
    ctx.oracle(not [o for o in intact_bad if o in tr or o not in before], case,
               {"why": "an object in the destination does not have the bytes its name promises", "mismatching": intact_bad})
    missing_both = {o for o in wanted if o not in src_eff and o not in before}
    for o in wanted:
        if o not in after:
            ctx.oracle(o in fl or o in missing_both, case, {"why": "a requested object is absent afterwards but neither failed nor missing on both sides", "object": o, **d})
    sent = [e[0] for e in obs["events"]]
    ctx.oracle(not (set(sent) & before) and not ((tr | fl) & before), case,
               {"why": "an object already present was re-sent or reported", "resent": sorted(set(sent) & before)})
    # the source is never modified (a corrupt unprotected object dropped from a *local* source by the
    # existence query is the one documented exception, DESIGN.md section 6 C11)
    dropped = set(src_before) - set(src_after)
    changed = [o for o in src_after if src_before.get(o) != src_after[o]]
    allowed = set(sc["corrupt"]) if sc["src_local"] else set()
    ctx.oracle(dropped <= allowed and not changed and set(src_after) <= set(src_before), case,
               {"why": "the source store was modified", "dropped": sorted(dropped), "changed": changed})
    if len(ctx.samples) < 3 and nontriv:
        ctx.sample({"scenario": {k: sc[k] for k in ("req", "shallow", "fail", "corrupt", "dest", "verify")}, "result": d})


def check_unreadable_dir(ctx, rng):
    """a requested directory object that the status query reports new but whose listing cannot be read at transfer time
    (damaged in the source yet trusted by it: write-protected in a local store, or any file in a generic one; or vanishing
    between the status query and the copy loop). The model knows no unreadable listings, so this family is oracle-only:
    the transfer may give up (raise) - but a result it does return must tell the truth."""
    import os

    from dvc_data.hashfile.transfer import transfer

    from .util import safe_call

    uni = stores.Universe(rng, ntrees=rng.randrange(1, 4))
    trees = list(uni.trees)
    root = ctx.mkdtemp()
    src_local, dest_local = rng.random() < 0.5, rng.random() < 0.5
    src = stores.make_odb(os.path.join(root, "src"), local=src_local)
    dest = stores.make_odb(os.path.join(root, "dest"), local=dest_local)
    stores.populate(src, uni, uni.all_oids())
    victim = rng.choice(trees)
    how = rng.choice(["truncated", "not_a_list", "empty", "vanishes"])
    raw = uni.data(victim)
    if how != "vanishes":
        bad = {"truncated": raw[: max(1, len(raw) // 2)], "not_a_list": b'{"md5": "x"}', "empty": b""}[how]
        stores.put_raw(src.path, victim, bad, mode=0o444)
    pre = [o for o in uni.all_oids() if o != victim and not o.endswith(".dir") and rng.random() < 0.2]
    stores.populate(dest, uni, pre)
    req_dirs = [victim] + [t for t in trees if t != victim and rng.random() < 0.6]
    req = list(req_dirs)
    for t in req_dirs:
        req += [f for f in uni.listing(t) if f not in req]
    case = {"unreadable_dir": how, "victim": victim, "req": req, "src_local": src_local, "dest_local": dest_local, "dest": sorted(pre),
            "trees": {d: {"/".join(k): v for k, v in e.items()} for d, e in uni.trees.items()}}
    ctx.case(case, nontrivial=True)

    def hook(status):
        if how == "vanishes":
            p = os.path.join(src.path, victim[:2], victim[2:])
            if os.path.exists(p):
                os.chmod(p, 0o644)
                os.remove(p)

    before = set(stores.listing_of(dest.path))
    kind, res = safe_call(lambda: transfer(src, dest, {stores.hi(o) for o in req}, shallow=True, validate_status=hook))
    after = set(stores.listing_of(dest.path))
    ctx.count("unreadable_dir:%s -> %s" % (how, "result" if kind == "ok" else "raised"))
    bad = stores.closed_violations(dest.path)
    ctx.oracle(not bad, case, {"why": "the destination is not closed after a transfer with an unreadable directory object", "dangling": bad[:3]})
    # Transfer.doTransferR: the transfer gives up exactly when a new directory's listing cannot be read
    ans = ctx.driver.ask({"op": "transfer", "L": uni.L_json(), "src": sorted(uni.all_oids()), "dest": sorted(pre), "req": req, "shallow": True,
                          "fails": [], "index": None, "dir_order": [], "unreadable": [victim]})
    ctx.corr("Transfer.doTransferR~transfer() with an unreadable directory object (gives up)", case, kind != "ok", bool(ans.get("gave_up")))
    if kind != "ok":
        return
    tr, fl = set(stores.vals(res.transferred)), set(stores.vals(res.failed))
    ctx.oracle(tr <= after, case, {"why": "an object reported as transferred is absent from the destination", "absent": sorted(tr - after),
                                   "transferred": sorted(tr), "failed": sorted(fl)})
    for o in req:
        if o not in after:
            ctx.oracle(o in fl, case, {"why": "a requested object is absent afterwards but not reported as failed", "object": o,
                                       "transferred": sorted(tr), "failed": sorted(fl)})
    ctx.oracle(not ((tr | fl) & before), case, {"why": "an object already present was reported", "reported": sorted((tr | fl) & before)})


# ------------------------------------------------------------------ a source spanning several filesystems
#
# A ReferenceHashFileDB (what dvc stages a workspace into) holds *references*: an object is wherever the file it was taken
# of lives. The objects of one request may therefore sit on several filesystems (a local directory, one or more in-memory
# or remote ones, the reference store's own filesystem for the directory objects written into it), and `_add` sends one
# batch per filesystem: the failures of *every* batch belong in the result.


def gen_multi_fs(rng):
    uni = stores.Universe(rng, nfiles=rng.randrange(3, 9), ntrees=rng.randrange(0, 4))
    files, trees = list(uni.files), list(uni.trees)
    mounts = [rng.choice(["local", "memory"]) for _ in range(rng.randrange(2, 5))]
    # where each object lives: the index of a mount, or -1 = physically inside the reference store (directory objects only,
    # the way a staged directory is kept)
    place = {f: rng.randrange(len(mounts)) for f in files}
    for t in trees:
        place[t] = -1 if rng.random() < 0.4 else rng.randrange(len(mounts))
    verify = rng.random() < 0.4
    dest = set()
    for t in trees:
        if rng.random() < 0.2:
            dest.add(t)
            dest.update(uni.listing(t))
    for f in files:
        if rng.random() < 0.15:
            dest.add(f)
    shallow = rng.random() < 0.6
    req_dirs = [t for t in trees if rng.random() < 0.8]
    req = list(req_dirs)
    if shallow:
        for t in req_dirs:
            req += [f for f in uni.listing(t) if f not in req]
    req += [f for f in files if f not in req and rng.random() < (0.4 if req_dirs else 0.85)]
    if not req:
        req.append(files[0])
    rng.shuffle(req)
    cand = sorted(uni.closure(req) - dest)
    p = rng.choice([0.0, 0.15, 0.3, 0.5])
    fail, dangling, stale = [], [], []
    for o in cand:
        if rng.random() >= p:
            continue
        kinds = ["upload"]
        if not o.endswith(".dir") and place[o] >= 0:
            kinds.append("dangling")  # the referenced file is gone by the time of the transfer
        if verify:
            kinds += ["stale", "stale"]  # the referenced file was modified after it had been referenced
        {"upload": fail, "dangling": dangling, "stale": stale}[rng.choice(kinds)].append(o)
    return {
        "multi_fs": True,
        "files": {k: v.decode() for k, v in uni.files.items()},
        "trees": {d: {"/".join(k): v for k, v in e.items()} for d, e in uni.trees.items()},
        "mounts": mounts, "place": place, "dest": sorted(dest), "dest_local": rng.random() < 0.5, "req": req, "shallow": shallow,
        "verify": verify, "fail": fail, "dangling": dangling, "stale": stale, "req_form": rng.choice(["set", "set", "list", "generator"]),
    }, uni


def _rebuild_multi_fs(sc):
    uni = stores.Universe.__new__(stores.Universe)
    uni.files = {k: v.encode() for k, v in sc["files"].items()}
    uni.trees = {d: {tuple(k.split("/")): v for k, v in e.items()} for d, e in sc["trees"].items()}
    uni.tree_raw = {d: stores.tree_bytes(e) for d, e in uni.trees.items()}
    return uni


def check_multi_fs(ctx, sc, uni):
    """one transfer out of a reference store whose objects are spread over several filesystems, some uploads failing
    (injected), some referenced files gone, some modified since (verify). Returns (case, observation, model request): the
    caller batches the model's answers."""
    import json
    import os

    from dvc_objects.fs import LocalFileSystem, MemoryFileSystem

    from dvc_data.hashfile.db.reference import ReferenceHashFileDB
    from dvc_data.hashfile.transfer import transfer

    from .util import safe_call

    root = ctx.mkdtemp()
    mounts = []
    for i, kind in enumerate(sc["mounts"]):
        if kind == "local":
            fs, base = LocalFileSystem(), os.path.join(root, "data%d" % i)
            os.makedirs(base)
        else:
            fs, base = MemoryFileSystem(global_store=False), "/data%d" % i
            fs.makedirs(base, exist_ok=True)
        mounts.append((fs, base))
    src = ReferenceHashFileDB(MemoryFileSystem(global_store=False), "/refs")
    src.fs.makedirs("/refs", exist_ok=True)
    for o in uni.all_oids():
        data = uni.data(o)
        if o in sc["stale"]:
            data = json.dumps(json.loads(data), indent=1).encode() if o.endswith(".dir") else b"MODIFIED-" + data
        m = sc["place"][o]
        if m < 0:
            p = src.oid_to_path(o)
            src.fs.makedirs(src.fs.parent(p), exist_ok=True)
            src.fs.pipe_file(p, data)
            continue
        fs, base = mounts[m]
        p = base + "/" + ("tree-" if o.endswith(".dir") else "file-") + o[:10]
        if o not in sc["dangling"]:
            fs.pipe_file(p, data)
        src.add(p, fs, o)
    dest = stores.make_odb(os.path.join(root, "dest"), local=sc["dest_local"])
    stores.populate(dest, uni, sc["dest"])

    def snapshot():
        out = {}
        for i, (fs, base) in enumerate(mounts + [(src.fs, "/refs")]):
            for p in sorted(fs.find(base)):
                out["%d:%s" % (i, p[len(base):])] = fs.cat_file(p)
        fss = [fs for fs, _ in mounts]
        refs = {o: (h.path, fss.index(h.fs) if h.fs in fss else -1) for o, h in src._obj_cache.items()}
        return out, refs

    src_before = snapshot()
    before = set(stores.listing_of(dest.path))
    faults = stores.Faults(dest, sc["fail"])
    ids = [stores.hi(o) for o in sc["req"]]

    def f():
        req = {"set": set(ids), "list": ids, "generator": (h for h in ids)}[sc["req_form"]]
        with faults.active():
            return transfer(src, dest, req, verify=sc["verify"], shallow=sc["shallow"])

    kind, res = safe_call(f)
    after = set(stores.listing_of(dest.path))
    src_after = snapshot()
    intact_bad = stores.intact_violations(dest.path)
    dangling_dirs = stores.closed_violations(dest.path)

    case = dict(sc)
    wanted = sorted(uni.closure(sc["req"])) if not sc["shallow"] else sorted(set(sc["req"]))
    new = sorted(o for o in wanted if o not in before)
    failing = sorted(set(sc["fail"]) | set(sc["dangling"]) | set(sc["stale"]))
    # how many filesystems the new objects of the request come from, and whether a failing one shares the request with others
    spread = len({sc["place"][o] for o in new})
    ctx.case(case, nontrivial=bool(new) and bool(failing) and spread > 1)
    ctx.count("multi_fs: new objects on %d filesystems, %s" % (min(spread, 3), "some failing" if set(failing) & set(new) else "none failing"))
    if kind != "ok":
        ctx.oracle(False, case, {"why": "transfer out of a reference store raised", "obs": res})
        return None
    tr, fl = set(stores.vals(res.transferred)), set(stores.vals(res.failed))
    d = {"transferred": sorted(tr), "failed": sorted(fl), "new": new, "dest_after": sorted(after), "expected_to_fail": failing}
    ctx.oracle(tr | fl == set(new) and not (tr & fl), case, {"why": "transferred/failed do not partition the new objects", **d})
    ctx.oracle(tr <= after, case, {"why": "an object reported as transferred is absent from the destination", "absent": sorted(tr - after), **d})
    ctx.oracle(not [o for o in intact_bad if o in tr or o not in before], case,
               {"why": "an object in the destination does not have the bytes its name promises", "mismatching": intact_bad, **d})
    for o in wanted:
        if o not in after:
            ctx.oracle(o in fl, case, {"why": "a requested object is absent afterwards but not reported as failed", "object": o, **d})
    sent = {e[0] for e in faults.events}
    ctx.oracle(not (sent & before) and not ((tr | fl) & before), case,
               {"why": "an object already present was re-sent or reported", "resent": sorted(sent & before), **d})
    ctx.oracle(not dangling_dirs, case, {"why": "a directory object arrived without all of its files", "dangling": dangling_dirs[:3], **d})
    ctx.oracle(src_before == src_after, case,
               {"why": "the source (the referenced files or the references) was modified",
                "changed": sorted(k for k in set(src_before[0]) | set(src_after[0]) if src_before[0].get(k) != src_after[0].get(k))})
    obs = {"transferred": sorted(tr), "failed": sorted(fl), "dest": sorted(after), "index": None}
    req = {"op": "transfer", "L": uni.L_json(), "src": sorted(uni.all_oids()), "dest": sorted(before), "req": sc["req"],
           "shallow": sc["shallow"], "fails": failing, "index": None, "dir_order": faults.dir_order}
    return case, obs, req


def run_multi_fs(ctx, scenarios):
    pend = [r for r in (check_multi_fs(ctx, sc, uni) for sc, uni in scenarios) if r is not None]
    for (case, obs, _), ans in zip(pend, ctx.driver.batch([r[2] for r in pend])):
        ctx.corr("Transfer.transferWith∘compareStatus~transfer() out of a reference store spanning several filesystems", case, obs, xfer.canon_model(ans))


def run_cases(ctx, n):
    for i in range(n):
        sc, uni = xfer.gen_scenario(ctx.rng, want_verify=(i % 3 == 0) or None)
        check(ctx, sc, uni)


def run(ctx):
    ctx.rule = (
        "requests of files and directory objects (shallow or expanded) over stores with arbitrary initial contents, random "
        "failing uploads, corrupt sources under verify (every third scenario forces verify), directories with files missing on both "
        "sides, both store classes, with/without remote index; requests holding a directory object that the source reports present but whose listing cannot be read at transfer time (damaged yet trusted, or vanishing between the status query and the copy loop): oracle-only. transfers out of a reference store (ReferenceHashFileDB) whose objects are spread over 2-4 filesystems (local directories, in-memory ones, directory objects kept in the reference store itself), with injected upload failures, referenced files that are gone and - under verify - referenced files modified since (counted as multi_fs: ...; non-trivial = new objects on more than one filesystem and a failing one), every oracle of the main family plus the model comparison. non-trivial = something new to send and a failing or corrupt object; "
        "distinct = sha256 of the scenario"
    )
    ctx.assumptions = ["a corrupt unprotected object may be dropped from a *local* source by the existence query (mandated by C07)"]
    run_cases(ctx, ctx.n(260, 3000))
    for _ in range(ctx.n(40, 400)):
        check_unreadable_dir(ctx, ctx.rng)
    run_multi_fs(ctx, [gen_multi_fs(ctx.rng) for _ in range(ctx.n(40, 600))])


def search(ctx):
    run_cases(ctx, 3000)


def replay(ctx, payload):
    sc = payload.get("case") or payload.get("diverging_case")
    if "unreadable_dir" in sc:
        run(ctx)
    elif "multi_fs" in sc:
        run_multi_fs(ctx, [(sc, _rebuild_multi_fs(sc))])
    else:
        check(ctx, sc, xfer.rebuild(sc))
