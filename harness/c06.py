"""C06 — garbage collection removes exactly the unused objects and never a used one (gc.py)."""
import hashlib
import json
import os

from . import stores
from .util import md5hex, safe_call

# algorithms a store may be configured with (`hash_name`) besides the usual md5 flavours: every fixed-length hashlib
# algorithm is in dvc_data.hashfile.hash.algorithms_available. Objects and the entries of directory listings are then
# keyed by that name.
ALGOS = ["sha256", "sha256", "sha1", "sha512", "blake2b", "sha3_256", "md5", "md5-dos2unix"]


def _hexdigest(algo, data: bytes) -> str:
    return hashlib.new("md5" if algo == "md5-dos2unix" else algo, data).hexdigest()


def _entry_key(algo) -> str:
    """the field of a listing entry that carries the hash (Tree.as_list: the algorithm's name; 'md5' for md5-dos2unix)"""
    return "md5" if algo == "md5-dos2unix" else algo


def _tree_bytes(entries, key_name, style="canonical"):
    """listing bytes of a directory object whose entries are keyed by `key_name`; `style` varies the JSON layout only"""
    lst = sorted(({key_name: v, "relpath": "/".join(k)} for k, v in entries.items()), key=lambda e: e["relpath"])
    if style == "compact":
        return json.dumps(lst, sort_keys=True, separators=(",", ":")).encode()
    if style == "relpath_first":
        return json.dumps([{"relpath": e["relpath"], key_name: e[key_name]} for e in lst]).encode()
    return json.dumps(lst, sort_keys=True).encode()


def rekey_universe(uni, algo, style="canonical"):
    """the same files and directory shapes, named by `algo` instead of md5"""
    out = stores.Universe.__new__(stores.Universe)
    ren = {o: _hexdigest(algo, b) for o, b in uni.files.items()}
    out.files = {ren[o]: b for o, b in uni.files.items()}
    out.trees, out.tree_raw = {}, {}
    for ents in uni.trees.values():
        e = {k: ren[v] for k, v in ents.items()}
        raw = _tree_bytes(e, _entry_key(algo), style)
        oid = _hexdigest(algo, raw) + ".dir"
        out.trees[oid] = e
        out.tree_raw[oid] = raw
    return out


# File names that are distinct on a POSIX file system (where the only special characters of a name are '/' and NUL) but fall
# together under one of the normalisations path-handling code is tempted to apply: the other platform's separator, case folding,
# stripping blanks / trailing dots, Unicode composition, URL-decoding, drive prefixes, leading "./" - and names JSON has to
# escape. A directory listing keeps every one of them as a relpath of its own; a listing is split at '/' and nowhere else.
CONFUSABLE = {
    "separator": lambda a, b, c: [(a, b), (a + "\\" + b,), (a, b + "\\" + c), (a, b, c), (a + "\\" + b, c), (a + "\\" + b + "\\" + c,)],
    "case": lambda a, b, c: [(a, b), (a.upper(), b), (a, b.upper()), (a.capitalize(), b)],
    "blank": lambda a, b, c: [(b,), (b + " ",), (" " + b,), (a, b), (a + " ", b)],
    "trailing_dot": lambda a, b, c: [(b,), (b + ".",), (a, c), (a + ".", c)],
    "unicode": lambda a, b, c: [(a, b + "\u00e9"), (a, b + "e\u0301"), ("\u00c5" + c,), ("A\u030a" + c,), ("\u212b" + c,)],
    "percent": lambda a, b, c: [(a, b), (a + "%2F" + b,), (a + "%2f" + b,), (a, b + "%20"), (a, b + " ")],
    "drive": lambda a, b, c: [(b,), ("c:" + b,), ("c:", b), ("C:" + b,)],
    "dot_slash": lambda a, b, c: [(b,), ("." + b,), ("._" + b,), ("..." + b,), (a, "." + b), (a, b)],
    "escaped": lambda a, b, c: [(a + "\n" + b,), (a + "\\n" + b,), (a + "\t" + b,), (a + '"' + b,), (a + "\\\"" + b,), (a + "\\u002f" + b,)],
}
NAME_POOL = ["sub", "x", "data", "a", "dir", "f", "img", "n0", "raw", "b"]


def rename_confusably(rng, uni):
    """Give every directory of the universe 2-3 groups of such names, every member of a group listing a *different* file (as
    far as the files go round) - so that confusing two of them would drop a file from the listing -, next to some of its
    ordinary entries. Returns the kinds used."""
    foids = list(uni.files)
    kinds_used = set()
    old = list(uni.trees.values())
    uni.trees, uni.tree_raw = {}, {}
    for ents in old:
        pool = foids[:]
        rng.shuffle(pool)
        e = {}
        for kind in rng.sample(sorted(CONFUSABLE), rng.randrange(2, 4)):
            a, b, c = rng.sample(NAME_POOL, 3)
            members = CONFUSABLE[kind](a, b, c)
            for k in rng.sample(members, rng.randrange(2, min(4, len(members)) + 1)):
                e[k] = pool.pop() if pool else rng.choice(foids)
            kinds_used.add(kind)
        for k, v in ents.items():
            if rng.random() < 0.5:
                e[("plain",) + k] = v
        # a name is a file or a directory, not both
        e = {k: v for k, v in e.items() if not any(k != m and m[: len(k)] == k for m in e)}
        raw = stores.tree_bytes(e)
        oid = md5hex(raw) + ".dir"
        uni.trees[oid] = e
        uni.tree_raw[oid] = raw
    return sorted(kinds_used)


def gen_case(rng, algo=None, names=False):
    """algo=None: the md5 flavours (the original family, same random draws); otherwise a store configured with `algo`.
    names: the directories list files under names that differ only by what a normalisation would erase (`rename_confusably`)"""
    if names:
        uni = stores.Universe(rng, nfiles=rng.randrange(6, 12))
        kinds = rename_confusably(rng, uni)
    else:
        uni = stores.Universe(rng)
    style = None
    if algo is not None:
        style = rng.choice(["canonical", "canonical", "library", "compact", "relpath_first"])
        uni = rekey_universe(uni, algo, "canonical" if style == "library" else style)
    all_oids = uni.all_oids()
    in_store = [o for o in all_oids if rng.random() < (0.9 if o.endswith(".dir") else 0.75)]
    separate_cache = rng.random() < 0.35
    in_cache = [o for o in uni.trees if rng.random() < 0.8] if separate_cache else None
    hash_name = rng.choice(["md5", "md5", "md5-dos2unix"]) if algo is None else algo
    foreign = [n for n in ("md5", "md5-dos2unix", "etag", "sha256", "sha1", "checksum") if n != hash_name]
    used = []
    for o in all_oids:
        r = rng.random()
        if r < 0.4:
            used.append([hash_name, o])
            if rng.random() < 0.25:
                # the very same value is also in use under another algorithm name (binary content has one md5 in both flavours)
                used.append([rng.choice(["md5-dos2unix" if hash_name == "md5" else "md5", "etag"] if algo is None else foreign), o])
            if rng.random() < 0.15:
                used.append([hash_name, o])  # plain duplicates
        elif r < 0.5:
            other = rng.choice(["sha256", "md5-dos2unix" if hash_name == "md5" else "md5", "etag"] if algo is None else foreign)
            used.append([other, o])
    for _ in range(rng.randrange(0, 3)):
        used.append([hash_name, _hexdigest(hash_name, b"absent-%d" % rng.randrange(1000)) + rng.choice(["", ".dir"])])
    rng.shuffle(used)
    case = {
        "files": {k: v.decode() for k, v in uni.files.items()},
        "trees": {d: {"/".join(k): v for k, v in e.items()} for d, e in uni.trees.items()},
        "store": in_store, "cache": in_cache, "hash_name": hash_name, "used": used,
        "used_form": rng.choice(["list", "set", "tuple", "iter", "generator"]), "shallow": rng.random() < 0.45, "dry": rng.random() < 0.3, "local": rng.random() < 0.6,
        "read_only": rng.random() < 0.08,
        # leftovers of DVC 1.x next to directory objects of a local store (`<oid>.unpacked/`): gc removes them with the object
        "unpacked": [o for o in in_store if o.endswith(".dir") and rng.random() < 0.4],
    }
    if algo is not None:
        # "library": the listings in the store are written by the library itself (Tree.add + as_bytes) rather than by the harness
        case["algo"] = algo
        case["listing_style"] = style
        case["shallow"] = rng.random() < 0.3
        case["dry"] = rng.random() < 0.25
    if names:
        # what protects a file here is mostly its being listed, and most requests can be expanded (the other families cover
        # used directories that cannot be loaded): directories in use, few files in use on their own account
        loadable = set(in_store) & set(in_cache if in_cache is not None else in_store)
        used = []
        for o in all_oids:
            if rng.random() < ((0.6 if o in loadable else 0.06) if o.endswith(".dir") else 0.2):
                used.append([hash_name, o])
            if rng.random() < 0.12:
                used.append([rng.choice(foreign), o])
        if rng.random() < 0.12:
            used.append([hash_name, _hexdigest(hash_name, b"absent-%d" % rng.randrange(1000)) + rng.choice(["", ".dir"])])
        rng.shuffle(used)
        case["used"] = used
        case["names"] = kinds
        case["shallow"] = rng.random() < 0.15
        case["read_only"] = rng.random() < 0.03
    return case, uni


# where a second store sits relative to the directory of the first: dvc_data.repo.Repo puts the legacy store at `<cache>` and the
# current one at `<cache>/files/md5`; the other shapes vary depth and the length of the directory names on the way down
NEST_RELS = [["files", "md5"], ["files", "md5"], ["files", "md5"], ["files", "sha256"], ["runs"], ["v2"], ["ab", "cd"], ["files", "md5", "v3"]]


def gen_nested_case(rng, algo=None):
    """Two stores, one inside the directory of the other (`nest`). `collect` says which of the two gc is asked to collect - the
    case's store/used/... describe that one; the other one is a bystander: its objects are not objects of the collected store."""
    case, uni = gen_case(rng, algo)
    case["local"] = rng.random() < 0.8
    case["read_only"] = rng.random() < 0.04
    objs = {}
    # the bystander shares objects with the collected store (as after a migration: binary content has one md5 in both flavours):
    # used ones, unused ones, directory objects, objects the collected store lacks - and holds objects of its own
    for o in uni.all_oids():
        if rng.random() < 0.45:
            objs[o] = uni.data(o).decode()
    for i in range(rng.randrange(1, 4)):
        b = b"bystander-%d-%d" % (i, rng.randrange(10**6))
        objs[_hexdigest(case["hash_name"], b)] = b.decode()
    case["nest"] = {
        "rel": list(rng.choice(NEST_RELS)),
        "collect": rng.choice(["outer", "outer", "outer", "inner"]),
        "objects": objs,
        # other things a cache directory holds that are no objects at all
        "stray": [r for r in (["README"], ["files", "note.txt"], ["tmp", "ab", "cd", "x"], ["runs", "ab", "abcdef", "abcdef"]) if rng.random() < 0.3],
    }
    return case, uni


def _nest_paths(root, case):
    """(directory of the collected store, directory of the bystander store, directory holding both)"""
    outer = os.path.join(root, "odb")
    nest = case.get("nest")
    if not nest:
        return outer, None, outer
    inner = os.path.join(outer, *nest["rel"])
    return (outer, inner, outer) if nest["collect"] == "outer" else (inner, outer, outer)


def _not_the_stores(top, store_path):
    """every file below `top` that is not an object of the store at `store_path` (not at <store>/<2 chars>/<name>) nor part of an
    `<oid>.unpacked` leftover of it: {relative path: bytes}, listed without the library's help"""
    out = {}
    for dp, _dns, fns in os.walk(top):
        for fn in fns:
            p = os.path.join(dp, fn)
            rel = os.path.relpath(p, store_path).split(os.sep)
            if rel[0] != os.pardir and len(rel) == 2 and len(rel[0]) == 2:
                continue
            if rel[0] != os.pardir and len(rel) >= 3 and len(rel[0]) == 2 and rel[1].endswith(".unpacked"):
                continue
            with open(p, "rb") as f:
                out[os.path.relpath(p, top)] = f.read().decode("latin-1")
    return out


def rebuild_universe(case):
    uni = stores.Universe.__new__(stores.Universe)
    uni.files = {k: v.encode() for k, v in case["files"].items()}
    uni.trees = {d: {tuple(k.split("/")): v for k, v in e.items()} for d, e in case["trees"].items()}
    if case.get("algo") is None:
        uni.tree_raw = {d: stores.tree_bytes(e) for d, e in uni.trees.items()}
    else:
        style = case.get("listing_style", "canonical")
        uni.tree_raw = {d: _tree_bytes(e, _entry_key(case["algo"]), "canonical" if style == "library" else style) for d, e in uni.trees.items()}
    return uni


def _library_listing(case, uni, oid):
    """the bytes the library itself writes for this directory object (entries keyed by the store's algorithm)"""
    from dvc_data.hashfile.hash_info import HashInfo
    from dvc_data.hashfile.meta import Meta
    from dvc_data.hashfile.tree import Tree

    t = Tree()
    for k, v in uni.trees[oid].items():
        t.add(k, Meta(size=len(uni.files[v])), HashInfo(case["algo"], v))
    return t.as_bytes()


def run_impl(ctx, case, uni):
    from dvc_objects.errors import ObjectDBPermissionError

    from dvc_data.hashfile.gc import gc

    root = ctx.mkdtemp()
    odb_path, other_path, top = _nest_paths(root, case)
    odb = stores.make_odb(odb_path, local=case["local"], hash_name=case["hash_name"])
    stores.populate(odb, uni, case["store"])
    if other_path is not None:
        os.makedirs(other_path, exist_ok=True)
        for o, data in case["nest"]["objects"].items():
            stores.put_raw(other_path, o, data.encode())
        for rel in case["nest"]["stray"]:
            p = os.path.join(top, *rel)
            rel_odb = os.path.relpath(p, odb_path).split(os.sep)
            if rel_odb[0] != os.pardir and len(rel_odb) == 2 and len(rel_odb[0]) == 2:
                continue  # would sit where the collected store keeps an object
            os.makedirs(os.path.dirname(p), exist_ok=True)
            if not os.path.isdir(p) and not os.path.exists(p):
                with open(p, "w") as f:
                    f.write("stray " + "/".join(rel))
    cache = None
    if case["cache"] is not None:
        cache = stores.make_odb(os.path.join(root, "cache"), local=True, hash_name=case["hash_name"])
        stores.populate(cache, uni, case["cache"])
    if case.get("listing_style") == "library":
        for db, oids in ((odb, case["store"]), (cache, case["cache"] or [])):
            for o in oids:
                if o.endswith(".dir"):
                    stores.put_raw(db.path, o, _library_listing(case, uni, o))
    for o in case.get("unpacked", []) if case["local"] else []:
        d = os.path.join(odb.path, o[:2], o[2:] + ".unpacked")
        os.makedirs(d, exist_ok=True)
        with open(os.path.join(d, "f"), "w") as f:
            f.write("x")
    if case["read_only"]:
        odb.read_only = True
    before = stores.listing_of(odb.path)
    extras_before = _extras(odb.path)
    others_before = _not_the_stores(top, odb.path) if other_path is not None else None
    used = [stores.hi(v, n) for n, v in case["used"]]
    # `used` is declared Iterable[HashInfo]: lists, sets, tuples and one-shot iterators / generators are all valid
    form = case.get("used_form", "list")
    used = {"list": used, "set": set(used), "tuple": tuple(used), "iter": iter(used), "generator": (h for h in used)}[form]
    files_before = _files_below(odb.path)
    all_before = safe_call(lambda: sorted(odb.all()))[1]
    kind, val = safe_call(lambda: gc(odb, used, cache_odb=cache, shallow=case["shallow"], dry=case["dry"]),
                          expected=(ObjectDBPermissionError, FileNotFoundError))
    after = stores.listing_of(odb.path)
    run_impl.layout = (files_before, all_before, _files_below(odb.path), safe_call(lambda: sorted(odb.all()))[1])
    run_impl.extras = (extras_before, _extras(odb.path))
    run_impl.others = (others_before, _not_the_stores(top, odb.path) if other_path is not None else None)
    if kind == "ok":
        return {"removed": val, "store": after}, before
    return {"err": val, "store": after}, before


def _files_below(path):
    """every file below the store directory as its path components relative to it ('<oid>.unpacked' leftovers aside)"""
    out = []
    for dp, dns, fns in os.walk(path):
        dns[:] = [d for d in dns if not d.endswith(".unpacked")]
        rel = [] if dp == path else os.path.relpath(dp, path).split(os.sep)
        for fn in fns:
            out.append(rel + [fn])
    return sorted(out)


def _extras(path):
    """everything under the store directory that is not an object file: `<oid>.unpacked/` leftovers"""
    out = []
    for dp, dns, fns in os.walk(path):
        for dn in dns:
            if dn.endswith(".unpacked"):
                rel = os.path.relpath(os.path.join(dp, dn), path)
                out.append(rel.replace(os.sep, "")[: -len(".unpacked")])
    return sorted(out)


def expected(case, uni, before):
    """independent statement of the property (set arithmetic on the request)"""
    cache = set(case["cache"]) if case["cache"] is not None else set(before)
    keep = set()
    for n, v in case["used"]:
        if n != case["hash_name"]:
            continue
        keep.add(v)
        if v.endswith(".dir") and not case["shallow"]:
            if v not in cache or v not in uni.trees:
                return "FileNotFoundError"
            keep.update(uni.trees[v].values())
    return keep


def check(ctx, case, uni, ans):
    impl, before = run_impl(ctx, case, uni)
    ctx.case(case, nontrivial=len(before) >= 2 and any(n == case["hash_name"] for n, _ in case["used"]))
    ctx.count("shallow=%s dry=%s" % (case["shallow"], case["dry"]))
    ctx.count("local=%s" % case["local"])
    ctx.count("separate_cache=%s" % (case["cache"] is not None))
    if case.get("algo") is not None:
        ctx.count("algo_store:" + case["algo"])
        ctx.count("algo_listing:" + case["listing_style"])
        if not case["shallow"] and not case["read_only"] and any(
                n == case["hash_name"] and v in uni.trees and v in before for n, v in case["used"]):
            ctx.count("algo_store_used_dir_expanded")
    if case.get("names") is not None:
        for kind in case["names"]:
            ctx.count("names:" + kind)
        ctx.count("names:listing=" + str(case.get("listing_style")))
    model = dict(ans)
    if "store" in model:
        model["store"] = sorted(model["store"])
    else:
        model["store"] = sorted(before)
    model.pop("unpacked", None)
    ctx.corr("Status.gc~gc.gc", case, impl, model)
    ctx.corr("Status.gcLeftovers~'.unpacked' directories after gc", case, run_impl.extras[1], sorted(ans.get("unpacked", [])))
    ctx.count("outcome:" + ("ok" if "removed" in impl else impl["err"]))
    # the directory layout: what the store lists as its objects is what the two-component paths below its root spell, and
    # a collection leaves every other file below the root where it was
    # (queued; run_cases sends the whole family to the driver in one batch - see flush_layout)
    f_before, all_before, f_after, all_after = run_impl.layout
    _LAYOUT_QUEUE.append((case, all_before, f_after, all_after,
                          {"op": "store_layout", "files": f_before, "keep": all_after if isinstance(all_after, list) else []}))
    if any(len(f) != 2 or len(f[0]) != 2 for f in f_before):
        ctx.count("layout:files that are no objects below the root")
    # oracle
    ex_before, ex_after = run_impl.extras
    if case.get("nest"):
        # gc removes objects *of the store* and nothing else: whatever the request and its outcome (refused, failed, dry, real),
        # the objects of a store nested in / surrounding the collected one and files that are no objects stay as they were.
        # (That they are not counted either is the `removed` clause below: it counts the collected store's objects only.)
        nest = case["nest"]
        ctx.count("nested:collect=%s rel=%s" % (nest["collect"], "/".join(nest["rel"])))
        ctx.count("nested:bystander_shares_object=%s" % any(o in before for o in nest["objects"]))
        if nest["stray"]:
            ctx.count("nested:stray_files")
        o_before, o_after = run_impl.others
        gone = sorted(k for k in o_before if k not in o_after)
        changed = sorted(k for k in o_before if k in o_after and o_after[k] != o_before[k])
        new = sorted(k for k in o_after if k not in o_before)
        ctx.oracle(not gone and not changed and not new, case,
                   {"why": "gc touched files below the cache directory that are not objects of the collected store (objects of the "
                           "other store / stray files)", "impl": impl, "removed_paths": gone, "changed_paths": changed, "new_paths": new})
    if case["read_only"]:
        ctx.oracle(impl.get("err") == "ObjectDBPermissionError" and impl["store"] == before and ex_after == ex_before, case,
                   {"why": "read-only store not refused / modified", "impl": impl, "unpacked_before": ex_before, "unpacked_after": ex_after})
        return
    keep = expected(case, uni, before)
    if keep == "FileNotFoundError":
        # a used directory that cannot be loaded for expansion: nothing may be removed
        ctx.oracle(impl["store"] == before and "removed" not in impl, case,
                   {"why": "gc proceeded although a used directory could not be expanded", "impl": impl})
        return
    unused = [o for o in before if o not in keep]
    exp_after = before if case["dry"] else [o for o in before if o in keep]
    ok = impl.get("removed") == len(unused) and impl["store"] == exp_after
    ctx.oracle(ok, case, {"why": "gc did not remove exactly the unused objects", "impl": impl,
                          "expected_removed": len(unused), "expected_store": exp_after})
    if case.get("names") is not None and not case["shallow"]:
        # the clause about expansion, spelled out per relpath: every file a used directory lists - under whatever name - that the
        # store held is still there (a dry run included)
        lost = {}
        for n, v in case["used"]:
            if n == case["hash_name"] and v in uni.trees:
                ctx.count("names:used_dir_expanded")
                for k, f in uni.trees[v].items():
                    if f in before and f not in impl["store"]:
                        lost.setdefault(v, {})["/".join(k)] = f
        ctx.oracle(not lost, case, {"why": "gc(shallow=False) removed files listed by a used directory object", "lost": lost, "impl": impl})
    if ex_before:
        ctx.count("unpacked_leftovers")
    # a dry run removes nothing at all; a real run takes the leftover along with an unused directory object only
    exp_extras = ex_before if case["dry"] else [o for o in ex_before if o in keep]
    ctx.oracle(ex_after == exp_extras, case, {"why": "leftover '<oid>.unpacked' directories: a dry run removed one, or a real run removed the one of a used object / kept the one of a removed object",
                                              "unpacked_before": ex_before, "unpacked_after": ex_after, "expected": exp_extras})
    ctx.sample({"case": {k: case[k] for k in ("store", "used", "shallow", "dry", "local")}, "impl": impl})


def model_req(case, uni, before=None):
    store = sorted(case["store"])
    cache = case["cache"] if case["cache"] is not None else store
    return {"op": "gc", "L": uni.L_json(), "store": store, "cache": cache, "hash_name": case["hash_name"],
            "used": case["used"], "shallow": case["shallow"], "dry": case["dry"], "read_only": case["read_only"],
            "unpacked": sorted(case.get("unpacked", [])) if case["local"] else []}


_LAYOUT_QUEUE = []


def flush_layout(ctx):
    queue, _LAYOUT_QUEUE[:] = list(_LAYOUT_QUEUE), []
    for (case, all_before, f_after, all_after, _req), lay in zip(queue, ctx.driver.batch([q[4] for q in queue])):
        ctx.corr("StoreLayout.listOids~ObjectDB.all() (before gc)", case, all_before, sorted(lay.get("oids", [])) if "oids" in lay else lay)
        if isinstance(all_after, list):
            ctx.corr("StoreLayout.afterGc~files below the store root after gc", case, f_after, sorted(lay.get("after_gc", [])) if "after_gc" in lay else lay)


def run_cases(ctx, n, algos=False, nested=False, names=False):
    if names:
        cases = [gen_case(ctx.rng, ctx.rng.choice(["md5", "md5", "md5-dos2unix", "sha256"]), names=True) for _ in range(n)]
    elif nested:
        cases = [gen_nested_case(ctx.rng, ctx.rng.choice([None, None, None] + ALGOS[:2])) for _ in range(n)]
    else:
        cases = [gen_case(ctx.rng, ctx.rng.choice(ALGOS) if algos else None) for _ in range(n)]
    answers = ctx.driver.batch([model_req(c, u) for c, u in cases])
    for (c, u), a in zip(cases, answers):
        check(ctx, c, u, a)
    flush_layout(ctx)


def run(ctx):
    ctx.rule = (
        "stores holding a random 75% of a universe of 2-7 files and 1-4 directory objects with shared/repeated files; used sets "
        "mixing identifiers of the store's algorithm, of other algorithms, and absent identifiers; shallow/expanding x dry/real x "
        "HashFileDB/LocalHashFileDB x separate cache store x read-only. A second family (counters algo_store:*, algo_listing:*, "
        "algo_store_used_dir_expanded) configures the store with another algorithm (hash_name in sha256, sha1, sha512, blake2b, "
        "sha3_256, and the md5 flavours as control): objects named by that digest, listing entries keyed by that name, listings "
        "in canonical / compact / relpath-first JSON or written by the library's own Tree.as_bytes, used sets mixing in "
        "identifiers of foreign algorithms. A third family (counters nested:*) puts two stores into one cache directory, one inside "
        "the directory of the other (<cache> and <cache>/files/md5 as dvc_data.repo.Repo lays them out, and other depths / "
        "directory-name lengths), the bystander store sharing used and unused objects with the collected one and holding its own, "
        "plus stray non-object files; gc collects the outer or the inner store: count and contents of the collected store as "
        "before, and every file that is not one of its objects must be left byte-for-byte alone. A fourth family (counters names:*) "
        "lets the directories list their files under names that are distinct on POSIX but differ only by what some normalisation "
        "erases (backslash vs '/', letter case, blanks, trailing dots, Unicode composition, percent-encoding, drive prefixes, "
        "leading dots, characters JSON escapes), each such name listing a different file; mostly expanding mode, listings written "
        "by the harness or by Tree.as_bytes; besides the exact-removal oracle, no file listed by a used directory may disappear. non-trivial = >=2 objects in the store and >=1 used "
        "identifier of the store's algorithm; distinct = sha256 of the case"
    )
    ctx.assumptions = ["identifiers of directory objects end in '.dir'"]
    run_cases(ctx, ctx.n(300, 4000))
    run_cases(ctx, ctx.n(150, 1500), algos=True)
    run_cases(ctx, ctx.n(120, 1200), nested=True)
    run_cases(ctx, ctx.n(250, 2000), names=True)


def search(ctx):
    run_cases(ctx, 4000)
    run_cases(ctx, 1500, algos=True)
    run_cases(ctx, 1200, nested=True)
    run_cases(ctx, 2000, names=True)


def replay(ctx, payload):
    c = payload.get("case") or payload.get("diverging_case")
    uni = rebuild_universe(c)
    check(ctx, c, uni, ctx.driver.ask(model_req(c, uni)))
    flush_layout(ctx)
