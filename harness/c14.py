"""C14 — hashing is correct, chunking-independent and a faithful pass-through (hash.py, istextfile.py)."""
import hashlib
import io
import os

from .util import safe_call

NAMES = ["md5", "MD5", "Md5", "sha256", "SHA256", "sha1", "md5-dos2unix", "blake3", "MD5-DOS2UNIX", "Md5-Dos2Unix"]


class ChunkFile(io.RawIOBase):
    """file object that answers read(n) with the next pre-cut chunk (each chunk <= n)"""

    def __init__(self, chunks):
        self.chunks = list(chunks)
        self.pos = 0
        self.asked = []

    def readable(self):
        return True

    def read(self, n=-1):
        self.asked.append(n)
        if not self.chunks:
            return b""
        c = self.chunks.pop(0)
        if n is not None and n >= 0 and len(c) > n:
            self.chunks.insert(0, c[n:])
            c = c[:n]
        self.pos += len(c)
        return c

    def tell(self):
        return self.pos


def ref_digest(name, data):
    n = name.lower()
    if n == "blake3":
        from blake3 import blake3

        return blake3(data).hexdigest()
    if n == "md5-dos2unix":
        n = "md5"
    return hashlib.new(n, data).hexdigest()


def gen_content(rng):
    kind = rng.choice(["text", "crlf", "binary", "mixed", "nul", "edge", "empty", "cr"])
    size = rng.choice([0, 1, 2, 5, 100, 510, 511, 512, 513, 514, 1023, 1024, 1025, 3000, rng.randrange(0, 5000)])
    if kind == "empty":
        return b"", kind
    if kind == "text":
        b = bytes(rng.choice(b"abcdefghij \n\t") for _ in range(size))
    elif kind == "crlf":
        b = b"".join(rng.choice([b"line", b"x", b"", b"\r", b"\r\r"]) + rng.choice([b"\r\n", b"\n", b"\r\n\r\n"]) for _ in range(size // 4 + 1))
    elif kind == "cr":
        b = bytes(rng.choice(b"\r\n\r\rab") for _ in range(size))
    elif kind == "binary":
        b = bytes(rng.randrange(1, 256) for _ in range(size))
    elif kind == "nul":
        b = bytearray(rng.choice(b"abc\r\n") for _ in range(max(size, 1)))
        b[rng.randrange(len(b))] = 0
        b = bytes(b)
    elif kind == "mixed":
        # around the 30 % threshold inside the 512-byte window
        n = max(size, 10)
        frac = rng.choice([0.28, 0.29, 0.30, 0.31, 0.32])
        k = int(round(min(n, 512) * frac)) + rng.choice([-1, 0, 1])
        k = max(0, min(n, k))
        lst = [rng.choice(b"\x01\x02\x7f\x80\xff") for _ in range(k)] + [rng.choice(b"ab\r\n") for _ in range(n - k)]
        head = lst[:512]
        rng.shuffle(head)
        b = bytes(head + lst[512:])
    else:  # edge: CRLF straddling positions 511/512 and the chunk boundary
        pre = rng.choice([510, 511, 512])
        b = b"a" * pre + b"\r\n" + b"b" * rng.randrange(0, 600) + rng.choice([b"", b"\r", b"\r\n"])
    return b, kind


def cut(rng, data, minread):
    """random read schedule: partition into chunks of size <= minread-bounded asks"""
    if not data:
        return []
    mode = rng.choice(["one", "two", "rand", "tiny"])
    if mode == "one":
        return [data]
    if mode == "two":
        k = rng.randrange(1, len(data) + 1)
        return [c for c in (data[:k], data[k:]) if c]
    out, i = [], 0
    while i < len(data):
        m = rng.randrange(1, 8) if mode == "tiny" else rng.randrange(1, max(2, len(data)))
        out.append(data[i : i + m])
        i += m
    return out


def impl_stream(name, chunks, readsize):
    from dvc_data.hashfile.hash import get_hash_stream

    def f():
        fobj = ChunkFile(chunks)
        st = get_hash_stream(fobj, name)
        got = []
        while True:
            d = st.read(readsize)
            if not d:
                break
            got.append(d)
        from dvc_data.hashfile.hash import fobj_md5

        # the library's own consumer loop over the same short-reading file object
        whole = fobj_md5(ChunkFile(chunks), chunk_size=readsize, name=name)
        return {"passed": [c.hex() for c in got], "total": st.total_read, "digest": st.hash_value, "fobj_md5": whole}

    kind, v = safe_call(f)
    return v if kind == "ok" else {"err": v}


def run_streams(ctx, n):
    rng = ctx.rng
    cases = []
    for _ in range(n):
        data, kind = gen_content(rng)
        name = rng.choice(NAMES)
        readsize = rng.choice([512, 513, 1024, 4096, 2**20])
        chunks = [c for piece in cut(rng, data, readsize) for c in [piece[i : i + readsize] for i in range(0, len(piece), readsize)]]
        cases.append((data, kind, name, readsize, chunks))
    answers = ctx.driver.batch([{"op": "hashstream", "name": name, "chunks": [c.hex() for c in chunks]} for (_, _, name, _, chunks) in cases])
    for (data, kind, name, readsize, chunks), ans in zip(cases, answers):
        case = {"name": name, "readsize": readsize, "chunks": [c.hex() for c in chunks]}
        ctx.case(case, nontrivial=len(chunks) >= 1)
        ctx.count("content:" + kind)
        ctx.count("name:" + name)
        ctx.count("nchunks:" + ("1" if len(chunks) == 1 else "0" if not chunks else ">1"))
        impl = impl_stream(name, chunks, readsize)
        fed = bytes.fromhex(ans["fed"])
        model = {"passed": ans["passed"], "total": ans["total"], "digest": ref_digest(name, fed), "fobj_md5": ref_digest(name, fed)}
        if name.lower() in ("md5", "md5-dos2unix"):
            ctx.corr("Md5.hex~hashlib.md5", {"fed": ans["fed"]}, hashlib.md5(fed).hexdigest(), ans["md5"])
        ctx.corr("Hash.runStream~get_hash_stream", case, impl, model)
        # oracle on the implementation only
        if "err" in impl:
            ctx.oracle(False, case, {"impl": impl, "why": "hash stream raised"})
            continue
        ok = impl["passed"] == [c.hex() for c in chunks]
        if name.lower() != "md5-dos2unix":
            ok = ok and impl["digest"] == ref_digest(name, data) and impl["total"] == len(data)
            ok = ok and impl["fobj_md5"] == ref_digest(name, data)
        else:
            # the text-normalising stream, too, counts the bytes it read (not the bytes it hashed)
            ok = ok and impl["total"] == len(data)
        if name.lower() == "md5-dos2unix" and len(chunks) == 1:
            from_text = _is_text_ref(data[:512])
            exp = hashlib.md5(data.replace(b"\r\n", b"\n") if from_text else data).hexdigest()
            ok = ok and impl["digest"] == exp and impl["fobj_md5"] == exp
        ctx.oracle(ok, case, {"impl": impl, "why": "digest/pass-through/total differ from the reference"})
        ctx.sample({"case": {**case, "chunks": case["chunks"][:2]}, "impl_digest": impl.get("digest")})


def _is_text_ref(block):
    """independent statement of the sniffing rule"""
    if not block:
        return True
    if 0 in block:
        return False
    text = set(range(32, 127)) | {10, 13, 9, 12, 8}
    non = sum(1 for c in block if c not in text)
    return 10 * non <= 3 * len(block)


def run_files(ctx, n):
    """file-level API: file_md5 / hash_file / fobj_md5 with the library's own chunking"""
    from dvc_objects.fs.local import LocalFileSystem

    from dvc_data.hashfile.hash import file_md5, fobj_md5, hash_file

    fs = LocalFileSystem()
    rng = ctx.rng
    d = ctx.mkdtemp()
    for i in range(n):
        data, kind = gen_content(rng)
        if rng.random() < 0.15:
            data = data * rng.choice([300, 700])  # up to a few MB: crosses the 1 MiB read size
            data = data[: 2**20 + rng.choice([-1, 0, 1, 5000])] if rng.random() < 0.5 and len(data) > 2**20 else data
        name = rng.choice(["md5", "sha256", "md5-dos2unix", "blake3", "sha1"])
        p = os.path.join(d, f"f{i}")
        with open(p, "wb") as f:
            f.write(data)
        case = {"file": True, "name": name, "len": len(data), "kind": kind, "head": data[:64].hex()}
        ctx.case(case)
        ctx.count("file:" + name)
        k1, v1 = safe_call(lambda: file_md5(p, fs, name=name))
        k2, v2 = safe_call(lambda: hash_file(p, fs, name)[1].value)
        k3, v3 = safe_call(lambda: fobj_md5(io.BytesIO(data), chunk_size=rng.choice([512, 1000, 2**20]), name=name))
        if name != "md5-dos2unix":
            exp = ref_digest(name, data)
            ctx.oracle(v1 == exp and v2 == exp and v3 == exp, case, {"file_md5": v1, "hash_file": v2, "fobj_md5": v3, "reference": exp})
        else:
            ctx.oracle(v1 == v2, case, {"file_md5": v1, "hash_file": v2})
            if len(data) <= 2**20:
                exp = hashlib.md5(data.replace(b"\r\n", b"\n") if _is_text_ref(data[:512]) else data).hexdigest()
                ctx.oracle(v1 == exp, case, {"file_md5": v1, "reference_single_read": exp})
                # CRLF / LF variants of a text file that fits one read
                if b"\r\n" not in data and data:
                    crlf = data.replace(b"\n", b"\r\n")
                    if len(crlf) <= 2**20 and _is_text_ref(data[:512]) and _is_text_ref(crlf[:512]):
                        q = p + ".crlf"
                        with open(q, "wb") as f:
                            f.write(crlf)
                        kq, vq = safe_call(lambda: file_md5(q, fs, name=name))
                        ctx.count("crlf-lf pair")
                        ctx.oracle(vq == v1, case, {"lf": v1, "crlf": vq, "why": "CRLF and LF variants hash differently"})
                        os.remove(q)
        os.remove(p)


RECORDED_KEYS = ["md5", "etag", "checksum"]
FS_CONFIGS = ["local-info", "recording-local", "datafs", "datafs-info"]


def _legacy_ref(data):
    """the single-read legacy digest (every content here fits one read)"""
    return hashlib.md5(data.replace(b"\r\n", b"\n") if _is_text_ref(data[:512]) else data).hexdigest()


def _expected(name, data):
    return _legacy_ref(data) if name.lower() == "md5-dos2unix" else ref_digest(name, data)


def hashfile_fs_case(ctx, case):
    """hash_file() - the entry point build()/index save/migration use - over a filesystem that already *records*
    hashes for its files: a local filesystem whose info (the info= argument, or info() itself) carries md5 / etag /
    checksum fields, or a DataFileSystem over an index whose entries are recorded under `index_hash`.  Every record is
    accurate (the raw digest of the stored bytes), so whatever shortcut the library takes, the digest it answers for
    algorithm `name` must be the digest of the content under *that* algorithm."""
    from dvc_objects.fs.local import LocalFileSystem

    from dvc_data.hashfile.hash import hash_file

    cfg, name, recorded = case["hashfile_fs"], case["name"], case["recorded"]
    datas = [bytes.fromhex(x) for x in case["contents"]]
    d = ctx.mkdtemp()
    local = LocalFileSystem()
    paths = []
    if cfg in ("local-info", "recording-local"):
        rec = {}
        for i, data in enumerate(datas):
            p = os.path.join(d, f"f{i}")
            with open(p, "wb") as f:
                f.write(data)
            paths.append(p)
            rec[p] = {k: hashlib.md5(data).hexdigest() for k in recorded}

        if cfg == "recording-local":

            class RecordingFS(LocalFileSystem):
                def info(self, path, **kw):
                    return {**super().info(path, **kw), **rec.get(path, {})}

            fs = RecordingFS()
            infos = [fs.info(p) if case["info_arg"] else None for p in paths]
        else:
            fs = local
            infos = [{**fs.info(p), **rec[p]} for p in paths]
    else:
        from dvc_data.fs import DataFileSystem
        from dvc_data.hashfile.db import HashFileDB
        from dvc_data.hashfile.hash_info import HashInfo
        from dvc_data.hashfile.meta import Meta
        from dvc_data.index import DataIndex, DataIndexEntry, ObjectStorage

        ih = case["index_hash"]
        oids = [_expected(ih, data) for data in datas]
        # a legacy store names a CRLF text and its LF twin alike (that is the point of the algorithm): the twins
        # then live in one store each, mounted at their own keys; otherwise one store serves the whole index
        per_entry = len(set(oids)) < len(oids)
        entries, odbs = {}, []
        for i, (data, oid) in enumerate(zip(datas, oids)):
            odb = HashFileDB(local, os.path.join(d, f"odb{i}" if per_entry else "odb"), hash_name=ih)
            odb.add_bytes(oid, data)
            key = ("sub", f"f{i}") if case.get("nested") else (f"f{i}",)
            entries[key] = DataIndexEntry(key=key, meta=Meta(size=len(data)), hash_info=HashInfo(name=ih, value=oid))
            paths.append("/".join(key))
            odbs.append((key, odb))
        index = DataIndex(entries)
        if per_entry:
            for key, odb in odbs:
                index.storage_map.add_cache(ObjectStorage(key, odb))
        else:
            index.storage_map.add_cache(ObjectStorage((), odbs[0][1]))
        fs = DataFileSystem(index)
        infos = [fs.info(p) if cfg == "datafs-info" else None for p in paths]

    got = []
    for p, info, data in zip(paths, infos, datas):

        def f():
            with fs.open(p, "rb") as fobj:
                served = fobj.read()
            meta, hi = hash_file(p, fs, name, info=info)
            return {"served_intact": served == data, "hash_name": hi.name, "value": hi.value, "size": meta.size}

        k, v = safe_call(f)
        got.append(v if k == "ok" else {"err": v})
    exp = [{"served_intact": True, "hash_name": name, "value": _expected(name, data), "size": len(data)} for data in datas]
    ctx.oracle(got == exp, case, {"why": "hash_file over a filesystem with recorded hashes: digest is not the digest of the content under the asked algorithm",
                                  "impl": got, "expected": exp})
    if len(datas) == 2 and name == "md5-dos2unix":
        ctx.oracle("err" not in got[0] and "err" not in got[1] and got[0]["value"] == got[1]["value"], case,
                   {"why": "CRLF and LF variants hash differently", "lf": got[0], "crlf": got[1]})


def run_hashfile_fs(ctx, n):
    rng = ctx.rng
    for _ in range(n):
        data, kind = gen_content(rng)
        if rng.random() < 0.3:  # more line-ending material than the uniform family choice gives
            data = b"".join(rng.choice([b"alpha", b"b", b"", b"\t x"]) + rng.choice([b"\n", b"\r\n"]) for _ in range(rng.randrange(1, 40)))
            kind = "lines"
        contents = [data]
        twin = False
        if data and b"\r\n" not in data and b"\n" in data:
            crlf = data.replace(b"\n", b"\r\n")
            if _is_text_ref(data[:512]) and _is_text_ref(crlf[:512]):
                contents, twin = [data, crlf], True
        cfg = rng.choice(FS_CONFIGS)
        name = rng.choice(["md5", "sha256", "md5-dos2unix", "md5-dos2unix", "blake3", "sha1"])
        case = {"hashfile_fs": cfg, "name": name, "contents": [c.hex() for c in contents]}
        if cfg.startswith("datafs"):
            case["index_hash"] = rng.choice(["md5", "md5", "md5-dos2unix", "sha256"])
            case["nested"] = rng.random() < 0.3
            case["recorded"] = [case["index_hash"]]
        else:
            case["recorded"] = sorted(set(["md5"] if rng.random() < 0.7 else []) | set(rng.sample(RECORDED_KEYS, rng.randrange(0, 3))))
            case["info_arg"] = cfg == "local-info" or rng.random() < 0.5
        ctx.case(case)
        ctx.count("hashfile_fs:" + cfg)
        ctx.count("hashfile_fs name:" + name)
        ctx.count("hashfile_fs recorded:" + ",".join(case["recorded"]))
        ctx.count("hashfile_fs content:" + kind)
        if twin:
            ctx.count("hashfile_fs crlf-lf pair")
        if name == "md5-dos2unix" and "md5" in case["recorded"] and any(b"\r\n" in c and _is_text_ref(c[:512]) for c in contents):
            ctx.count("hashfile_fs legacy name, recorded md5, CRLF text")
        hashfile_fs_case(ctx, case)


SIZE_CFGS = ["file_md5-arg", "stale-info", "sizeless-fs", "datafs"]
SIZE_REPORTS = ["none", "absent", "zero", "short", "long", "exact"]


def _reported(report, n):
    """the size a listing / caller claims for a file of n bytes"""
    return {"none": None, "absent": None, "zero": 0, "short": n // 2, "long": 2 * n + 7, "exact": n}[report]


def size_report_case(ctx, case):
    """The size that comes with a file - the size= argument of file_md5, the `size` field of an info dict handed to
    hash_file, what the filesystem's own info()/size() answer, the size of an index entry behind a DataFileSystem - is
    a progress hint only: it may be unknown (None / no such field: an index entry loaded without a size, a server that
    sends no length), understated (0 as procfs reports, or a listing taken while the writer had not finished) or
    overstated (listing taken before a truncating rewrite).  Whatever it says, the digest is the reference digest of
    the bytes the file serves *now*, and a progress callback is told of exactly those bytes."""
    from dvc_objects.fs.local import LocalFileSystem
    from fsspec.callbacks import Callback

    from dvc_data.hashfile.hash import file_md5, hash_file

    from .util import bump_mtime

    cfg, name, report = case["size_report"], case["name"], case["report"]
    data = bytes.fromhex(case["content"])
    claimed = _reported(report, len(data))
    d = ctx.mkdtemp()
    local = LocalFileSystem()
    p = os.path.join(d, "f")
    cb = Callback() if case.get("callback") else None

    def doctor(info):
        info = dict(info)
        if report == "absent":
            info.pop("size", None)
        else:
            info["size"] = claimed
        return info

    if cfg == "datafs":
        from dvc_data.fs import DataFileSystem
        from dvc_data.hashfile.db import HashFileDB
        from dvc_data.hashfile.hash_info import HashInfo
        from dvc_data.hashfile.meta import Meta
        from dvc_data.index import DataIndex, DataIndexEntry, ObjectStorage

        ih = case["index_hash"]
        oid = _expected(ih, data)
        odb = HashFileDB(local, os.path.join(d, "odb"), hash_name=ih)
        odb.add_bytes(oid, data)
        key = ("sub", "f") if case.get("nested") else ("f",)
        meta = {"none": Meta(), "absent": None, "exact": Meta(size=len(data))}[report]
        index = DataIndex({key: DataIndexEntry(key=key, meta=meta, hash_info=HashInfo(name=ih, value=oid))})
        index.storage_map.add_cache(ObjectStorage((), odb))
        fs, path = DataFileSystem(index), "/".join(key)
        info = fs.info(path) if case.get("info_arg") else None
    else:
        fs, path = local, p
        if cfg == "stale-info" and claimed is not None:
            # a real two-step history: the listing is taken of an earlier version of the file, then the writer finishes
            with open(p, "wb") as f:
                f.write((data + data + b"padding")[:claimed])
            info = local.info(p)
            with open(p, "wb") as f:
                f.write(data)
            bump_mtime(p)
        else:
            with open(p, "wb") as f:
                f.write(data)
            info = doctor(local.info(p)) if cfg == "stale-info" else None
        if cfg == "sizeless-fs":

            class SizelessFS(LocalFileSystem):
                """local files behind a filesystem whose listing does not know / misstates sizes"""

                def info(self, path, **kw):
                    return doctor(super().info(path, **kw))

                def size(self, path):
                    return self.info(path).get("size")

            fs = SizelessFS()
            info = fs.info(p) if case.get("info_arg") else None

    def f():
        with fs.open(path, "rb") as fobj:
            served = fobj.read()
        if cfg == "file_md5-arg":
            kw = {} if report == "absent" else {"size": claimed}
            hname, value = name, file_md5(path, fs, callback=cb, name=name, **kw)
        else:
            _, hi = hash_file(path, fs, name, callback=cb, info=info)
            hname, value = hi.name, hi.value
        out = {"served_intact": served == data, "hash_name": hname, "value": value}
        if cb is not None and cfg == "file_md5-arg":
            out["callback_bytes"] = cb.value
        return out

    k, v = safe_call(f)
    got = v if k == "ok" else {"err": v}
    exp = {"served_intact": True, "hash_name": name, "value": _expected(name, data)}
    if cb is not None and cfg == "file_md5-arg":
        exp["callback_bytes"] = len(data)
    ctx.oracle(got == exp, case, {"why": "the digest (or the byte count told to the progress callback) follows the size reported for the file, not the content it serves",
                                  "claimed_size": claimed, "real_size": len(data), "impl": got, "expected": exp,
                                  "digest_of_empty_input": _expected(name, b"")})


def run_size_report(ctx, n):
    rng = ctx.rng
    for _ in range(n):
        data, kind = gen_content(rng)
        if not data and rng.random() < 0.8:
            data, kind = bytes(rng.randrange(256) for _ in range(rng.randrange(1, 300))), "binary"
        cfg = rng.choice(SIZE_CFGS)
        report = rng.choice(["none", "absent", "exact"] if cfg == "datafs" else SIZE_REPORTS)
        name = rng.choice(["md5", "sha256", "md5-dos2unix", "blake3", "sha1"])
        if cfg == "file_md5-arg" and rng.random() < 0.2:
            # case variants only where the library takes them: hash_file() refuses names it does not list in lower case
            name = rng.choice(["SHA256", "Md5", "BLAKE3", "MD5-DOS2UNIX"])
        case = {"size_report": cfg, "report": report, "name": name, "content": data.hex(), "callback": rng.random() < 0.5}
        if cfg == "datafs":
            case["index_hash"] = rng.choice(["md5", "md5", "md5-dos2unix", "sha256"])
            case["nested"] = rng.random() < 0.3
        if cfg in ("datafs", "sizeless-fs"):
            case["info_arg"] = rng.random() < 0.5
        ctx.case(case, nontrivial=bool(data))
        ctx.count("size_report:" + cfg)
        ctx.count("size_report report:" + report)
        ctx.count("size_report name:" + name)
        ctx.count("size_report content:" + kind)
        claimed = _reported(report, len(data))
        if data and (claimed is None or claimed < len(data)):
            ctx.count("size_report unknown/understated size, non-empty content")
        if cfg == "datafs" and report != "exact" and name.lower() != case["index_hash"]:
            ctx.count("size_report sizeless index entry, non-recorded algorithm")
        size_report_case(ctx, case)


def run_overlap(ctx, n):
    """several hashing streams alive at once (alternating reads, a finished stream inspected after another was
    opened, threads): each digest is that of its own content"""
    import threading

    from dvc_data.hashfile.hash import get_hash_stream

    rng = ctx.rng
    for _ in range(n):
        k = rng.randrange(2, 5)
        names = [rng.choice(["md5", "sha256", "blake3", "BLAKE3", "blake3", "md5-dos2unix"]) for _ in range(k)]
        if rng.random() < 0.5:
            names = [names[0]] * k
        datas = [gen_content(rng)[0] or b"x" for _ in range(k)]
        mode = rng.choice(["alternate", "inspect_late", "threads"])
        case = {"overlap": mode, "names": names, "contents": [d[:24].hex() for d in datas], "lens": [len(d) for d in datas]}
        ctx.case(case)
        ctx.count("overlap:" + mode)
        ctx.count("overlap_same_algorithm=%s" % (len(set(n.lower() for n in names)) == 1))

        def expected(name, data):
            if name.lower() == "md5-dos2unix":
                return hashlib.md5(data.replace(b"\r\n", b"\n") if _is_text_ref(data[:512]) else data).hexdigest()
            return ref_digest(name, data)

        def f():
            if mode == "threads":
                out = [None] * k

                def work(i):
                    st = get_hash_stream(io.BytesIO(datas[i]), names[i])
                    while st.read(2**20):
                        pass
                    out[i] = (st.hash_value, st.total_read)

                ts = [threading.Thread(target=work, args=(i,)) for i in range(k)]
                for t in ts:
                    t.start()
                for t in ts:
                    t.join()
                return out
            sts = []
            res = [None] * k
            if mode == "inspect_late":
                for i in range(k):
                    st = get_hash_stream(io.BytesIO(datas[i]), names[i])
                    while st.read(2**20):
                        pass
                    sts.append(st)
                return [(st.hash_value, st.total_read) for st in sts]
            sts = [get_hash_stream(io.BytesIO(datas[i]), names[i]) for i in range(k)]
            live = list(range(k))
            while live:
                i = rng.choice(live)
                if not sts[i].read(2**20):
                    live.remove(i)
            return [(st.hash_value, st.total_read) for st in sts]

        kind, v = safe_call(f)
        # every content fits one read, so the legacy stream's digest is the single-read one
        exp = [(expected(names[i], datas[i]), len(datas[i])) for i in range(k)]
        ctx.oracle(kind == "ok" and [tuple(x) for x in v] == exp, case,
                   {"why": "streams alive at the same time do not each report the digest / count of their own content", "impl": v, "expected": exp})


def run_exhaustive(ctx):
    from dvc_data.hashfile.istextfile import TEXT_CHARS, istextblock

    ans = ctx.driver.ask({"op": "istext_table", "maxlen": 512})
    bits = []
    for ln in range(1, 513):
        for n in range(ln + 1):
            k, v = safe_call(lambda: istextblock(b"\x01" * n + b"a" * (ln - n)))
            bits.append("1" if v is True else "0" if v is False else "?")
    impl = "".join(bits)
    ctx.evaluations += len(bits)
    ctx.exhaustive["istextblock for every (nontext, len) with len <= 512"] = True
    if not ctx.corr("Hash.isTextBlock~istextblock (all nontext/len pairs up to 512)", {"table": "istext"}, impl, ans["table"]):
        # locate the first differing pair for the oracle
        i = next(i for i, (x, y) in enumerate(zip(impl, ans["table"])) if x != y)
        ln, acc = 1, 0
        while acc + ln + 1 <= i:
            acc += ln + 1
            ln += 1
        n = i - acc
        ctx.oracle(False, {"istextblock": {"nontext": n, "len": ln}}, {"impl": impl[i], "integer_rule_10n<=3len": 10 * n <= 3 * ln})
    tc = ctx.driver.ask({"op": "textchars"})["chars"]
    impl_tc = "".join("1" if bytes([c]) in [bytes([x]) for x in TEXT_CHARS] else "0" for c in range(256))
    ctx.exhaustive["TEXT_CHARS membership of all 256 bytes"] = True
    ctx.corr("Hash.isTextChar~TEXT_CHARS", {"table": "textchars"}, impl_tc, tc)
    ref = "".join("1" if (32 <= c < 127 or c in (10, 13, 9, 12, 8)) else "0" for c in range(256))
    ctx.oracle(impl_tc == ref, {"textchars": True}, {"impl": impl_tc})
    # NUL and single-byte blocks
    blocks = [bytes([c]) for c in range(256)] + [b"ab\x00cd", b"", b"\x00"]
    a = ctx.driver.ask({"op": "istextblock", "blocks": [b.hex() for b in blocks]})["r"]
    impl_b = "".join("1" if safe_call(lambda: istextblock(b))[1] is True else "0" for b in blocks)
    ctx.corr("Hash.isTextBlock~istextblock (single bytes, NUL)", {"blocks": "single"}, impl_b, a)


def run_dos2unix(ctx, n):
    from dvc_data.hashfile.hash import dos2unix

    rng = ctx.rng
    datas = [bytes(rng.choice(b"\r\n\r\nab") for _ in range(rng.randrange(0, 40))) for _ in range(n)]
    ans = ctx.driver.ask({"op": "dos2unix", "data": [d.hex() for d in datas]})
    for d, r, u2d in zip(datas, ans["r"], ans["u2d"]):
        ctx.case({"dos2unix": d.hex()}, nontrivial=b"\r\n" in d)
        k, v = safe_call(lambda: dos2unix(d).hex())
        ctx.corr("Hash.dos2unix~hash.dos2unix", {"dos2unix": d.hex()}, v, r)
        ctx.oracle(v == d.replace(b"\r\n", b"\n").hex(), {"dos2unix": d.hex()}, {"impl": v})
        # theorem dos2unix_unix2dos instantiated on the implementation
        k2, v2 = safe_call(lambda: dos2unix(bytes.fromhex(u2d)).hex())
        ctx.oracle(v2 == d.hex(), {"dos2unix_of_unix2dos": d.hex()}, {"impl": v2})


def run(ctx):
    ctx.rule = (
        "contents from 8 families (text, CRLF, CR runs, binary, NUL, 30%-threshold mixes, CRLF straddling 511/512, empty) x "
        "9 algorithm names x random read schedules through a short-read file object; whole-file APIs on real files up to >1 MiB; hash_file (with / without info=) over filesystems that record hashes for their files (local info carrying md5/etag/checksum, DataFileSystem over md5 / md5-dos2unix / sha256 indexes) with CRLF/LF twins; 2-4 streams alive at once (alternating reads, inspected after the others were opened, threads); file_md5 / hash_file on files whose reported size (size= argument, info= listing taken of an earlier version, the filesystem's own info()/size(), index entry behind a DataFileSystem) is unknown / absent / 0 / too small / too large / exact, with and without a progress callback; "
        "non-trivial = at least one non-empty chunk; distinct = sha256 of (name, readsize, chunks)"
    )
    ctx.assumptions = ["hashlib/blake3 hashers are functions of the concatenation of their updates (H is a parameter of every theorem)"]
    run_exhaustive(ctx)
    run_dos2unix(ctx, ctx.n(300, 3000))
    run_streams(ctx, ctx.n(1200, 15000))
    run_files(ctx, ctx.n(150, 1500))
    run_hashfile_fs(ctx, ctx.n(200, 2000))
    run_overlap(ctx, ctx.n(150, 1500))
    run_size_report(ctx, ctx.n(240, 2400))


def search(ctx):
    run_streams(ctx, 20000)
    run_files(ctx, 1500)
    run_hashfile_fs(ctx, 2000)
    run_overlap(ctx, 1500)
    run_size_report(ctx, 2400)


def replay(ctx, payload):
    c = payload.get("case") or payload.get("diverging_case")
    if "hashfile_fs" in c:
        ctx.case(c)
        hashfile_fs_case(ctx, c)
    elif "size_report" in c:
        ctx.case(c)
        size_report_case(ctx, c)
    elif "chunks" in c and "name" in c:
        chunks = [bytes.fromhex(x) for x in c["chunks"]]
        ans = ctx.driver.ask({"op": "hashstream", "name": c["name"], "chunks": c["chunks"]})
        impl = impl_stream(c["name"], chunks, c["readsize"])
        fed = bytes.fromhex(ans["fed"])
        ctx.case(c)
        ctx.corr("replay", c, impl, {"passed": ans["passed"], "total": ans["total"], "digest": ref_digest(c["name"], fed), "fobj_md5": ref_digest(c["name"], fed)})
        data = b"".join(chunks)
        if c["name"].lower() != "md5-dos2unix":
            ctx.oracle("err" not in impl and impl["digest"] == ref_digest(c["name"], data) and impl["total"] == len(data) and impl["passed"] == c["chunks"] and impl["fobj_md5"] == ref_digest(c["name"], data), c, {"impl": impl})
        else:
            ctx.oracle("err" not in impl and impl["passed"] == c["chunks"], c, {"impl": impl})
    else:
        run(ctx)
