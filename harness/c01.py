"""C01 — object stores are content-addressed: every object is named by its own digest
(db/__init__.py, db/local.py, db/migrate.py, build.py, tree.py, hash.py, index/save.py)."""
import json
import os
import stat

from . import gen, stores
from .c13 import digest
from .util import bump_mtime, md5hex, safe_call


def audit_store(path, algo, local):
    """independent check of one store directory: names against hashlib, modes for local stores"""
    bad = []
    for oid in stores.listing_of(path):
        p = os.path.join(path, oid[:2], oid[2:])
        with open(p, "rb") as f:
            b = f.read()
        if oid.endswith(".dir"):
            try:
                lst = json.loads(b)
                ok_json = isinstance(lst, list)
            except ValueError:
                ok_json = False
            if not ok_json or digest(algo, b) + ".dir" != oid:
                bad.append({"oid": oid, "why": "directory object not named by the hash of its listing", "actual": digest(algo, b) + ".dir"})
        elif digest(algo, b) != oid:
            bad.append({"oid": oid, "why": "file object not named by the hash of its content", "actual": digest(algo, b)})
        if local and stat.S_IMODE(os.stat(p).st_mode) != 0o444:
            bad.append({"oid": oid, "why": "object in a local store is not read-only", "mode": oct(stat.S_IMODE(os.stat(p).st_mode))})
    return bad


def run_sequence(ctx, rng):
    from dvc_data.hashfile.build import build
    from dvc_data.hashfile.db.migrate import migrate, prepare
    from dvc_data.hashfile.hash_info import HashInfo
    from dvc_data.hashfile.state import State
    from dvc_data.hashfile.transfer import transfer
    from dvc_data.index import build as ibuild
    from dvc_data.index.save import md5 as imd5
    from dvc_data.index.save import save as isave

    fs = stores.fs_local()
    root = ctx.mkdtemp()
    shared_state = State(root_dir=root, tmp_dir=os.path.join(root, "tmp")) if rng.random() < 0.6 else None
    specs = []
    n = rng.randrange(2, 4)
    for i in range(n):
        algo = "md5-dos2unix" if (i == 0 and rng.random() < 0.5) else "md5"
        local = rng.random() < 0.65
        cfg = {"hash_name": algo}
        if shared_state is not None:
            cfg["state"] = shared_state
        specs.append({"odb": stores.make_odb(os.path.join(root, "s%d" % i), local=local, **cfg), "algo": algo, "local": local,
                      "files": [], "trees": []})
    trace, viol = [], []
    wsn = 0
    staged_ws = {}
    # a directed opening for some histories around a legacy store: a directory holding content whose legacy and plain md5
    # differ is staged into it, then the store is migrated to an md5 store (the rest of the history is random as before)
    plan = []
    if specs[0]["algo"] == "md5-dos2unix" and rng.random() < 0.45:
        if rng.random() < 0.5:
            plan = [("stage_legacy", 0), ("migrate", 0, rng.randrange(1, n))]
            ctx.count("directed opening: legacy content staged, then migrated")
        else:
            # ... or imported into an md5 store the way data of a 2.x repository is: through an index of the legacy store
            plan = [("stage_legacy", 0), ("import", 0, rng.randrange(1, n))]
            ctx.count("directed opening: legacy content staged, then imported through an index into an md5 store")
    try:
        for step in range(rng.randrange(3, 10)):
            r = rng.random()
            i = rng.randrange(n)
            forced = plan.pop(0) if plan else None
            if forced:
                i = forced[1]
            sp = specs[i]
            odb = sp["odb"]
            if forced is None and staged_ws and rng.random() < 0.2:
                # a staged workspace is staged again after one of its files was replaced the way `rsync -t` / `cp -p` / an
                # archive extractor does it: other bytes of the same length, the old timestamps, renamed over the path
                ws = rng.choice(sorted(staged_ws))
                files = staged_ws[ws]
                key = rng.choice(sorted(files))
                fp = os.path.join(ws, *key)
                st0 = os.stat(fp)
                new = bytes((b + 1) % 256 if b not in (10, 13) else b for b in files[key]) or b""
                tmp = fp + ".incoming"
                with open(tmp, "wb") as f:
                    f.write(new)
                os.utime(tmp, ns=(st0.st_atime_ns, st0.st_mtime_ns))
                os.replace(tmp, fp)
                files = {**files, key: new}
                kind, res = safe_call(lambda: _stage(build, transfer, odb, ws, fs, sp["algo"]))
                trace.append(["restage_after_same_size_replacement", i, len(files), kind if kind == "ok" else res])
                if kind == "ok":
                    sp["files"] += list(files.values())
                    sp["trees"].append(files)
                    staged_ws[ws] = files
            elif forced is None and rng.random() < 0.22:
                # ---- a *verifying* transfer whose source does not hold what its names say (the only kind of source the
                # property lets deviate: the destination was asked to check what it receives)
                wsn += 1
                if rng.random() < 0.5:
                    t = _fetch_from_rotten_remote(rng, root, wsn, i, sp, shared_state, fs, build, transfer, HashInfo)
                else:
                    t = _stage_rewritten_before_transfer(rng, root, wsn, i, sp, fs, build, transfer)
                trace.append(t)
            elif (forced and forced[0] == "import") or (forced is None and rng.random() < 0.14):
                # ---- staging from an index served as a filesystem (an import): the source names come from another store, possibly
                # under another algorithm than the destination's
                j = forced[2] if forced else rng.randrange(n)
                t, fl, tr = _import_through_index(rng, i, j, sp, specs[j], build, transfer, HashInfo)
                trace.append(t)
                specs[j]["files"] += fl
                specs[j]["trees"] += tr
            elif (forced and forced[0] == "stage_legacy") or (forced is None and r < 0.3):
                files = gen.rand_tree(rng, max_files=5, max_depth=2)
                if rng.random() < 0.5:
                    files[("crlf.txt",)] = b"line one\r\nline two\r\n" + bytes(rng.choice(b"ab") for _ in range(3))
                wsn += 1
                ws = os.path.join(root, "ws%d" % wsn)
                if sp["algo"] == "md5-dos2unix" and (forced or rng.random() < 0.35):
                    # larger than one read chunk, binary head, CRLF text in the second chunk: the legacy md5 of such content
                    # differs from its md5 although its beginning looks binary
                    files[("mixed.bin",)] = b"\x00\x01\x02" * 200 + b"B" * (2**20 - 600) + b"text line\r\n" * (20 + rng.randrange(10))
                gen.materialize(ws, files, rng)
                warmed = 0
                if shared_state is not None and len(files) >= 3 and rng.random() < 0.6:
                    # a partially warm hash-state cache: some files of the directory (not a prefix of the walk order) were
                    # staged on their own before, so the batched lookup answers them first and hashes the rest afterwards
                    for key in sorted(files)[1::2]:
                        fp = os.path.join(ws, *key)
                        k2, _ = safe_call(lambda: _stage(build, transfer, odb, fp, fs, sp["algo"]))
                        warmed += k2 == "ok"
                kind, res = safe_call(lambda: _stage(build, transfer, odb, ws, fs, sp["algo"]))
                trace.append(["stage_dir_warm" if warmed else "stage_dir", i, len(files), kind if kind == "ok" else res])
                if kind == "ok":
                    sp["files"] += list(files.values())
                    sp["trees"].append(files)
                    if ("mixed.bin",) not in files:
                        staged_ws[ws] = files
            elif forced is None and r < 0.45:
                wsn += 1
                p = os.path.join(root, "single%d" % wsn)
                data = gen.rand_content(rng) + rng.choice([b"", b"\r\n"])
                with open(p, "wb") as f:
                    f.write(data)
                kind, res = safe_call(lambda: _stage(build, transfer, odb, p, fs, sp["algo"]))
                trace.append(["stage_file", i, kind if kind == "ok" else res])
                if kind == "ok":
                    sp["files"].append(data)
            elif forced is None and r < 0.65:
                j = rng.randrange(n)
                if j != i and specs[j]["algo"] == sp["algo"]:
                    oids = [o for o in stores.listing_of(odb.path) if rng.random() < 0.7]
                    hl = rng.random() < 0.4
                    vf = rng.random() < 0.4
                    kind, res = safe_call(lambda: transfer(odb, specs[j]["odb"], {HashInfo(sp["algo"], o) for o in oids}, hardlink=hl,
                                                           verify=vf))
                    trace.append(["transfer", i, j, len(oids), "hardlink" if hl else "copy", "verify" if vf else "trusting",
                                  kind if kind == "ok" else res])
                    if kind == "ok":
                        specs[j]["copied"] = specs[j].get("copied", set()) | set(oids)
            elif forced is None and r < 0.8 and sp["algo"] == "md5":
                files = gen.rand_tree(rng, max_files=4, max_depth=2, allow_odd=False)
                wsn += 1
                ws = os.path.join(root, "iws%d" % wsn)
                gen.materialize(ws, files, rng)
                kind, res = safe_call(lambda: isave(imd5(ibuild(ws, fs), state=shared_state), odb=odb))
                trace.append(["index_save", i, len(files), kind if kind == "ok" else res])
                if kind == "ok":
                    sp["files"] += list(files.values())
                    # index save writes one directory object per directory
                    dirs = sorted({k[:d] for k in files for d in range(1, len(k))})
                    for d in dirs:
                        sp["trees"].append({k[len(d):]: v for k, v in files.items() if k[: len(d)] == d})
            else:
                j = forced[2] if forced else rng.randrange(n)
                # the property speaks of migrating to *another* algorithm (a same-algorithm "migration" through a shared
                # state database would pick up the '.dir'-suffixed names add() recorded: out of scope, noted in DESIGN.md)
                if j != i and specs[j]["algo"] != sp["algo"]:
                    kind, res = safe_call(lambda: migrate(prepare(odb, specs[j]["odb"])))
                    trace.append(["migrate", i, j, sp["algo"] + "->" + specs[j]["algo"], kind if kind == "ok" else res])
                    if kind == "ok":
                        specs[j]["files"] += sp["files"]
                        specs[j]["migrated_trees"] = specs[j].get("migrated_trees", []) + sp["trees"]
            # ---- audit every store after every step
            for k, s2 in enumerate(specs):
                for b in audit_store(s2["odb"].path, s2["algo"], s2["local"]):
                    viol.append({**b, "store": k, "algo": s2["algo"], "after_step": trace[-1] if trace else None})
            if viol:
                break
    finally:
        if shared_state is not None:
            shared_state.close()
    case = {"stores": [{"algo": s["algo"], "local": s["local"]} for s in specs], "shared_state": shared_state is not None, "ops": trace}
    ctx.case(case, nontrivial=len(trace) >= 3)
    for t in trace:
        ctx.count("op:" + t[0])
        if t[0] == "import_through_index" and len(t) > 4:
            ctx.count("import through an index: %s, store as %s, %s, %s" % (t[3], t[4], t[7],
                      "all staged" if all(o == "ok" for o in t[-1]) else "some staging failed"))
        if t[0].startswith("verified_") and isinstance(t[-1], list):
            ctx.count("unfaithful source, verify=True: " + ("hash-state database" if shared_state is not None else "no state") + ", "
                      + ("some objects refused" if t[-1][3] else "nothing refused"))
    ctx.count("stores:" + ",".join(sorted(s["algo"] + ("/local" if s["local"] else "/generic") for s in specs)))
    for v in viol[:3]:
        ctx.oracle(False, case, v)
    # ---- correspondence: the names the model predicts for everything staged into a store are in that store
    reqs, idxs = [], []
    for k, s in enumerate(specs):
        if not s["files"]:
            continue
        files = []
        for f in s["files"]:
            if f not in files:
                files.append(f)
        trees = [[[list(key), files.index(c)] for key, c in t.items()] for t in s["trees"]]
        reqs.append({"op": "names", "algo": s["algo"], "files": [f.hex() for f in files], "trees": trees})
        idxs.append(k)
    for k, ans in zip(idxs, ctx.driver.batch(reqs)):
        s = specs[k]
        present = set(stores.listing_of(s["odb"].path))
        predicted = set(ans["files"]) | {t["oid"] for t in ans["trees"]}
        ctx.corr("Build.step names~store %d listing (staged objects present under the predicted names)" % k, case,
                 sorted(predicted - present), [])
    if len(ctx.samples) < 2:
        ctx.sample(case)


def _other_bytes(rng, algo, oid, data, is_dir):
    """bytes that the store's algorithm does NOT name `oid`: same length (a flipped byte: what bit rot and an in-place edit
    look like) or another length; a directory listing stays a well-formed listing of the same entries"""
    cands = []
    if is_dir:
        lst = json.loads(data)
        cands = [json.dumps(lst, indent=1).encode(), json.dumps(lst, sort_keys=True, separators=(",", ":")).encode()]
    else:
        if data and rng.random() < 0.5:
            k = rng.randrange(len(data))
            cands.append(data[:k] + bytes([data[k] ^ 0x20 if data[k] not in (10, 13, 42, 45) else 0x7A]) + data[k + 1:])
        cands.append(data + b"rot%d" % rng.randrange(100))
        cands.append(b"something else entirely\n" + data)
    for c in cands:
        if c != data and digest(algo, c) != oid.split(".")[0]:
            return c
    raise AssertionError("no differing bytes found")


def _fetch_from_rotten_remote(rng, root, wsn, i, sp, shared_state, fs, build, transfer, HashInfo):
    """a remote outside the audited stores is filled through the library, then some of its objects rot (other bytes under the
    same name; still write-protected or not; same size or not; '.dir' objects too); what is asked for is fetched into an
    audited store with verify=True (copy or hard link)"""
    algo = sp["algo"]
    rlocal = rng.random() < 0.5
    cfg = {"hash_name": algo}
    if shared_state is not None and rng.random() < 0.3:
        cfg["state"] = shared_state
    remote = stores.make_odb(os.path.join(root, "remote%d" % wsn), local=rlocal, **cfg)
    files = gen.rand_tree(rng, max_files=4, max_depth=1)
    ws = os.path.join(root, "rws%d" % wsn)
    gen.materialize(ws, files, rng)
    kind, top = safe_call(lambda: _stage(build, transfer, remote, ws, fs, algo))
    if kind != "ok":
        return ["verified_fetch_from_rotten_remote", i, "remote not filled", top]
    have = stores.listing_of(remote.path)
    victims = [o for o in have if rng.random() < 0.5] or [rng.choice(have)]
    rotted = []
    for o in victims:
        p = os.path.join(remote.path, o[:2], o[2:])
        old = stores.read_obj(remote.path, o)
        new = _other_bytes(rng, algo, o, old, o.endswith(".dir"))
        protected = rng.random() < 0.6
        stores.put_raw(remote.path, o, new, mode=0o444 if protected else 0o644)
        bump_mtime(p)
        rotted.append([("dir" if o.endswith(".dir") else "file"), "same-size" if len(new) == len(old) else "other-size",
                       "protected" if protected else "writable"])
    ids = {HashInfo(algo, top)} if rng.random() < 0.5 else {HashInfo(algo, o) for o in have if rng.random() < 0.8}
    hl = rng.random() < 0.3
    kind, res = safe_call(lambda: transfer(remote, sp["odb"], ids, verify=True, hardlink=hl))
    return ["verified_fetch_from_rotten_remote", i, "local" if rlocal else "generic", "state" if "state" in cfg else "stateless",
            len(have), sorted(rotted), "hardlink" if hl else "copy",
            ["transferred", len(res.transferred), "failed", len(res.failed)] if kind == "ok" else res]


def _stage_rewritten_before_transfer(rng, root, wsn, i, sp, fs, build, transfer):
    """a directory (or a single file) is staged with build(); before the staged objects are transferred into the store with
    verify=True some of the files are rewritten (in place or renamed over; same size or not; mtime moved on)"""
    algo = sp["algo"]
    single = rng.random() < 0.3
    if single:
        files = {("single",): gen.rand_content(rng) + rng.choice([b"", b"\r\n", b"x"])}
        ws = os.path.join(root, "vws%d" % wsn)
        gen.materialize(ws, files, rng)
        target = os.path.join(ws, "single")
    else:
        files = gen.rand_tree(rng, max_files=5, max_depth=2)
        ws = target = os.path.join(root, "vws%d" % wsn)
        gen.materialize(ws, files, rng)
    kind, built = safe_call(lambda: build(sp["odb"], target, fs, algo))
    if kind != "ok":
        return ["verified_stage_of_rewritten_files", i, "not built", built]
    staging, _meta, obj = built
    keys = sorted(files)
    victims = [k for k in keys if rng.random() < 0.4] or [rng.choice(keys)]
    how = []
    for k in victims:
        fp = os.path.join(ws, *k)
        st0 = os.stat(fp)
        new = _other_bytes(rng, algo, digest(algo, files[k]), files[k], False)
        if rng.random() < 0.5:
            with open(fp, "wb") as f:
                f.write(new)
            way = "in-place"
        else:
            with open(fp + ".incoming", "wb") as f:
                f.write(new)
            os.replace(fp + ".incoming", fp)
            way = "renamed-over"
        os.utime(fp, ns=(st0.st_atime_ns, st0.st_mtime_ns + 1_000_000_000))
        how.append([way, "same-size" if len(new) == len(files[k]) else "other-size"])
    ids = {obj.hash_info}
    if not single and rng.random() < 0.5:
        ids |= {h for _, _, h in obj}
    kind, res = safe_call(lambda: transfer(staging, sp["odb"], ids, verify=True, shallow=False))
    if kind == "ok":
        # files that were left alone (and do not share their content with a rewritten one) are in the store under their names
        gone = {digest(algo, files[k]) for k in victims}
        sp["files"] += [files[k] for k in keys if k not in victims and digest(algo, files[k]) not in gone]
    return ["verified_stage_of_rewritten_files", i, "file" if single else "dir", len(files), sorted(how),
            ["transferred", len(res.transferred), "failed", len(res.failed)] if kind == "ok" else res]


def _import_through_index(rng, i, j, src, dst, build, transfer, HashInfo):
    """what an import from another repository does: some objects of store `i` (files and directories, under whatever algorithm that
    store uses) are described by a DataIndex whose entries carry *that* store's hash name; the index is served as a filesystem
    (DataFileSystem over the store as cache or remote) and paths of it - each entry on its own or a directory of entries -
    are staged with build(.., <algorithm of store j>) and transferred into store `j`.  Returns the trace entry and, when
    every staging succeeded, the {key: bytes} trees / single contents store `j` has to hold afterwards."""
    from dvc_objects.fs import as_filesystem

    from dvc_data.fs import DataFileSystem
    from dvc_data.hashfile.meta import Meta
    from dvc_data.index import DataIndex, DataIndexEntry, ObjectStorage

    src_path = src["odb"].path
    have = stores.listing_of(src_path)
    if not have:
        return ["import_through_index", i, j, "source store empty"], [], []

    def content(oid):
        p = os.path.join(src_path, oid[:2], oid[2:])
        if len(oid) < 3 or not os.path.isfile(p):
            return None
        with open(p, "rb") as f:
            return f.read()

    def dir_files(oid):
        """{key: bytes} of a stored listing, None when a file of it is not in the source store"""
        out = {}
        for e in json.loads(content(oid)):
            b = content(e.get(src["algo"]) or e.get("md5") or "")
            if b is None:
                return None
            out[tuple(e["relpath"].split("/"))] = b
        return out

    # only directories whose files the source store holds (a listing a migration carried over names the files by the other
    # algorithm; a partial store-to-store copy may have left files behind): the import reads a complete source
    dirs = [o for o in have if o.endswith(".dir") and dir_files(o) is not None]
    plain = [o for o in have if not o.endswith(".dir")]
    picked = []
    if dirs and rng.random() < 0.8:
        picked += rng.sample(dirs, min(len(dirs), rng.randrange(1, 3)))
    picked += rng.sample(plain, min(len(plain), rng.randrange(0 if picked else 1, 3)))
    if not picked and dirs:
        picked = [rng.choice(dirs)]
    if not picked:
        return ["import_through_index", i, j, "nothing complete in the source store"], [], []
    prefix = rng.choice([(), (), ("imp",), ("imp", "sub")])
    with_size = rng.random() < 0.7
    entries, expect, complete = {}, {}, True
    for n, oid in enumerate(picked):
        key = prefix + ("%s%d" % ("d" if oid.endswith(".dir") else "f", n),)
        if oid.endswith(".dir"):
            entries[key] = DataIndexEntry(key=key, meta=Meta(isdir=True), hash_info=HashInfo(src["algo"], oid))
            fl = dir_files(oid)
            if fl is None:
                complete = False
            else:
                expect[key] = fl
        else:
            b = content(oid)
            entries[key] = DataIndexEntry(key=key, meta=Meta(size=len(b)) if with_size else Meta(), hash_info=HashInfo(src["algo"], oid))
            expect[key] = b
    if rng.random() < 0.5:
        # the directories above the entries are in the index themselves (otherwise they exist only as key prefixes)
        for d in range(1, len(prefix) + 1):
            entries[prefix[:d]] = DataIndexEntry(key=prefix[:d], meta=Meta(isdir=True), loaded=True)
    index = DataIndex(entries)
    role = rng.choice(["cache", "remote"])
    getattr(index.storage_map, "add_" + role)(ObjectStorage((), src["odb"]))
    dfs = as_filesystem(DataFileSystem(index))
    # which paths of the served filesystem are staged: every entry on its own, or one directory above them (never the root "/":
    # _build_tree's string slicing gives the files directly below a root path the relpath "/name", which is not about C01)
    whole = bool(prefix) and rng.random() < 0.5
    if whole:
        targets = [prefix[: rng.randrange(1, len(prefix) + 1)]]
    else:
        targets = sorted(k for k in entries if k not in [prefix[:d] for d in range(1, len(prefix) + 1)])
    files, trees, outcome = [], [], []
    for t in targets:
        path = "/" + "/".join(t)
        kind, res = safe_call(lambda: _stage(build, transfer, dst["odb"], path, dfs, dst["algo"]))
        outcome.append(kind if kind == "ok" else res)
        if kind != "ok":
            complete = False
            continue
        under = {k: v for k, v in expect.items() if k[: len(t)] == t}
        if isinstance(under.get(t), bytes):
            files.append(under[t])
        else:
            tree = {}
            for k, v in under.items():
                if isinstance(v, bytes):
                    tree[k[len(t):]] = v
                else:
                    tree.update({k[len(t):] + sub: b for sub, b in v.items()})
            trees.append(tree)
            files += list(tree.values())
    kinds = sorted({"dir" if o.endswith(".dir") else "file" for o in picked})
    t = ["import_through_index", i, j, src["algo"] + "->" + dst["algo"], role, "+".join(kinds), len(picked),
         "one tree" if whole else "each entry", "sizes" if with_size else "no sizes", outcome]
    if not complete:
        return t, [], []
    return t, files, trees


def _stage(build, transfer, odb, path, fs, algo):
    staging, meta, obj = build(odb, path, fs, algo)
    res = transfer(staging, odb, {obj.hash_info}, shallow=False)
    if res.failed:
        raise RuntimeError("transfer failed")
    return obj.oid


# ---------------------------------------------------------------------------------------------------------------------------
# staging with upload=True: every file is streamed to a temporary path of the destination store and the staged object is
# named after the bytes that went through the stream.  That makes this path (unlike plain staging, which references the
# workspace file under the hash computed earlier) independent of *when* the hash pre-pass / the hash-state database looked
# at the file: whatever another process does to the workspace before a file is opened for upload, the store stays
# content-addressed.  The family below drives it with a writer that gets its turn at every point the harness can force
# from outside (by wrapping build._get_hashes / build._upload_file in the harness process) and with workspaces that were
# rewritten since the state database last saw them - including rewrites no stat() can tell (same inode, size, timestamps).

_T_NONE = "no writer during the staging"
_T_HASHED = "writer gets its turn after the hashing pass"
_T_UPLOAD = "writer gets its turn before each upload"
_T_BUILT = "writer gets its turn after build(), before the transfer"
_TURNS = [_T_NONE, _T_HASHED, _T_UPLOAD, _T_BUILT]


def _rewrite(rng, fp, old):
    """another process gives `fp` other content: in place (same inode) or renamed over it, of the same or another size,
    the old timestamps put back (rsync --inplace -t, cp -p, touch -r, an archive extractor) or the mtime moved on by 1 s"""
    same = bool(old) and rng.random() < 0.6
    if same:
        k = rng.randrange(len(old))
        new = old[:k] + bytes([old[k] ^ 0x01]) + old[k + 1:]
    else:
        new = old + b"+%d" % rng.randrange(1000)
    st0 = os.stat(fp)
    if rng.random() < 0.5:
        with open(fp, "r+b") as f:
            f.write(new)
            f.truncate()
        way = "in place"
    else:
        with open(fp + ".incoming", "wb") as f:
            f.write(new)
        os.replace(fp + ".incoming", fp)
        way = "renamed over"
    keep = rng.random() < 0.5
    os.utime(fp, ns=(st0.st_atime_ns, st0.st_mtime_ns + (0 if keep else 1_000_000_000)))
    return new, [way, "same size" if same else "other size", "old timestamps" if keep else "mtime moved on"]


def run_upload_history(ctx, rng):
    """a history of 2-5 stagings with build(.., upload=True) + transfer into 1-2 md5 stores of either class (optionally one
    hash-state database): new or already staged workspaces (a directory or a single file), cold or known to the state
    (hashed by a dry run / staged without upload before), possibly rewritten since, with or without a writer that rewrites
    some of the files while the staging runs.  After every step every store is audited with hashlib, and what the
    workspace held when its files were uploaded must be in the store under the digests of those bytes."""
    import dvc_data.hashfile.build as bmod
    from dvc_data.hashfile.state import State
    from dvc_data.hashfile.transfer import transfer

    build = bmod.build
    fs = stores.fs_local()
    root = ctx.mkdtemp()
    state = State(root_dir=root, tmp_dir=os.path.join(root, "tmp")) if rng.random() < 0.7 else None
    cfg = {"hash_name": "md5"}
    if state is not None:
        cfg["state"] = state
    specs = []
    for i in range(rng.randrange(1, 3)):
        local = rng.random() < 0.65
        specs.append({"odb": stores.make_odb(os.path.join(root, "u%d" % i), local=local, **cfg), "algo": "md5", "local": local})
    wss, trace, viol = [], [], []
    try:
        for step in range(rng.randrange(2, 6)):
            i = rng.randrange(len(specs))
            odb = specs[i]["odb"]
            if not wss or rng.random() < 0.5:
                single = rng.random() < 0.3
                wsdir = os.path.join(root, "uws%d" % len(wss))
                if single:
                    files = {("single",): gen.rand_content(rng) + rng.choice([b"", b"\r\n", b"x"])}
                else:
                    files = gen.rand_tree(rng, max_files=5, max_depth=2)
                gen.materialize(wsdir, files, rng)
                ws = {"target": os.path.join(wsdir, "single") if single else wsdir, "single": single, "files": files,
                      "bypath": {os.path.normpath(os.path.join(wsdir, *k)): k for k in files}}
                wss.append(ws)
                known = rng.choice(["never seen", "hashed before (dry run)", "staged before (no upload)"])
                if known == "hashed before (dry run)":
                    safe_call(lambda: build(odb, ws["target"], fs, "md5", dry_run=True))
                elif known == "staged before (no upload)":
                    safe_call(lambda: _stage(build, transfer, odb, ws["target"], fs, "md5"))
            else:
                ws = rng.choice(wss)
                known = "staged with upload before"
            files, bykey = ws["files"], {k: p for p, k in ws["bypath"].items()}
            keys = sorted(files)
            since = []
            if known != "never seen" and rng.random() < 0.6:
                for k in [k for k in keys if rng.random() < 0.5] or [rng.choice(keys)]:
                    files[k], how = _rewrite(rng, bykey[k], files[k])
                    since.append(how)
            turn = rng.choice(_TURNS)
            victims = set([k for k in keys if rng.random() < 0.5] or [rng.choice(keys)]) if turn != _T_NONE else set()
            during = []

            def writer(paths):
                for p in paths:
                    k = ws["bypath"].get(os.path.normpath(p))
                    if k in victims:
                        victims.discard(k)
                        files[k], how = _rewrite(rng, bykey[k], files[k])
                        during.append(how)

            orig_hashes, orig_upload = bmod._get_hashes, bmod._upload_file

            def hashes_then_writer(paths, *a, **kw):
                ret = orig_hashes(paths, *a, **kw)
                if turn == _T_HASHED:
                    writer(list(paths))
                return ret

            def writer_then_upload(from_path, *a, **kw):
                if turn == _T_UPLOAD:
                    writer([from_path])
                return orig_upload(from_path, *a, **kw)

            uploaded = {}

            def stage():
                bmod._get_hashes, bmod._upload_file = hashes_then_writer, writer_then_upload
                try:
                    staging, _meta, obj = build(odb, ws["target"], fs, "md5", upload=True)
                finally:
                    bmod._get_hashes, bmod._upload_file = orig_hashes, orig_upload
                uploaded.update(files)  # what the workspace held when its files were streamed
                if turn == _T_BUILT:
                    writer([bykey[k] for k in keys])
                res = transfer(staging, odb, {obj.hash_info}, shallow=False)
                if res.failed:
                    raise RuntimeError("transfer failed")
                return obj.oid

            kind, top = safe_call(stage)
            t = ["stage_with_upload", i, "file" if ws["single"] else "dir", len(files), known, sorted(since), turn, sorted(during),
                 kind if kind == "ok" else top]
            trace.append(t)
            ctx.count("upload staging: %s, %s, %s" % (known, "rewritten since" if since else "untouched since", turn))
            for how in since:
                ctx.count("upload staging: rewritten since the state saw it: " + ", ".join(how))
            ctx.count("upload staging outcome: " + (kind if kind == "ok" else top))
            for k, s2 in enumerate(specs):
                for b in audit_store(s2["odb"].path, "md5", s2["local"]):
                    viol.append({**b, "store": k, "after_step": t})
            if kind == "ok" and not viol:
                present = set(stores.listing_of(odb.path))
                want = {md5hex(b) for b in uploaded.values()}
                if want - present:
                    viol.append({"why": "bytes that were uploaded are not in the store under their digest", "missing": sorted(want - present),
                                 "store": i, "after_step": t})
                elif top not in present:
                    viol.append({"why": "the staged object is not in the store", "oid": top, "store": i, "after_step": t})
                elif ws["single"]:
                    if top != md5hex(uploaded[("single",)]):
                        viol.append({"why": "staged file object is not named by the digest of the uploaded bytes", "oid": top,
                                     "actual": md5hex(uploaded[("single",)]), "store": i, "after_step": t})
                else:
                    got = {e.get("relpath"): e.get("md5") for e in json.loads(stores.read_obj(odb.path, top))}
                    exp = {"/".join(k): md5hex(b) for k, b in uploaded.items()}
                    if got != exp:
                        viol.append({"why": "staged directory object does not list the uploaded files under the digests of their bytes",
                                     "oid": top, "differs_at": sorted(k for k in set(got) | set(exp) if got.get(k) != exp.get(k)),
                                     "store": i, "after_step": t})
            if viol:
                break
    finally:
        if state is not None:
            state.close()
    case = {"family": "staging with upload=True", "stores": [{"algo": "md5", "local": s["local"]} for s in specs],
            "shared_state": state is not None, "ops": trace}
    ctx.case(case, nontrivial=any(t[5] or t[7] for t in trace))
    ctx.count("upload histories")
    for v in viol[:3]:
        ctx.oracle(False, case, v)


def run(ctx):
    ctx.rule = (
        "sequences of 3-9 operations {stage+transfer a directory (odd names, duplicates, empty files, CRLF text; with a shared state database often after staging every other file of it on its own: partially warm cache), stage+transfer a "
        "file, store-to-store transfer (copy or hardlink, verify or not), index build/md5/save, migrate to another store (incl. md5-dos2unix -> md5), "
        "an import through an index (file and '.dir' objects of one store described by a DataIndex under that store's hash name, served by "
        "DataFileSystem with the store as cache or remote, each entry / a directory of entries staged with build(.., the destination's "
        "algorithm) and transferred into the same or another store: md5 -> md5, md5-dos2unix -> md5, md5 -> md5-dos2unix), "
        "a verify=True transfer from a source that does not hold what its names say: fetch (copy or hardlink) from a freshly filled remote of "
        "either class in which file and '.dir' objects have rotted (same or other size, still write-protected or not), or transfer of a "
        "staged file/directory some of whose files were rewritten (in place or renamed over, same or other size) after build()} "
        "over 2-3 stores of either class and algorithm, optionally sharing one hash-state database; every store is audited with "
        "hashlib after every step. non-trivial = at least 3 operations.  "
        "Then histories of 2-5 stagings with build(.., upload=True) + transfer into 1-2 md5 stores of either class (70% with a hash-state "
        "database): a new directory / single file (never seen, hashed by a dry run before, or staged without upload before) or an "
        "already staged one, possibly rewritten since the state saw it (in place or renamed over, same or other size, old timestamps "
        "put back or mtime moved on), with a writer that rewrites some of the files while the staging runs (after the hashing pass, "
        "before each upload, or between build() and the transfer; forced by wrapping build._get_hashes / build._upload_file in the "
        "harness process) or without one; every store is audited with hashlib after every step and the bytes the workspace held when "
        "they were streamed must be in the store under their digests (the '.dir' object listing exactly them). non-trivial = some "
        "file was rewritten before or during a staging"
    )
    ctx.assumptions = ["raw odb.add(path, fs, arbitrary_oid) is not one of the operations (the test-suite uses it to plant corrupt objects)",
                       "a source that does not match its names (rotten remote, workspace rewritten after build) is only transferred with verify=True; "
                       "the rotten remote itself is not one of the audited stores",
                       "an import through an index reads a complete source (only directory objects whose files the source store holds are "
                       "described by the index: a transfer that raises half-way because a source object is missing leaves the objects it did "
                       "copy correctly named but not yet write-protected) and never stages the root path '/' of the served filesystem",
                       "a workspace file that was rewritten behind the back of the hash-state database (same inode, size and timestamps) or "
                       "while a staging runs is only ever staged with upload=True afterwards: plain staging files the workspace file under "
                       "the hash computed earlier (that is C13's subject and an inherent race, not C01's)",
                       "chmod works on the sandbox filesystem"]
    for _ in range(ctx.n(90, 1000)):
        run_sequence(ctx, ctx.rng)
    for _ in range(ctx.n(12, 200)):
        run_upload_history(ctx, ctx.rng)


def search(ctx):
    for _ in range(800):
        run_sequence(ctx, ctx.rng)
    for _ in range(150):
        run_upload_history(ctx, ctx.rng)


def replay(ctx, payload):
    run(ctx)
