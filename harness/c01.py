"""C01 — object stores are content-addressed: every object is named by its own digest
(db/__init__.py, db/local.py, db/migrate.py, build.py, tree.py, hash.py, index/save.py)."""
import json
import os
import stat

from . import gen, stores
from .c13 import digest
from .util import md5hex, safe_call


def audit_store(path, algo, local):
    """independent check of one store directory: names against hashlib, modes for local stores"""
    bad = []
    for oid in stores.listing_of(path):
        p = os.path.join(path, oid[:2], oid[2:])
        with open(p, "rb") as f:
            b = f.read()
        if oid.endswith(".dir"):
            try:
                lst = json.loads(b)
                ok_json = isinstance(lst, list)
            except ValueError:
                ok_json = False
            if not ok_json or digest(algo, b) + ".dir" != oid:
                bad.append({"oid": oid, "why": "directory object not named by the hash of its listing", "actual": digest(algo, b) + ".dir"})
        elif digest(algo, b) != oid:
            bad.append({"oid": oid, "why": "file object not named by the hash of its content", "actual": digest(algo, b)})
        if local and stat.S_IMODE(os.stat(p).st_mode) != 0o444:
            bad.append({"oid": oid, "why": "object in a local store is not read-only", "mode": oct(stat.S_IMODE(os.stat(p).st_mode))})
    return bad


def run_sequence(ctx, rng):
    from dvc_data.hashfile.build import build
    from dvc_data.hashfile.db.migrate import migrate, prepare
    from dvc_data.hashfile.hash_info import HashInfo
    from dvc_data.hashfile.state import State
    from dvc_data.hashfile.transfer import transfer
    from dvc_data.index import build as ibuild
    from dvc_data.index.save import md5 as imd5
    from dvc_data.index.save import save as isave

    fs = stores.fs_local()
    root = ctx.mkdtemp()
    shared_state = State(root_dir=root, tmp_dir=os.path.join(root, "tmp")) if rng.random() < 0.6 else None
    specs = []
    n = rng.randrange(2, 4)
    for i in range(n):
        algo = "md5-dos2unix" if (i == 0 and rng.random() < 0.5) else "md5"
        local = rng.random() < 0.65
        cfg = {"hash_name": algo}
        if shared_state is not None:
            cfg["state"] = shared_state
        specs.append({"odb": stores.make_odb(os.path.join(root, "s%d" % i), local=local, **cfg), "algo": algo, "local": local,
                      "files": [], "trees": []})
    trace, viol = [], []
    wsn = 0
    staged_ws = {}
    try:
        for step in range(rng.randrange(3, 10)):
            r = rng.random()
            i = rng.randrange(n)
            sp = specs[i]
            odb = sp["odb"]
            if staged_ws and rng.random() < 0.2:
                # a staged workspace is staged again after one of its files was replaced the way `rsync -t` / `cp -p` / an
                # archive extractor does it: other bytes of the same length, the old timestamps, renamed over the path
                ws = rng.choice(sorted(staged_ws))
                files = staged_ws[ws]
                key = rng.choice(sorted(files))
                fp = os.path.join(ws, *key)
                st0 = os.stat(fp)
                new = bytes((b + 1) % 256 if b not in (10, 13) else b for b in files[key]) or b""
                tmp = fp + ".incoming"
                with open(tmp, "wb") as f:
                    f.write(new)
                os.utime(tmp, ns=(st0.st_atime_ns, st0.st_mtime_ns))
                os.replace(tmp, fp)
                files = {**files, key: new}
                kind, res = safe_call(lambda: _stage(build, transfer, odb, ws, fs, sp["algo"]))
                trace.append(["restage_after_same_size_replacement", i, len(files), kind if kind == "ok" else res])
                if kind == "ok":
                    sp["files"] += list(files.values())
                    sp["trees"].append(files)
                    staged_ws[ws] = files
            elif r < 0.3:
                files = gen.rand_tree(rng, max_files=5, max_depth=2)
                if rng.random() < 0.5:
                    files[("crlf.txt",)] = b"line one\r\nline two\r\n" + bytes(rng.choice(b"ab") for _ in range(3))
                wsn += 1
                ws = os.path.join(root, "ws%d" % wsn)
                if sp["algo"] == "md5-dos2unix" and rng.random() < 0.35:
                    # larger than one read chunk, binary head, CRLF text in the second chunk: the legacy md5 of such content
                    # differs from its md5 although its beginning looks binary
                    files[("mixed.bin",)] = b"\x00\x01\x02" * 200 + b"B" * (2**20 - 600) + b"text line\r\n" * (20 + rng.randrange(10))
                gen.materialize(ws, files, rng)
                warmed = 0
                if shared_state is not None and len(files) >= 3 and rng.random() < 0.6:
                    # a partially warm hash-state cache: some files of the directory (not a prefix of the walk order) were
                    # staged on their own before, so the batched lookup answers them first and hashes the rest afterwards
                    for key in sorted(files)[1::2]:
                        fp = os.path.join(ws, *key)
                        k2, _ = safe_call(lambda: _stage(build, transfer, odb, fp, fs, sp["algo"]))
                        warmed += k2 == "ok"
                kind, res = safe_call(lambda: _stage(build, transfer, odb, ws, fs, sp["algo"]))
                trace.append(["stage_dir_warm" if warmed else "stage_dir", i, len(files), kind if kind == "ok" else res])
                if kind == "ok":
                    sp["files"] += list(files.values())
                    sp["trees"].append(files)
                    if ("mixed.bin",) not in files:
                        staged_ws[ws] = files
            elif r < 0.45:
                wsn += 1
                p = os.path.join(root, "single%d" % wsn)
                data = gen.rand_content(rng) + rng.choice([b"", b"\r\n"])
                with open(p, "wb") as f:
                    f.write(data)
                kind, res = safe_call(lambda: _stage(build, transfer, odb, p, fs, sp["algo"]))
                trace.append(["stage_file", i, kind if kind == "ok" else res])
                if kind == "ok":
                    sp["files"].append(data)
            elif r < 0.65:
                j = rng.randrange(n)
                if j != i and specs[j]["algo"] == sp["algo"]:
                    oids = [o for o in stores.listing_of(odb.path) if rng.random() < 0.7]
                    hl = rng.random() < 0.4
                    kind, res = safe_call(lambda: transfer(odb, specs[j]["odb"], {HashInfo(sp["algo"], o) for o in oids}, hardlink=hl))
                    trace.append(["transfer", i, j, len(oids), "hardlink" if hl else "copy", kind if kind == "ok" else res])
                    if kind == "ok":
                        specs[j]["copied"] = specs[j].get("copied", set()) | set(oids)
            elif r < 0.8 and sp["algo"] == "md5":
                files = gen.rand_tree(rng, max_files=4, max_depth=2, allow_odd=False)
                wsn += 1
                ws = os.path.join(root, "iws%d" % wsn)
                gen.materialize(ws, files, rng)
                kind, res = safe_call(lambda: isave(imd5(ibuild(ws, fs), state=shared_state), odb=odb))
                trace.append(["index_save", i, len(files), kind if kind == "ok" else res])
                if kind == "ok":
                    sp["files"] += list(files.values())
                    # index save writes one directory object per directory
                    dirs = sorted({k[:d] for k in files for d in range(1, len(k))})
                    for d in dirs:
                        sp["trees"].append({k[len(d):]: v for k, v in files.items() if k[: len(d)] == d})
            else:
                j = rng.randrange(n)
                # the property speaks of migrating to *another* algorithm (a same-algorithm "migration" through a shared
                # state database would pick up the '.dir'-suffixed names add() recorded: out of scope, noted in DESIGN.md)
                if j != i and specs[j]["algo"] != sp["algo"]:
                    kind, res = safe_call(lambda: migrate(prepare(odb, specs[j]["odb"])))
                    trace.append(["migrate", i, j, sp["algo"] + "->" + specs[j]["algo"], kind if kind == "ok" else res])
                    if kind == "ok":
                        specs[j]["files"] += sp["files"]
                        specs[j]["migrated_trees"] = specs[j].get("migrated_trees", []) + sp["trees"]
            # ---- audit every store after every step
            for k, s2 in enumerate(specs):
                for b in audit_store(s2["odb"].path, s2["algo"], s2["local"]):
                    viol.append({**b, "store": k, "algo": s2["algo"], "after_step": trace[-1] if trace else None})
            if viol:
                break
    finally:
        if shared_state is not None:
            shared_state.close()
    case = {"stores": [{"algo": s["algo"], "local": s["local"]} for s in specs], "shared_state": shared_state is not None, "ops": trace}
    ctx.case(case, nontrivial=len(trace) >= 3)
    for t in trace:
        ctx.count("op:" + t[0])
    ctx.count("stores:" + ",".join(sorted(s["algo"] + ("/local" if s["local"] else "/generic") for s in specs)))
    for v in viol[:3]:
        ctx.oracle(False, case, v)
    # ---- correspondence: the names the model predicts for everything staged into a store are in that store
    reqs, idxs = [], []
    for k, s in enumerate(specs):
        if not s["files"]:
            continue
        files = []
        for f in s["files"]:
            if f not in files:
                files.append(f)
        trees = [[[list(key), files.index(c)] for key, c in t.items()] for t in s["trees"]]
        reqs.append({"op": "names", "algo": s["algo"], "files": [f.hex() for f in files], "trees": trees})
        idxs.append(k)
    for k, ans in zip(idxs, ctx.driver.batch(reqs)):
        s = specs[k]
        present = set(stores.listing_of(s["odb"].path))
        predicted = set(ans["files"]) | {t["oid"] for t in ans["trees"]}
        ctx.corr("Build.step names~store %d listing (staged objects present under the predicted names)" % k, case,
                 sorted(predicted - present), [])
    if len(ctx.samples) < 2:
        ctx.sample(case)


def _stage(build, transfer, odb, path, fs, algo):
    staging, meta, obj = build(odb, path, fs, algo)
    res = transfer(staging, odb, {obj.hash_info}, shallow=False)
    if res.failed:
        raise RuntimeError("transfer failed")
    return obj.oid


def run(ctx):
    ctx.rule = (
        "sequences of 3-9 operations {stage+transfer a directory (odd names, duplicates, empty files, CRLF text; with a shared state database often after staging every other file of it on its own: partially warm cache), stage+transfer a "
        "file, store-to-store transfer (copy or hardlink), index build/md5/save, migrate to another store (incl. md5-dos2unix -> md5)} "
        "over 2-3 stores of either class and algorithm, optionally sharing one hash-state database; every store is audited with "
        "hashlib after every step. non-trivial = at least 3 operations"
    )
    ctx.assumptions = ["raw odb.add(path, fs, arbitrary_oid) is not one of the operations (the test-suite uses it to plant corrupt objects)",
                       "chmod works on the sandbox filesystem"]
    for _ in range(ctx.n(90, 1000)):
        run_sequence(ctx, ctx.rng)


def search(ctx):
    for _ in range(800):
        run_sequence(ctx, ctx.rng)


def replay(ctx, payload):
    run(ctx)
