"""C18 — push and fetch through storage mappings move exactly the reachable objects
(index/index.py, collect.py, push.py, fetch.py, save.py, hashfile/transfer.py)."""
import contextlib
import os
import random

from . import gen, stores
from .util import md5hex, safe_call, walk_files


def gen_case(rng):
    tops = ["a", "b", "c"]
    files, dirobjs = {}, {}
    shared = [b"shared-%d" % rng.randrange(100) for _ in range(2)]
    for t in tops:
        for _ in range(rng.randrange(0, 3)):
            files[(t, "f%d" % rng.randrange(4))] = rng.choice(shared + [b"u-%d" % rng.randrange(1000)])
        if rng.random() < 0.7:
            sub = {}
            for _ in range(rng.randrange(1, 4)):
                rk = tuple(rng.choice(["s"]) for _ in range(rng.randrange(0, 2))) + ("g%d" % rng.randrange(4),)
                if not any(rk[: len(o)] == o or o[: len(rk)] == rk for o in sub):
                    sub[rk] = rng.choice(shared + [b"in-%d" % rng.randrange(1000)])
            dirobjs[(t, "tree%d" % rng.randrange(2))] = sub
    if not files and not dirobjs:
        files[("a", "f0")] = b"x"
    # storage prefixes: the root and/or some tops; remotes may be shared between sibling prefixes
    remotes = ["R1", "R2"]
    caches = ["K1", "K2"]
    # the root always designates a cache (as DVC does): an entry with a remote but no cache has no source to push from
    root = {"prefix": [], "cache": rng.choice(caches)}
    if rng.random() < 0.6:
        root["remote"] = rng.choice(remotes)
    mapping = [root]
    for t in tops:
        if rng.random() < 0.6:
            e = {"prefix": [t]}
            if rng.random() < 0.85:
                e["remote"] = rng.choice(remotes)
            if rng.random() < 0.6:
                e["cache"] = rng.choice(caches)
            if len(e) > 1:
                mapping.append(e)
    # sometimes a storage prefix sits strictly inside a directory object, at a sub-directory the (not yet expanded) index has
    # no node for
    for dk, sub in dirobjs.items():
        inner = sorted({rk[:1] for rk in sub if len(rk) > 1})
        # (only when the directory object itself is pushed somewhere too: otherwise nothing could ever expand it on fetch)
        if inner and "remote" in root and rng.random() < 0.5:
            # it designates its own remote; the cache stays that of the enclosing entry (a directory object is pushed from and
            # checked out of one cache)
            mapping.append({"prefix": list(dk + inner[0]), "remote": rng.choice(remotes)})
    rng.shuffle(mapping)
    return {
        "files": {"/".join(k): v.decode() for k, v in files.items()},
        "dirobjs": {"/".join(k): {"/".join(r): v.decode() for r, v in s.items()} for k, s in dirobjs.items()},
        "mapping": mapping, "fail_fraction": rng.choice([0.0, 0.0, 0.3, 0.6]), "remote_index": rng.random() < 0.5,
        "local": rng.random() < 0.5,
    }


def sp(s):
    return tuple(s.split("/"))


class World:
    def __init__(self, ctx, case):
        self.case = case
        self.root = ctx.mkdtemp()
        self.odbs = {}
        self.files = {sp(k): v.encode() for k, v in case["files"].items()}
        self.dirobjs = {sp(k): {sp(r): v.encode() for r, v in s.items()} for k, s in case["dirobjs"].items()}
        self.tree_oid = {}
        self.content = {}
        for c in self.files.values():
            self.content[md5hex(c)] = c
        for d, sub in self.dirobjs.items():
            ents = {r: md5hex(c) for r, c in sub.items()}
            raw = gen.canonical_listing(ents)
            self.tree_oid[d] = md5hex(raw) + ".dir"
            self.content[self.tree_oid[d]] = raw
            for c in sub.values():
                self.content[md5hex(c)] = c

    def odb(self, name, fresh=""):
        key = name + fresh
        if key not in self.odbs:
            cfg = {}
            if name.startswith("R") and self.case["remote_index"]:
                cfg["tmp_dir"] = os.path.join(self.root, "tmp-" + key)
            self.odbs[key] = stores.make_odb(os.path.join(self.root, key), local=self.case["local"], **cfg)
        return self.odbs[key]

    def resolve(self, k, role):
        best = None
        for e in self.case["mapping"]:
            p = tuple(e["prefix"])
            if k[: len(p)] == p and e.get(role):
                if best is None or len(p) > best[0]:
                    best = (len(p), e[role])
        return best[1] if best else None

    def has_any(self, k):
        return any(k[: len(tuple(e["prefix"]))] == tuple(e["prefix"]) for e in self.case["mapping"])

    def entries(self):
        """(key, oid, isdir) of every explicit entry that some storage prefix covers"""
        out = []
        for k, c in self.files.items():
            if self.has_any(k):
                out.append((k, md5hex(c), False))
        for d in self.dirobjs:
            if self.has_any(d):
                out.append((d, self.tree_oid[d], True))
        return out

    def reach(self, k, oid, isdir):
        s = {oid}
        if isdir:
            s.update(md5hex(c) for c in self.dirobjs[k].values())
        return s

    def reach_keys(self, k, oid, isdir):
        """(key, oid) of the entry and - for a directory object - of every file it lists: each is resolved through the
        mapping by its *own* key (a storage prefix may sit inside a directory object)"""
        out = [(k, oid)]
        if isdir:
            out += [(k + r, md5hex(c)) for r, c in self.dirobjs[k].items()]
        return out

    def index(self, cache_suffix="", only=None):
        from dvc_data.hashfile.hash_info import HashInfo
        from dvc_data.hashfile.meta import Meta
        from dvc_data.index.index import DataIndex, DataIndexEntry, ObjectStorage

        idx = DataIndex()
        for k, oid, isdir in self.entries():
            if only is not None and k not in only:
                continue
            idx[k] = DataIndexEntry(key=k, meta=Meta(isdir=isdir), hash_info=HashInfo("md5", oid))
        for e in self.case["mapping"]:
            p = tuple(e["prefix"])
            if e.get("cache"):
                idx.storage_map.add_cache(ObjectStorage(p, self.odb(e["cache"], cache_suffix)))
            if e.get("remote"):
                idx.storage_map.add_remote(ObjectStorage(p, self.odb(e["remote"])))
        return idx

    def fill_caches(self):
        """the data is in the cache the mapping designates for each entry"""
        for k, oid, isdir in self.entries():
            for kk, o in self.reach_keys(k, oid, isdir):
                c = self.resolve(kk, "cache")
                if c is not None:
                    stores.put_raw(self.odb(c).path, o, self.content[o])


def check(ctx, case):
    from dvc_data.index.checkout import apply, compare
    from dvc_data.index.collect import collect
    from dvc_data.index.fetch import fetch
    from dvc_data.index.push import push

    rng = ctx.rng
    w = World(ctx, case)
    w.fill_caches()
    ents = w.entries()
    # what has to reach which remote: entries whose cache and remote are both designated
    want = {}
    for k, oid, isdir in ents:
        for kk, o in w.reach_keys(k, oid, isdir):
            r, c = w.resolve(kk, "remote"), w.resolve(kk, "cache")
            if r and c:
                want.setdefault(r, set()).add(o)
    allobjs = sorted(set().union(*want.values())) if want else []
    fail = [o for o in allobjs if rng.random() < case["fail_fraction"]]
    ctx.case(case, nontrivial=len(want) >= 1 and len(case["mapping"]) >= 2)
    ctx.count("prefixes:%d" % len(case["mapping"]))
    ctx.count("shared_remote=%s" % (len({e.get("remote") for e in case["mapping"] if e.get("remote")}) < len([e for e in case["mapping"] if e.get("remote")])))
    ctx.count("failing=%s" % bool(fail))

    def do_push(failing):
        idx = w.index()
        with contextlib.ExitStack() as st:
            for name in {e["remote"] for e in case["mapping"] if e.get("remote")}:
                st.enter_context(stores.Faults(w.odb(name), failing).active())
            data = collect([idx], "remote", push=True)
            return push(data)

    # collect() groups by remote only and keeps the cache of the first prefix it meets: when two prefixes designate the
    # same remote but different caches, objects of the other cache are never pushed (known finding, see DESIGN.md)
    pairs = {(w.resolve(tuple(e["prefix"]), "remote"), w.resolve(tuple(e["prefix"]), "cache")) for e in case["mapping"]}
    conflict = any(r1_ == r2_ and c1_ != c2_ and r1_ for (r1_, c1_) in pairs for (r2_, c2_) in pairs)
    sig = "one-remote-designated-by-prefixes-with-different-caches" if conflict else None
    ctx.count("cache_conflict=%s" % conflict)
    before = {r: set(stores.listing_of(w.odb(r).path)) for r in ("R1", "R2")}
    k1, r1 = safe_call(lambda: do_push(fail))
    mid = {r: set(stores.listing_of(w.odb(r).path)) for r in ("R1", "R2")}
    k2, r2 = safe_call(lambda: do_push(()))
    after = {r: set(stores.listing_of(w.odb(r).path)) for r in ("R1", "R2")}
    ctx.oracle(k1 == "ok" and k2 == "ok", case, {"why": "push raised", "first": str(r1), "retry": str(r2)})
    if k1 != "ok" or k2 != "ok":
        return
    # counts of the first round add up to what had to move, and 'pushed' objects really arrived
    arrived = sum(len(mid[r] - before[r]) for r in mid)
    ctx.oracle(r1[0] == arrived, case, {"why": "the pushed count differs from the number of objects that arrived", "reported": r1, "arrived": arrived,
                                        "failing": fail})
    if not fail:
        ctx.oracle(r1[1] == 0, case, {"why": "failures reported in a fault-free push", "reported": r1})
    # after the clean retry every reachable object is in the remote the mapping designates
    for r, objs in want.items():
        missing = sorted(o for o in objs if o not in after[r])
        ctx.oracle(not missing, case, {"why": "an object reachable from the index is not in the designated remote after push (+ clean retry)",
                                       "remote": r, "missing": missing, "first_round": r1, "retry": r2}, signature=sig)
    for r in after:
        for o in after[r]:
            ctx.oracle(md5hex(stores.read_obj(w.odb(r).path, o)) == o.split(".")[0], case, {"why": "a pushed object has the wrong bytes", "remote": r, "oid": o})
    # ---- fetch into empty caches, then checkout from them
    idx2 = w.index(cache_suffix="-fresh")
    k3, r3 = safe_call(lambda: fetch(collect([idx2], "remote")))
    ctx.oracle(k3 == "ok", case, {"why": "fetch raised", "impl": str(r3)}, signature=sig)
    if k3 == "ok":
        wantc = {}
        for k, oid, isdir in ents:
            for kk, o in w.reach_keys(k, oid, isdir):
                r, c = w.resolve(kk, "remote"), w.resolve(kk, "cache")
                if r and c:
                    wantc.setdefault(c, set()).add(o)
        for c in ("K1", "K2"):
            got = set(stores.listing_of(w.odb(c, "-fresh").path))
            # (entries of a longer prefix may also be fetched into the shorter prefix's cache: allowed, see DESIGN)
            exp = wantc.get(c, set())
            ctx.oracle(exp <= got and got <= set(w.content), case, {"why": "fetch into an empty cache did not bring back the reachable objects",
                                                                     "cache": c, "missing": sorted(exp - got)}, signature=sig)
            for o in got:
                ctx.oracle(md5hex(stores.read_obj(w.odb(c, "-fresh").path, o)) == o.split(".")[0], case, {"why": "a fetched object has the wrong bytes", "oid": o})
        ctx.oracle(r3[1] == 0, case, {"why": "fetch reported failures", "reported": r3}, signature=sig)
        # checkout from the fetched caches reproduces the data for entries with a cache
        out = os.path.join(w.root, "out")
        os.makedirs(out)
        idx3 = w.index(cache_suffix="-fresh")
        k4, _ = safe_call(lambda: apply(compare(None, idx3), out, stores.fs_local(), update_meta=False, storage="cache",
                                        onerror=lambda *a: None))
        got_files = walk_files(out)
        for k, c in w.files.items():
            if w.resolve(k, "cache") and w.resolve(k, "remote"):
                ctx.oracle(got_files.get("/".join(k)) == c, case, {"why": "checkout from the fetched cache does not reproduce a file", "path": "/".join(k)}, signature=sig)
        for d, sub in w.dirobjs.items():
            if w.resolve(d, "cache") and w.resolve(d, "remote"):
                for r, c in sub.items():
                    if not (w.resolve(d + r, "cache") and w.resolve(d + r, "remote")):
                        continue
                    ctx.oracle(got_files.get("/".join(d + r)) == c, case, {"why": "checkout from the fetched cache does not reproduce a file of a directory object", "path": "/".join(d + r)}, signature=sig)
    # ---- correspondence: resolution and the push plan
    entries = [{"key": list(k), "isdir": isdir, "hash": oid, "loaded": False} for k, oid, isdir in ents]
    listings = [[w.tree_oid[d], [[list(r), md5hex(c)] for r, c in sub.items()]] for d, sub in w.dirobjs.items()]
    keys = [list(k) for k, _, _ in ents] + [["zzz"], []]
    ans = ctx.driver.ask({"op": "push_plan", "entries": entries, "listings": listings, "mapping": case["mapping"], "role": "remote",
                          "stores": ["R1", "R2"], "resolve": keys})
    impl_res = []
    idx = w.index()
    for k in keys:
        def f(k=tuple(k)):
            i = idx.storage_map[k]
            nm = lambda s: os.path.basename(s.odb.path) if s else None  # noqa: E731
            return [nm(i.data), nm(i.cache), nm(i.remote)]
        kk, v = safe_call(f, expected=(KeyError,))
        impl_res.append(v if kk == "ok" else "StorageKeyError")
    ctx.corr("PushFetch.resolve~StorageMapping.__getitem__", case, impl_res, ans["resolve"])
    if not any(before.values()) and not conflict:
        # everything planned for a remote whose entries also have a cache arrives there; nothing unplanned arrives
        plan = {p[0]: set(p[1]) for p in ans["plan"]}
        for r in ("R1", "R2"):
            ctx.corr("PushFetch.plan ⊇ remote %s contents after push" % r, case, sorted(after[r] - plan[r]), [])
            ctx.corr("remote %s ⊇ designated part of PushFetch.plan" % r, case, sorted(want.get(r, set()) - plan[r]), [])
    if len(ctx.samples) < 2:
        ctx.sample({"mapping": case["mapping"], "entries": [["/".join(k), o] for k, o, _ in ents][:6], "first_round": r1, "retry": r2})


def gen_history(rng):
    """several indexes (sub-sets of one world's entries) pushed one after the other through the same remotes, which keep a
    persistent existence index and are collected by somebody else in between"""
    case = gen_case(rng)
    case["remote_index"] = True
    case["fail_fraction"] = 0.0
    steps = []
    for _ in range(rng.randrange(2, 4)):
        steps.append({"take": rng.randrange(1 << 16), "collect": rng.choice([None, "all", "some", "some"]), "keep": rng.randrange(1 << 16)})
    case["history"] = steps
    return case


def check_history(ctx, case):
    from dvc_data.hashfile.gc import gc
    from dvc_data.index.collect import collect
    from dvc_data.index.push import push

    w = World(ctx, case)
    w.fill_caches()
    ents = sorted(w.entries())
    if not ents:
        return
    pairs = {(w.resolve(tuple(e["prefix"]), "remote"), w.resolve(tuple(e["prefix"]), "cache")) for e in case["mapping"]}
    conflict = any(r1_ == r2_ and c1_ != c2_ and r1_ for (r1_, c1_) in pairs for (r2_, c2_) in pairs)
    sig = "one-remote-designated-by-prefixes-with-different-caches" if conflict else None
    ctx.case(case, nontrivial=len(ents) >= 2)
    ctx.count("history: steps=%d" % len(case["history"]))
    for n, step in enumerate(case["history"]):
        if n and step["collect"]:
            # somebody else collects the remotes: everything, or everything but a random (closed) used set
            for r in ("R1", "R2"):
                used = []
                if step["collect"] == "some":
                    used = [stores.hi(oid) for i, (k, oid, isdir) in enumerate(ents) if (step["keep"] >> (i % 16)) & 1]
                safe_call(lambda r=r, used=used: gc(w.odb(r), used, shallow=False), expected=(FileNotFoundError,))
            ctx.count("history: collected %s" % step["collect"])
        only = {k for i, (k, oid, isdir) in enumerate(ents) if (step["take"] >> (i % 16)) & 1} or {ents[0][0]}
        want = {}
        for k, oid, isdir in ents:
            if k in only:
                for kk, o in w.reach_keys(k, oid, isdir):
                    r, c = w.resolve(kk, "remote"), w.resolve(kk, "cache")
                    if r and c:
                        want.setdefault(r, set()).add(o)
        res = []
        for _ in range(2):  # the push and a retry
            idx = w.index(only=only)
            k1, r1 = safe_call(lambda idx=idx: push(collect([idx], "remote", push=True)))
            res.append(r1 if k1 == "ok" else "raised " + str(r1))
        ctx.oracle(not any(isinstance(x, str) for x in res), case, {"why": "push raised", "step": n, "results": [str(x) for x in res]})
        for r, objs in want.items():
            have = set(stores.listing_of(w.odb(r).path))
            missing = sorted(o for o in objs if o not in have)
            ctx.oracle(not missing, case, {"why": "after a push (and a retry) of step %d an object reachable from the pushed index is not in the designated "
                                                  "remote, whose existence index went through earlier pushes and an external collection" % n,
                                           "remote": r, "missing": missing, "results": [str(x) for x in res], "pushed_keys": sorted("/".join(k) for k in only)}, signature=sig)
            bad = stores.closed_violations(w.odb(r).path)
            ctx.oracle(not bad or bool(sig), case, {"why": "a remote is not closed after the push of step %d" % n, "remote": r, "dangling": bad[:3]})


def gen_file_remote(rng):
    """the remote role is played by a plain directory (a FileStorage, as for imported data), the cache by an object store"""
    files = {}
    for i in range(rng.randrange(2, 7)):
        k = tuple(rng.choice(["d", "e"]) for _ in range(rng.randrange(0, 2))) + ("f%d" % i,)
        files["/".join(k)] = "content-%d-%d" % (i, rng.randrange(10**6))  # distinct contents: one object per entry
    names = sorted(files)
    return {"file_remote": files, "fail": [n for n in names if rng.random() < rng.choice([0.0, 0.3, 0.6])],
            "absent": [n for n in names if rng.random() < 0.15], "cached": [n for n in names if rng.random() < 0.2],
            "local": rng.random() < 0.5, "dir_entries": rng.random() < 0.5}


def check_file_remote(ctx, case):
    from dvc_data.hashfile.hash_info import HashInfo
    from dvc_data.hashfile.meta import Meta
    from dvc_data.index.collect import collect
    from dvc_data.index.fetch import fetch
    from dvc_data.index.index import DataIndex, DataIndexEntry, FileStorage, ObjectStorage

    root = ctx.mkdtemp()
    files = {sp(k): v.encode() for k, v in case["file_remote"].items()}
    absent = {sp(k) for k in case["absent"]}
    gen.materialize(os.path.join(root, "data"), {k: v for k, v in files.items() if k not in absent})
    os.makedirs(os.path.join(root, "data"), exist_ok=True)
    odb = stores.make_odb(os.path.join(root, "cache"), local=case["local"])
    for k in case["cached"]:
        stores.put_raw(odb.path, md5hex(files[sp(k)]), files[sp(k)])
    idx = DataIndex()
    if case["dir_entries"]:
        for d in sorted({k[:i] for k in files for i in range(1, len(k))}):
            idx[d] = DataIndexEntry(key=d, meta=Meta(isdir=True), loaded=True)
    for k, v in files.items():
        idx[k] = DataIndexEntry(key=k, meta=Meta(size=len(v)), hash_info=HashInfo("md5", md5hex(v)))
    idx.storage_map.add_remote(FileStorage((), stores.fs_local(), os.path.join(root, "data")))
    idx.storage_map.add_cache(ObjectStorage((), odb))
    before = set(stores.listing_of(odb.path))
    failing = {md5hex(files[sp(k)]) for k in case["fail"]}
    ctx.case(case, nontrivial=len(files) >= 2)
    ctx.count("file_remote: failing=%s absent=%s" % (bool(failing), bool(absent)))

    def f():
        with stores.Faults(odb, failing).active():
            return fetch(collect([idx], "remote"))

    kind, res = safe_call(f)
    ctx.oracle(kind == "ok", case, {"why": "fetch from a directory remote raised", "impl": str(res)})
    if kind != "ok":
        return
    after = set(stores.listing_of(odb.path))
    had_to_move = {md5hex(v) for k, v in files.items() if k not in absent} - before
    # (the directory objects save() builds for directory entries are made locally: they are not fetched objects)
    arrived = {o for o in after - before if not o.endswith(".dir")}
    ctx.oracle(res[0] == len(arrived), case, {"why": "the fetched count differs from the number of objects that arrived", "reported": list(res), "arrived": sorted(arrived)})
    ctx.oracle(res[0] + res[1] == len(had_to_move), case,
               {"why": "fetched + failed do not add up to the objects that had to move (a failed copy is not counted)", "reported": list(res),
                "had_to_move": sorted(had_to_move), "arrived": sorted(arrived), "failing": sorted(failing & had_to_move)})
    for o in arrived:
        ctx.oracle(md5hex(stores.read_obj(odb.path, o)) == o, case, {"why": "a fetched object has the wrong bytes", "oid": o})
    # correspondence with Fetch.fetch: the counts and the cache
    items = [[md5hex(v), "missing" if k in absent else "failed" if md5hex(v) in failing else "ok"] for k, v in sorted(files.items())]
    ans = ctx.driver.ask({"op": "fetch_counts", "cache": sorted(before), "items": items})
    ctx.corr("Fetch.fetch~fetch() from a file storage (counts, cache)", case,
             {"fetched": res[0], "failed": res[1], "cache": sorted(o for o in after if not o.endswith(".dir"))},
             {"fetched": ans.get("fetched"), "failed": ans.get("failed"), "cache": sorted(ans.get("cache", []))})
    # a clean retry completes the cache
    kind2, res2 = safe_call(lambda: fetch(collect([idx], "remote")))
    final = set(stores.listing_of(odb.path))
    ctx.oracle(kind2 == "ok" and had_to_move <= final, case, {"why": "a clean retry of the fetch does not complete the cache", "missing": sorted(had_to_move - final), "retry": str(res2)})


def outage_fs():
    """a local filesystem that can be switched off like a lost connection: while `down`, every access raises ConnectionError"""
    from dvc_objects.fs.local import LocalFileSystem

    io = {"open", "exists", "isfile", "isdir", "info", "ls", "walk", "find", "get", "get_file", "put", "put_file", "size", "getsize", "cat", "cat_file",
          "read_bytes", "read_text", "copy", "remove", "rm", "rm_file", "move", "mv", "makedirs", "mkdir", "lexists", "is_empty", "checksum", "iscopy",
          "link", "hardlink", "symlink", "reflink", "upload_fobj"}

    class OutageFS(LocalFileSystem):
        down = False

        def __getattribute__(self, name):
            if name in io and object.__getattribute__(self, "down"):
                def refuse(*a, **kw):
                    raise ConnectionError("injected: the remote is unreachable")

                return refuse
            return object.__getattribute__(self, name)

    return OutageFS()


class RetryWorld(World):
    """the remotes sit on filesystems that can be switched off"""

    def odb(self, name, fresh=""):
        key = name + fresh
        if key not in self.odbs and name.startswith("R"):
            from dvc_data.hashfile.db import HashFileDB
            from dvc_data.hashfile.db.local import LocalHashFileDB

            cfg = {}
            if self.case["remote_index"]:
                cfg["tmp_dir"] = os.path.join(self.root, "tmp-" + key)
            path = os.path.join(self.root, key)
            os.makedirs(path, exist_ok=True)
            self.odbs[key] = (LocalHashFileDB if self.case["local"] else HashFileDB)(outage_fs(), path, **cfg)
        return super().odb(name, fresh)


def gen_retry(rng):
    """fetch rounds of a caller that keeps its collected view (`cache_index` / `cache_key` of collect()) between the rounds: a first
    round during an outage (remotes unreachable, directory listings not uploaded yet, failing copies), then a clean retry"""
    case = gen_case(rng)
    case["fail_fraction"] = 0.0
    if not any(e.get("remote") for e in case["mapping"]):
        next(e for e in case["mapping"] if not e["prefix"])["remote"] = rng.choice(["R1", "R2"])
    if rng.random() < 0.5:
        # every remote store is the remote of one prefix only, inherited ones included (a prefix without a remote of its own falls
        # back to the enclosing prefix's): a further prefix gets a remote store of its own
        root_remote = next(e for e in case["mapping"] if not e["prefix"]).get("remote")
        seen = {root_remote} if root_remote else set()
        for e in sorted(case["mapping"], key=lambda e: len(e["prefix"])):
            if e["prefix"] and (e.get("remote") or root_remote) in seen:
                e["remote"] = next(r for r in ("R1", "R2", "R3", "R4", "R5", "R6", "R7") if r not in seen)
            if e.get("remote"):
                seen.add(e["remote"])
    # (StorageMapping.add_* copies the roles a new prefix inherits at that moment into its own entry: prefixes inside a directory
    # object are added last here, so that what they inherit is final - the order dependence is not what this family is about)
    case["mapping"].sort(key=lambda e: len(e["prefix"]) > 1)
    used = sorted({e["remote"] for e in case["mapping"] if e.get("remote")})
    kinds = rng.choice([["down"], ["late"], ["copies"], ["down"], ["late"], ["down", "copies"], ["late", "copies"], []])
    case["retry"] = {
        "down": [r for r in used if rng.random() < 0.7] or [rng.choice(used)] if "down" in kinds else [],
        "late": rng.randrange(1, 1 << 6) if "late" in kinds else 0,
        "copy_failures": rng.choice([0.3, 0.6]) if "copies" in kinds else 0.0,
        "reuse": rng.choice(["memory", "memory", "memory", "sqlite", "sqlite", "none"]),
        "cache_key": rng.choice([[], ["fetch", "t0"]]),
        "same_index": rng.random() < 0.5,
        "fail_seed": rng.randrange(1 << 30),
    }
    return case


def check_retry(ctx, case):
    from dvc_data.index.checkout import apply, compare
    from dvc_data.index.collect import collect
    from dvc_data.index.fetch import fetch
    from dvc_data.index.index import DataIndex
    from dvc_data.index.push import push

    rt = case["retry"]
    w = RetryWorld(ctx, case)
    w.fill_caches()
    ents = w.entries()
    pairs = {(w.resolve(tuple(e["prefix"]), "remote"), w.resolve(tuple(e["prefix"]), "cache")) for e in case["mapping"]}
    conflict = any(r1_ == r2_ and c1_ != c2_ and r1_ for (r1_, c1_) in pairs for (r2_, c2_) in pairs)
    sig = "one-remote-designated-by-prefixes-with-different-caches" if conflict else None
    # the remotes are filled by a clean push
    k0, r0 = safe_call(lambda: push(collect([w.index()], "remote", push=True)))
    if k0 != "ok" or r0[1]:
        ctx.oracle(bool(sig), case, {"why": "a fault-free push raised or reported failures", "impl": str(r0)})
        return
    wantc = {}
    for k, oid, isdir in ents:
        for kk, o in w.reach_keys(k, oid, isdir):
            r, c = w.resolve(kk, "remote"), w.resolve(kk, "cache")
            if r and c:
                wantc.setdefault(c, set()).add(o)
    remotes = sorted({e["remote"] for e in case["mapping"] if e.get("remote")})
    # ---- the outage of the first round
    late = {}
    dirs = sorted(w.dirobjs)
    for i, d in enumerate(dirs):
        if (rt["late"] >> (i % 6)) & 1:
            for r in remotes:
                p = os.path.join(w.odb(r).path, w.tree_oid[d][:2], w.tree_oid[d][2:])
                if os.path.exists(p):
                    late[p] = (w.odb(r).path, w.tree_oid[d])
                    os.remove(p)
    allobjs = sorted(set().union(*wantc.values())) if wantc else []
    frng = random.Random(rt["fail_seed"])
    failing = [o for o in allobjs if frng.random() < rt["copy_failures"]]
    if rt["reuse"] == "none":
        ci, ck = None, None
    else:
        ci = DataIndex.open(os.path.join(w.root, "collected.db")) if rt["reuse"] == "sqlite" else DataIndex()
        ck = tuple(rt["cache_key"])
    idx = w.index(cache_suffix="-rt")
    ctx.case(case, nontrivial=bool(wantc) and bool(rt["down"] or late or failing))
    ctx.count("retry: outage=%s reuse=%s" % ("+".join(n for n, on in (("down", rt["down"]), ("late", late), ("copies", failing)) if on) or "none", rt["reuse"]))

    def round_(failing_now):
        i = idx if rt["same_index"] else w.index(cache_suffix="-rt")
        with contextlib.ExitStack() as st:
            for c in ("K1", "K2"):
                st.enter_context(stores.Faults(w.odb(c, "-rt"), failing_now).active())
            return fetch(collect([i], "remote", cache_index=ci, cache_key=ck))

    def listing():
        return {c: set(stores.listing_of(w.odb(c, "-rt").path)) for c in ("K1", "K2")}

    for r in rt["down"]:
        w.odb(r).fs.down = True
    try:
        k1, r1 = safe_call(lambda: round_(failing))
    finally:
        for r in remotes:
            w.odb(r).fs.down = False
    for _, (path, oid) in late.items():
        stores.put_raw(path, oid, w.content[oid])
    mid = listing()
    failed_round = k1 != "ok" or r1[1] > 0
    ctx.count("retry: first round %s" % ("raised" if k1 != "ok" else "reported failures" if r1[1] else "clean"))
    if k1 == "ok":
        ctx.oracle(r1[0] <= sum(len(v) for v in mid.values()) or bool(sig), case, {"why": "more objects reported fetched than arrived", "reported": list(r1)})
        if rt["down"] or late or failing:
            missing1 = {c: sorted(wantc.get(c, set()) - mid[c]) for c in mid}
            ctx.oracle(failed_round or not any(missing1.values()), case,
                       {"why": "a fetch round during an outage left the cache incomplete and reported no failure", "reported": list(r1), "missing": missing1},
                       signature=sig)
    # ---- the clean retry: the same calls again
    # collect() skips the collection for a remote as soon as the kept view has *any* node for it: when several prefixes designate
    # one remote and the first round collected one of them before another one raised, the retry never collects the rest and
    # ends incomplete without reporting a failure (finding on the unrepaired tree, reported under its own signature)
    rem = [r for r in (w.resolve(tuple(e["prefix"]), "remote") for e in case["mapping"]) if r]
    sig2 = sig
    if not sig and k1 != "ok" and rt["reuse"] != "none" and len(rem) != len(set(rem)):
        sig2 = "retry-skips-collection-after-a-round-that-collected-one-of-several-prefixes-of-a-remote"
    k2, r2 = safe_call(lambda: round_(()))
    if ci is not None and rt["reuse"] == "sqlite":
        safe_call(ci.close)
    ctx.oracle(k2 == "ok", case, {"why": "the clean retry of a fetch raised", "impl": str(r2), "first_round": str(r1)}, signature=sig2)
    if k2 != "ok":
        return
    final = listing()
    ctx.oracle(r2[1] == 0, case, {"why": "the clean retry of a fetch reported failures", "first_round": str(r1), "retry": list(r2)}, signature=sig2)
    for c in ("K1", "K2"):
        exp = wantc.get(c, set())
        ctx.oracle(exp <= final[c] and final[c] <= set(w.content), case,
                   {"why": "a failed fetch round followed by a clean retry (same calls, the collected view kept in between) does not end complete",
                    "cache": c, "missing": sorted(exp - final[c]), "first_round": str(r1), "retry": list(r2), "outage": rt}, signature=sig2)
        for o in final[c]:
            ctx.oracle(md5hex(stores.read_obj(w.odb(c, "-rt").path, o)) == o.split(".")[0], case, {"why": "a fetched object has the wrong bytes", "oid": o})
    arrived2 = sum(len(final[c] - mid[c]) for c in final)
    if len(pairs) == 1:
        # one remote, one cache: the retry's count is what arrived in the retry
        ctx.oracle(r2[0] == arrived2, case, {"why": "the retry's fetched count differs from the number of objects that arrived in it", "reported": list(r2), "arrived": arrived2})
    out = os.path.join(w.root, "out-rt")
    os.makedirs(out)
    safe_call(lambda: apply(compare(None, w.index(cache_suffix="-rt")), out, stores.fs_local(), update_meta=False, storage="cache", onerror=lambda *a: None))
    got_files = walk_files(out)
    for k, c in w.files.items():
        if w.resolve(k, "cache") and w.resolve(k, "remote"):
            ctx.oracle(got_files.get("/".join(k)) == c, case, {"why": "checkout from the cache fetched by a failed round + retry does not reproduce a file", "path": "/".join(k)}, signature=sig2)
    for d, sub in w.dirobjs.items():
        if w.resolve(d, "cache") and w.resolve(d, "remote"):
            for r, c in sub.items():
                if w.resolve(d + r, "cache") and w.resolve(d + r, "remote"):
                    ctx.oracle(got_files.get("/".join(d + r)) == c, case,
                               {"why": "checkout from the cache fetched by a failed round + retry does not reproduce a file of a directory object", "path": "/".join(d + r)}, signature=sig2)


def check_add_order(ctx, rng):
    """StorageMapping: the (data, cache, remote) a key resolves to is, per role, the storage declared at the longest prefix of
    the key that declares that role - whatever the order of the add_data / add_cache / add_remote calls (F29)"""
    from dvc_data.index.index import FileStorage, StorageKeyError, StorageMapping

    pool = [(), ("c",), ("c", "tree"), ("c", "tree", "s"), ("b",), ("b", "x")]
    decl = {}
    for _ in range(rng.randrange(2, 7)):
        decl[(rng.choice(pool), rng.choice(["data", "cache", "remote"]))] = "S%d" % len(decl)
    items = sorted(decl.items())
    orders = [rng.sample(items, len(items)) for _ in range(3)] + [items, items[::-1]]
    probes = pool + [("c", "tree", "s", "g0"), ("c", "other"), ("b", "x", "y"), ("a",)]

    def want(key, role):
        best = None
        for (pfx, r), name in items:
            if r == role and key[:len(pfx)] == pfx and (best is None or len(pfx) > len(best[0])):
                best = (pfx, name)
        return best[1] if best else None

    case = {"add_order": [[list(p), r, n] for (p, r), n in items]}
    ctx.case(case, nontrivial=len({p for (p, _r) in decl}) >= 2)
    ctx.count("add_order: %d declarations" % len(items))
    answers = ctx.driver.batch([{"op": "storage_map", "decls": [[list(p), r, n] for (p, r), n in order], "probes": [list(k) for k in probes]}
                                for order in orders])
    for order, ans in zip(orders, answers):
        impl_rows = []
        sm = StorageMapping()
        for (pfx, role), name in order:
            getattr(sm, "add_" + role)(FileStorage(pfx, stores.fs_local(), "/nowhere/" + name))
        for key in probes:
            try:
                info = sm[key]
                got = {r: (os.path.basename(getattr(info, r).path) if getattr(info, r) else None) for r in ("data", "cache", "remote")}
            except StorageKeyError:
                got = {"data": None, "cache": None, "remote": None}
            exp = {r: want(key, r) for r in ("data", "cache", "remote")}
            impl_rows.append(got if any(got.values()) or any(key[:len(p)] == p for (p, _r), _n in items) else None)
            ctx.oracle(got == exp, case, {"why": "a key does not resolve, per role, to the storage declared at its longest prefix declaring that role "
                                                 "(the outcome depends on the order of the add_* calls)",
                                          "key": list(key), "order": [[list(p), r, n] for (p, r), n in order], "got": got, "expected": exp})
        ctx.corr("StorageMap.build/resolve~StorageMapping.add_*/__getitem__", {**case, "order": [[list(p), r, n] for (p, r), n in order]},
                 impl_rows, ans.get("resolved", ans))


def run(ctx):
    ctx.rule = (
        "indexes with files and directory objects (nested listings, contents shared between trees and prefixes) under 1-4 storage "
        "prefixes (root, sub-trees, and sub-directories strictly inside directory objects) whose cache/remote roles are set independently and whose remotes may be shared by sibling "
        "prefixes; a first push with a random subset of failing uploads, a clean retry, fetch into empty caches, checkout from them; "
        "with/without a remote index, both store classes; histories of 2-3 pushes of different sub-indexes through the same remotes with persistent existence indexes, the remotes being garbage-collected by somebody else in between; fetches from a remote that is a plain directory (FileStorage) into an object-store cache with failing copies, absent sources and a clean retry (counts against what arrived); fetch rounds of a caller that keeps its collected view (cache_index/cache_key of collect(): none, in memory, SQLite-backed; the same or a rebuilt index) between a first round during an outage (remotes on a filesystem that is switched off, directory listings not yet in the remote, failing copies, and combinations) and a clean retry of the same calls: the retry ends complete, counts, bytes, checkout. non-trivial = >=2 prefixes and something to push"
    )
    ctx.assumptions = ["collection is per mapping prefix: a shorter prefix's storage may also receive objects of a longer prefix (allowed by the statement)"]
    for _ in range(ctx.n(90, 1000)):
        check(ctx, gen_case(ctx.rng))
    for _ in range(ctx.n(50, 600)):
        check_history(ctx, gen_history(ctx.rng))
    for _ in range(ctx.n(40, 500)):
        check_file_remote(ctx, gen_file_remote(ctx.rng))
    for _ in range(ctx.n(32, 400)):
        check_retry(ctx, gen_retry(ctx.rng))
    for _ in range(ctx.n(60, 600)):
        check_add_order(ctx, ctx.rng)


def search(ctx):
    for _ in range(800):
        check(ctx, gen_case(ctx.rng))


def replay(ctx, payload):
    c = payload.get("case") or payload.get("diverging_case")
    (check_history if c.get("history") else check_file_remote if c.get("file_remote") else check_retry if c.get("retry") else check)(ctx, c)
