"""C13 — cached and carried-over hashes are never stale (state.py, cache.py, hash.py, build.py, index/update.py)."""
import hashlib
import json
import os
import shutil

from . import stores
from .util import md5hex, safe_call

ALGOS = ["md5", "md5-dos2unix", "sha256"]


def _is_text_block(blk):
    if not blk:
        return True
    if 0 in blk:
        return False
    tc = set(range(32, 127)) | {10, 13, 9, 12, 8}
    return 10 * sum(1 for c in blk if c not in tc) <= 3 * len(blk)


def digest(name, data, chunk=2**20):
    """independent reference digests; the legacy md5 decides text / binary for every chunk the file is read in (1 MiB),
    from the first 512 bytes of that chunk"""
    if name == "md5-dos2unix":
        h = hashlib.md5()
        for i in range(0, len(data), chunk):
            c = data[i:i + chunk]
            h.update(c.replace(b"\r\n", b"\n") if _is_text_block(c[:512]) else c)
        return h.hexdigest()
    return hashlib.new(name, data).hexdigest()


def stamp_of(p):
    st = os.stat(p)
    return [st.st_ino, st.st_mtime_ns, st.st_size]


class World:
    def __init__(self, ctx):
        from dvc_data.hashfile.state import State

        self.root = ctx.mkdtemp()
        self.dir = os.path.join(self.root, "ws")
        os.makedirs(self.dir)
        self.state = State(root_dir=self.root, tmp_dir=os.path.join(self.root, "tmp"))
        self.fs = stores.fs_local()
        self.content = {}
        self.ops = []  # model ops
        self.expected = []  # (kind, impl result) aligned with model results
        self.clock = 1_700_000_000_000_000_000

    def path(self, name):
        return os.path.join(self.dir, name)

    def _record_write(self, name):
        p = self.path(name)
        self.ops.append({"op": "write", "path": name, "bytes": self.content[name].hex(), "stamp": stamp_of(p)})
        self.expected.append(None)

    def mutate(self, rng, name):
        p = self.path(name)
        kind = rng.choice(["rewrite_same_len", "append", "truncate", "replace", "replace_keep_mtime", "touch", "delete", "recreate"])
        old = self.content.get(name)
        if old is None:
            kind = "recreate"
        if kind == "delete":
            os.remove(p)
            del self.content[name]
            self.ops.append({"op": "delete", "path": name})
            self.expected.append(None)
            return kind
        if kind == "recreate":
            if os.path.exists(p):
                os.remove(p)
            data = bytes(rng.choice(b"abc\r\n") for _ in range(rng.randrange(0, 12)))
            with open(p, "wb") as f:
                f.write(data)
        elif kind == "rewrite_same_len":
            data = bytes((c + 1) % 256 for c in old) if old else b""
            with open(p, "r+b") as f:
                f.write(data)
        elif kind == "append":
            data = old + b"+"
            with open(p, "ab") as f:
                f.write(b"+")
        elif kind == "truncate":
            data = old[: len(old) // 2]
            with open(p, "r+b") as f:
                f.truncate(len(data))
        elif kind in ("replace", "replace_keep_mtime"):
            data = bytes((c + 2) % 256 for c in old) if old else b"x"
            st = os.stat(p)
            tmp = p + ".new"
            with open(tmp, "wb") as f:
                f.write(data)
            if kind == "replace_keep_mtime":
                os.utime(tmp, ns=(st.st_atime_ns, st.st_mtime_ns))
            os.replace(tmp, p)
        else:  # touch: same bytes, new mtime
            data = old
        self.content[name] = data
        seen = self.__dict__.setdefault("seen", {})
        reused = kind == "replace_keep_mtime" and seen.get((name, tuple(stamp_of(p))), data) != data
        if reused:
            kind = "replace_keep_mtime(inode reused: bumped)"
        if kind != "replace_keep_mtime":
            # the quantifier of the property: a mutation changes size, mtime or inode. Bump the mtime by a
            # sub-second to multi-second amount so that the verdict never depends on clock granularity.
            self.clock += rng.choice([1_000_000, 250_000_000, 999_000_000, 1_000_000_000, 3_000_000_000])
            os.utime(p, ns=(self.clock, self.clock))
        seen[(name, tuple(stamp_of(p)))] = data
        self._record_write(name)
        return kind

    def close(self):
        self.state.close()


def run_history(ctx, nops):
    from dvc_data.hashfile.hash import hash_file
    from dvc_data.hashfile.hash_info import HashInfo

    rng = ctx.rng
    w = World(ctx)
    names = ["f%d" % i for i in range(rng.randrange(1, 5))]
    for n in names:
        w.content[n] = None
        w.mutate(rng, n)
    viol = []
    trace = []
    try:
        for _ in range(nops):
            r = rng.random()
            n = rng.choice(names)
            p = w.path(n)
            data = w.content.get(n)
            if r < 0.35:
                k = w.mutate(rng, n)
                trace.append(["mutate", n, k])
            elif r < 0.6:
                name = rng.choice(ALGOS)
                kind, res = safe_call(lambda: hash_file(p, w.fs, name, w.state)[1], expected=(FileNotFoundError,))
                got = (res.value if kind == "ok" else res)
                exp = digest(name, data) if data is not None else "FileNotFoundError"
                trace.append(["hash_file", n, name, got])
                if got != exp:
                    viol.append({"why": "hash_file through the cache differs from the hash of the current bytes", "file": n, "algo": name, "got": got, "expected": exp})
                w.ops.append({"op": "hash_file", "path": n, "name": name, "digests": [[a, digest(a, data)] for a in ALGOS] if data is not None else []})
                w.expected.append(got)
            elif r < 0.8:
                kind, res = safe_call(lambda: w.state.get(p, w.fs))
                got = None
                if kind == "ok" and res[1] is not None:
                    got = [res[1].name, res[1].value]
                    if data is None or got[1] != digest(got[0], data):
                        viol.append({"why": "State.get returned a stale hash", "file": n, "got": got})
                elif kind != "ok":
                    got = res
                trace.append(["get", n, got])
                w.ops.append({"op": "get", "path": n})
                w.expected.append(got)
            elif r < 0.9:
                ps = [x for x in names if rng.random() < 0.8]
                kind, res = safe_call(lambda: list(w.state.get_many([w.path(x) for x in ps], w.fs, {})))
                got = []
                if kind == "ok":
                    for (pp, meta, hi), x in zip(res, ps):
                        got.append(None if hi is None else [hi.name, hi.value])
                        if hi is not None and (w.content.get(x) is None or hi.value != digest(hi.name, w.content[x])):
                            viol.append({"why": "State.get_many returned a stale hash", "file": x, "got": [hi.name, hi.value]})
                        single = w.state.get(pp, w.fs)[1]
                        if (hi is None) != (single is None) or (hi is not None and hi != single):
                            viol.append({"why": "batch and single lookups disagree", "file": x})
                else:
                    got = res
                trace.append(["get_many", ps, got])
                w.ops.append({"op": "get_many", "paths": ps})
                w.expected.append(got)
            else:
                # rows written by another release: version-less (legacy) or newer format
                if data is None:
                    continue
                ver = rng.choice([None, 2, 7])
                algo = rng.choice(["md5", "sha256"])
                st = stamp_of(p)
                from dvc_data.hashfile.state import _checksum

                info = w.fs.info(p)
                val = digest("md5-dos2unix" if (ver is None and algo == "md5") else algo, data)
                entry = {"checksum": _checksum(info), "size": info["size"], "hash_info": {algo: val}}
                if ver is not None:
                    entry["version"] = ver
                w.state.hashes[p] = json.dumps(entry)
                trace.append(["raw_row", n, ver, algo])
                w.ops.append({"op": "raw_row", "path": n, "version": ver, "stamp": st, "size": st[2], "algo": algo, "value": val})
                w.expected.append(None)
    finally:
        w.close()
    case = {"history": trace}
    ctx.case(case, nontrivial=sum(1 for t in trace if t[0] == "mutate") >= 1 and len(trace) >= 4)
    for t in trace:
        ctx.count("op:" + t[0] + (":" + t[2] if t[0] == "mutate" else ""))
    for v in viol:
        ctx.oracle(False, case, v)
    ans = ctx.driver.ask({"op": "state_history", "ops": w.ops})
    if "results" not in ans:
        ctx.corr("State model history", case, "ok", ans)
        return
    impl = [e for e, o in zip(w.expected, w.ops) if o["op"] in ("get", "get_many", "hash_file")]
    model = [r for r, o in zip(ans["results"], w.ops) if o["op"] in ("get", "get_many", "hash_file")]
    ctx.corr("State.get/getMany/hashFile~State.get/get_many/hash_file over a mutation history", case, impl, model)
    if len(ctx.samples) < 2:
        ctx.sample({"history": trace[:8]})


def run_batches(ctx):
    """batch lookups around the 999-parameter SQL boundary"""
    from dvc_data.hashfile.hash_info import HashInfo
    from dvc_data.hashfile.state import State

    root = ctx.mkdtemp()
    d = os.path.join(root, "many")
    os.makedirs(d)
    fs = stores.fs_local()
    sizes = [0, 1, 998, 999, 1000, 2500] if ctx.tier == "thorough" else [0, 1, 998, 999, 1000, 1100]
    st = State(root_dir=root, tmp_dir=os.path.join(root, "tmp"))
    try:
        paths = []
        for i in range(max(sizes)):
            p = os.path.join(d, "f%04d" % i)
            with open(p, "wb") as f:
                f.write(b"%d" % i)
            paths.append(p)
        st.save_many(((p, HashInfo("md5", digest("md5", b"%d" % i)), None) for i, p in enumerate(paths) if i % 3 != 1), fs)
        for n in sizes:
            sub = paths[:n]
            kind, res = safe_call(lambda: list(st.get_many(sub, fs, {})))
            ctx.evaluations += 1
            ctx.count("batch_size:%d" % n)
            case = {"batch": n}
            if kind != "ok":
                ctx.oracle(False, case, {"why": "get_many raised", "impl": res})
                continue
            ok = len(res) == n
            for i, (pp, meta, hi) in enumerate(res):
                exp = None if i % 3 == 1 else digest("md5", b"%d" % i)
                if pp != sub[i] or (hi.value if hi else None) != exp:
                    ok = False
                    break
            ctx.oracle(ok, case, {"why": "batch lookup of %d paths disagrees with the per-path answers" % n})
            ctx.nontrivial.add("batch-%d" % n)
        ctx.exhaustive["batch sizes %s across the 999 boundary" % sizes] = True
    finally:
        st.close()


def run_other(ctx, n):
    """other algorithm via staging, non-local filesystem, index md5()/update()"""
    from dvc_objects.fs import MemoryFileSystem

    from dvc_data.hashfile.build import build
    from dvc_data.hashfile.hash import hash_file
    from dvc_data.hashfile.state import State
    from dvc_data.index import build as ibuild
    from dvc_data.index.save import md5 as imd5
    from dvc_data.index.update import update

    rng = ctx.rng
    for i in range(n):
        root = ctx.mkdtemp()
        fs = stores.fs_local()
        st = State(root_dir=root, tmp_dir=os.path.join(root, "tmp"))
        odb = stores.make_odb(os.path.join(root, "odb"), local=True, state=st)
        try:
            d = os.path.join(root, "data")
            os.makedirs(d)
            files = {"a": b"alpha\r\n", "b": b"beta", "c": bytes([0, 1, 2])}
            for k, v in files.items():
                with open(os.path.join(d, k), "wb") as f:
                    f.write(v)
            # a tracked sub-directory (and one nested in it) whose entries carry tree hashes in the old index
            sub_files = {("sub", "x"): b"ex", ("sub", "y"): b"why\n", ("sub", "deep", "z"): b"zed"}
            if rng.random() < 0.3:
                del sub_files[("sub", "deep", "z")]
            for k, v in sub_files.items():
                os.makedirs(os.path.join(d, *k[:-1]), exist_ok=True)
                with open(os.path.join(d, *k), "wb") as f:
                    f.write(v)
            case = {"other": i}
            ctx.case(case)
            # staging with one algorithm, then asking for another one through the same state
            a1, a2 = rng.sample(["md5", "sha256", "md5-dos2unix"], 2)
            k = rng.choice(sorted(files))
            p = os.path.join(d, k)
            safe_call(lambda: build(odb, p, fs, a1, dry_run=True))
            kind, res = safe_call(lambda: build(odb, p, fs, a2, dry_run=True)[2].hash_info)
            ctx.oracle(kind == "ok" and res.name == a2 and res.value == digest(a2, files[k]), case,
                       {"why": "staging served a hash recorded for another algorithm", "first": a1, "asked": a2, "got": str(res)})
            ctx.count("cross_algorithm")
            # index level: md5() then edits then update()
            old = imd5(ibuild(d, fs), state=st)
            from dvc_data.index.save import build_tree as ibuild_tree
            dir_hashed = rng.random() < 0.8
            if dir_hashed:
                for dk, de in list(old.iteritems()):
                    if de.meta and de.meta.isdir:
                        de.hash_info = ibuild_tree(old, dk)[1].hash_info
            edits = {}
            for kk in sorted(sub_files):
                r = rng.random()
                pp = os.path.join(d, *kk)
                if r < 0.3:
                    # rewritten in place: same inode, the directory's own stat record does not change
                    new = sub_files[kk] + b"+" * rng.randint(1, 3)
                    with open(pp, "r+b") as f:
                        f.write(new)
                    edits["/".join(kk)] = "rewrite_in_place"
                    sub_files[kk] = new
                elif r < 0.4:
                    stt = os.stat(pp)
                    new = bytes((c + 1) % 256 for c in sub_files[kk])
                    with open(pp, "r+b") as f:
                        f.write(new)
                    os.utime(pp, ns=(stt.st_atime_ns, stt.st_mtime_ns + 7_000_000))
                    edits["/".join(kk)] = "rewrite_in_place_same_size"
                    sub_files[kk] = new
            for kk in list(files):
                r = rng.random()
                pp = os.path.join(d, kk)
                stt = os.stat(pp)
                if r < 0.3:
                    new = bytes((c + 1) % 256 for c in files[kk])  # same size, new inode, mtime preserved
                    with open(pp + ".n", "wb") as f:
                        f.write(new)
                    os.utime(pp + ".n", ns=(stt.st_atime_ns, stt.st_mtime_ns))
                    os.replace(pp + ".n", pp)
                    edits[kk] = "replace_same_size_same_mtime"
                    files[kk] = new
                elif r < 0.5:
                    new = files[kk] + b"!"
                    with open(pp, "wb") as f:
                        f.write(new)
                    os.utime(pp, ns=(stt.st_atime_ns, stt.st_mtime_ns + 5_000_000))
                    edits[kk] = "rewrite"
                    files[kk] = new
            new_idx = ibuild(d, fs)
            from .c03 import hi_to_json, meta_to_json

            def _mj(m):
                j = meta_to_json(m)
                if j is not None and m.mtime is not None:
                    j["mtime"] = int(round(m.mtime * 1e6))  # the stamps differ by >= 1 ms whenever they differ
                return j

            def _ij(idx):
                return [{"key": list(k), "meta": _mj(e.meta), "hi": hi_to_json(e.hash_info), "loaded": e.loaded} for k, e in idx.iteritems()]

            def _hv(h):
                return [h.get("name"), h.get("value")] if h and h.get("value") else None

            ask = {"op": "index_update", "old": _ij(old), "new": _ij(new_idx)}
            kind, _ = safe_call(lambda: update(new_idx, old))
            ans = ctx.driver.ask(ask)
            ctx.corr("IndexUpdate.update~index.update() (hash of every entry afterwards)", {**case, "edits": edits, "ask": ask},
                     sorted([list(k), _hv(hi_to_json(e.hash_info))] for k, e in new_idx.iteritems()) if kind == "ok" else {"err": kind},
                     sorted([e["key"], _hv(e["entry"].get("hi"))] for e in ans.get("entries", [])) if "entries" in ans else ans)
            for kk in files:
                e = new_idx.get((kk,))
                if e is not None and e.hash_info is not None and e.hash_info.value:
                    ctx.oracle(e.hash_info.value == digest(e.hash_info.name, files[kk]), {**case, "edits": edits},
                               {"why": "update() carried a stale hash over", "file": kk, "edit": edits.get(kk), "hash": str(e.hash_info)})
            # a directory entry that came out of update() with a tree hash: that is the identifier of the listing of the
            # files below it now
            for dk, de in (list(new_idx.iteritems()) if kind == "ok" else []):
                if not (de.meta and de.meta.isdir and de.hash_info is not None and de.hash_info.value):
                    continue
                below = sorted((k[len(dk):], v) for k, v in sub_files.items() if k[:len(dk)] == dk)
                listing = [{"md5": digest("md5", v), "relpath": "/".join(k)} for k, v in below]
                want = digest("md5", json.dumps(listing, sort_keys=True).encode()) + ".dir"
                ctx.oracle(de.hash_info.value == want, {**case, "edits": edits},
                           {"why": "update() carried a directory's tree hash over although a file below it was rewritten",
                            "dir": "/".join(dk), "edits": edits, "hash": str(de.hash_info), "listing_now": want})
                ctx.count("index_update:dir hash carried" + (" (something below edited)" if any(e.startswith("/".join(dk) + "/") for e in edits) else ""))
            ctx.count("index_update" + (":dirs hashed" if dir_hashed else ""))
            # a non-local filesystem never gets (or leaves) an entry
            mem = MemoryFileSystem()
            mp = "memory://c13-%d-%d" % (ctx.seed, i)
            mem.pipe_file(mp, b"mem")
            kind, res = safe_call(lambda: (hash_file(mp, mem, "md5", st)[1].value, st.get(mp, mem)))
            ctx.oracle(kind == "ok" and res[0] == digest("md5", b"mem") and res[1] == (None, None), case,
                       {"why": "the state cache answered for a non-local filesystem", "got": str(res)})
        finally:
            st.close()


def run_build_race(ctx, n):
    """files rewritten while a directory is being staged (from the progress callback, i.e. after they were hashed and before the
    batch is recorded): whatever the cache answers afterwards must still be the hash of the current bytes"""
    from dvc_objects.fs.local import LocalFileSystem
    from fsspec.callbacks import Callback

    from dvc_data.hashfile.build import build
    from dvc_data.hashfile.db.local import LocalHashFileDB
    from dvc_data.hashfile.hash import hash_file
    from dvc_data.hashfile.state import State

    rng = ctx.rng
    fs = LocalFileSystem()
    for _ in range(n):
        root = ctx.mkdtemp()
        ws = os.path.join(root, "ws")
        os.makedirs(ws)
        names = ["f%d" % i for i in range(rng.randrange(2, 6))]
        for nm in names:
            with open(os.path.join(ws, nm), "wb") as f:
                f.write(b"before-" + nm.encode() + b"-" * rng.randrange(0, 5))
        state = State(root_dir=root, tmp_dir=os.path.join(root, "tmp"))
        odb = LocalHashFileDB(fs, os.path.join(root, "odb"), state=state)
        trigger = rng.randrange(1, len(names) + 1)
        victims = [nm for nm in names if rng.random() < 0.6] or names[:1]

        class Cb(Callback):
            calls = 0

            def relative_update(self, inc=1):
                Cb.calls += inc
                if Cb.calls >= trigger and victims:
                    for nm in list(victims):
                        p = os.path.join(ws, nm)
                        with open(p, "ab") as f:
                            f.write(b"+rewritten-during-build")
                    victims.clear()
                return super().relative_update(inc)

        rewritten = list(victims)
        algo = rng.choice(["md5", "md5", "sha256"])
        case = {"build_race": {"files": names, "rewritten_during_build": rewritten, "after_updates": trigger, "algo": algo}}
        try:
            k, v = safe_call(lambda: build(odb, ws, fs, algo, callback=Cb()))
            ctx.case(case)
            ctx.count("build_race:rewritten=%d" % len(rewritten))
            for nm in names:
                p = os.path.join(ws, nm)
                cur = digest(algo, open(p, "rb").read())
                _, hi = state.get(p, fs)
                ctx.oracle(hi is None or hi.name != algo or hi.value == cur, case,
                           {"why": "a file rewritten while the directory was being staged has a stale hash in the cache", "file": nm,
                            "cached": None if hi is None else hi.value, "current": cur})
                _, hi2 = hash_file(p, fs, algo, state=state)
                ctx.oracle(hi2.value == cur, case, {"why": "hash_file through the cache returns a stale hash after a rewrite during staging",
                                                    "file": nm, "got": hi2.value, "current": cur})
        finally:
            state.close()


def run_stage_links(ctx, n):
    """a staged directory that contains symlinks to files: the targets are rewritten (in place or replaced, same or another
    size) between two stagings; every hash the second staging reports - and every later single lookup - is that of the bytes
    a reader of the path gets now"""
    import time

    from dvc_objects.fs.local import LocalFileSystem

    from dvc_data.hashfile.build import build
    from dvc_data.hashfile.db.local import LocalHashFileDB
    from dvc_data.hashfile.hash import hash_file
    from dvc_data.hashfile.state import State

    rng = ctx.rng
    fs = LocalFileSystem()
    for _ in range(n):
        root = ctx.mkdtemp()
        ws, outside = os.path.join(root, "ws"), os.path.join(root, "outside")
        os.makedirs(os.path.join(ws, "sub"))
        os.makedirs(outside)
        plain = {"a": b"plain-a", "sub/b": b"plain-b-%d" % rng.randrange(100)}
        for k, v in plain.items():
            with open(os.path.join(ws, k), "wb") as f:
                f.write(v)
        links = {}
        for i in range(rng.randrange(1, 4)):
            tgt = os.path.join(outside if rng.random() < 0.6 else ws, "target%d" % i)
            with open(tgt, "wb") as f:
                f.write(b"target-%d-v1" % i)
            ln = rng.choice(["", "sub/"]) + "link%d" % i
            os.symlink(tgt, os.path.join(ws, ln))
            links[ln] = tgt
        state = State(root_dir=root, tmp_dir=os.path.join(root, "tmp"))
        odb = LocalHashFileDB(fs, os.path.join(root, "odb"), state=state)
        algo = rng.choice(["md5", "md5", "sha256"])
        edits = {}
        case = {"stage_links": {"links": sorted(links), "algo": algo, "edits": edits}}
        try:
            k1, _ = safe_call(lambda: build(odb, ws, fs, algo))
            for ln, tgt in links.items():
                how = rng.choice(["rewrite_same_size", "rewrite_same_size", "replace_same_size", "rewrite_other_size", "keep"])
                edits[ln] = how
                if how == "keep":
                    continue
                old = open(tgt, "rb").read()
                new = old[:-1] + b"2" if how != "rewrite_other_size" else old + b"-longer"
                time.sleep(0.002)
                if how == "replace_same_size":
                    tmp = tgt + ".new"
                    with open(tmp, "wb") as f:
                        f.write(new)
                    os.replace(tmp, tgt)
                else:
                    with open(tgt, "wb") as f:
                        f.write(new)
            ctx.case(case)
            for how in edits.values():
                ctx.count("stage_links:" + how)
            k2, res = safe_call(lambda: build(odb, ws, fs, algo))
            ctx.oracle(k1 == "ok" and k2 == "ok", case, {"why": "staging a directory with symlinks raised", "impl": str(res)[:200]})
            if k2 != "ok":
                continue
            tree = res[2]
            got = {"/".join(key): hi.value for key, _, hi in tree}
            for rel in list(plain) + list(links):
                cur = digest(algo, open(os.path.join(ws, rel), "rb").read())
                ctx.oracle(got.get(rel) == cur, case, {"why": "the second staging reports a stale hash for a path whose bytes changed through its symlink target",
                                                       "path": rel, "staged": got.get(rel), "current": cur})
                _, hi2 = hash_file(os.path.join(ws, rel), fs, algo, state=state)
                ctx.oracle(hi2.value == cur, case, {"why": "single lookup after the staging differs from the current bytes", "path": rel,
                                                    "got": hi2.value, "current": cur})
        finally:
            state.close()


LARGE = 2**20  # build.py hands files strictly above this size to its hashing pool (when a directory has two or more of them)


class _Gate:
    """Decides in which order the reads made from pool threads *complete*: a read of `path` made outside the main thread
    does not return from closing its file before all of `preds[path]` have completed theirs. Reads in the main thread
    (sequential hashing) pass through. A wait that cannot be satisfied (the library did not read a predecessor from a
    pool thread after all) gives up after a guard timeout and is counted, so a wrong prediction never hangs the check."""

    GUARD = 5.0

    def __init__(self):
        import threading

        self.threading = threading
        self.cv = threading.Condition()
        self.preds = {}
        self.done = set()
        self.finished = []
        self.timeouts = 0

    def arm(self, preds):
        with self.cv:
            self.preds = preds
            self.done = set()
            self.finished = []

    def finish(self, path):
        if self.threading.current_thread() is self.threading.main_thread():
            return
        with self.cv:
            need = self.preds.get(path)
            if need and path not in self.done:
                if not self.cv.wait_for(lambda: need <= self.done, timeout=self.GUARD):
                    self.timeouts += 1
            if path not in self.done:
                self.done.add(path)
                self.finished.append(path)
            self.cv.notify_all()


class _GatedFile:
    def __init__(self, f, gate, path):
        self._f, self._gate, self._path = f, gate, path

    def __getattr__(self, name):
        return getattr(self._f, name)

    def __iter__(self):
        return iter(self._f)

    def __enter__(self):
        return self

    def __exit__(self, *exc):
        self.close()
        return False

    def close(self):
        if not self._f.closed:
            self._f.close()
            self._gate.finish(self._path)


def _gated_fs(gate):
    from dvc_objects.fs.local import LocalFileSystem

    class GatedLocalFileSystem(LocalFileSystem):
        """a local filesystem (the state cache accepts it) whose binary reads complete in the order the gate dictates"""

        def open(self, path, mode="r", **kwargs):
            f = super().open(path, mode, **kwargs)
            if mode in ("rb", "br") and path in gate.preds:
                return _GatedFile(f, gate, path)
            return f

    return GatedLocalFileSystem()


def _big_content(rng, tag, size):
    """`size` bytes, distinct per tag, cheap to produce; line ends of both kinds so that md5-dos2unix differs from md5"""
    head = b"<%s:%d>" % (tag.encode(), rng.randrange(10**6))
    unit = bytes(rng.choice(b"abcdefgh \r\n\n") for _ in range(61)) + rng.choice([b"\r\n", b"\n", b"\x00", b"z"])
    body = head + unit * (size // len(unit) + 1)
    return body[:size]


def run_stage_pool(ctx, n):
    """directories whose files straddle the large-file threshold are staged through the hash-state cache with 1..8 hashing
    jobs, part of the files being already cached (for the same or for another algorithm); the order in which the pool's
    reads complete is chosen by the harness (a random permutation per directory, forced through the filesystem object);
    then some files are rewritten and the directory is staged again (hits and misses mixed). After every staging: the
    staged tree, State.get, State.get_many, hash_file through the cache and a further staging (all hits) give, for every
    path, the hash of the bytes that are there now; batch and single lookups agree."""
    from dvc_data.hashfile.build import build
    from dvc_data.hashfile.db.local import LocalHashFileDB
    from dvc_data.hashfile.hash import hash_file
    from dvc_data.hashfile.state import State

    rng = ctx.rng
    plain_fs = stores.fs_local()
    ncpu_workers = min(16, (os.cpu_count() or 1) + 4)
    for _ in range(n):
        root = ctx.mkdtemp()
        ws = os.path.join(root, "ws")
        os.makedirs(os.path.join(ws, "sub"))
        gate = _Gate()
        fs = _gated_fs(gate)
        state = State(root_dir=root, tmp_dir=os.path.join(root, "tmp"))
        odb = LocalHashFileDB(fs, os.path.join(root, "odb"), state=state)
        algo = rng.choice(["md5", "md5", "sha256", "md5-dos2unix"])
        content = {}
        nlarge = rng.choice([1, 2, 2, 3, 3, 4])
        for i in range(nlarge):
            rel = ("sub/" if rng.random() < 0.25 else "") + "big%d" % i
            content[rel] = _big_content(rng, rel, LARGE + rng.choice([1, 1, 2, 4097, LARGE // 2, LARGE + 1]))
        for i in range(rng.randrange(0, 3)):
            rel = ("sub/" if rng.random() < 0.25 else "") + "small%d" % i
            content[rel] = _big_content(rng, rel, rng.choice([0, 1, 7, 4096, LARGE - 1, LARGE]))
        for rel, data in content.items():
            with open(os.path.join(ws, rel), "wb") as f:
                f.write(data)
        steps = []
        case = {"stage_pool": {"algo": algo, "sizes": {k: len(v) for k, v in sorted(content.items())}, "steps": steps}}
        cached_for = {}  # rel -> algorithm of the row the cache holds for the file's current stamp
        memo = {}

        def ref(name, data):  # the reference digest, computed once per (algorithm, content object)
            key = (name, id(data))
            if key not in memo:
                memo[key] = (data, digest(name, data))
            return memo[key][1]

        def check_all(where):
            paths = [os.path.join(ws, rel) for rel in sorted(content)]
            cur = {p: content[rel] for p, rel in zip(paths, sorted(content))}
            k, many = safe_call(lambda: list(state.get_many(paths, fs, {})))
            ctx.oracle(k == "ok" and [m[0] for m in many] == paths, case, {"why": "State.get_many failed or answered for other paths", "after": where, "impl": str(many)[:200]})
            for p, _meta, hi in many if k == "ok" else []:
                ctx.oracle(hi is None or hi.value == ref(hi.name, cur[p]), case,
                           {"why": "State.get_many returned a hash that is not the hash of the file's current bytes", "after": where,
                            "file": os.path.relpath(p, ws), "cached": None if hi is None else [hi.name, hi.value],
                            "current": None if hi is None else ref(hi.name, cur[p])})
                _, single = state.get(p, fs)
                ctx.oracle(single == hi, case, {"why": "batch and single lookups disagree", "after": where, "file": os.path.relpath(p, ws)})
            for p in paths:
                _, hi = state.get(p, plain_fs)
                ctx.oracle(hi is None or hi.value == ref(hi.name, cur[p]), case,
                           {"why": "State.get returned a hash that is not the hash of the file's current bytes", "after": where,
                            "file": os.path.relpath(p, ws), "cached": None if hi is None else [hi.name, hi.value],
                            "current": None if hi is None else ref(hi.name, cur[p])})
                k, hi2 = safe_call(lambda: hash_file(p, plain_fs, algo, state=state)[1])
                ctx.oracle(k == "ok" and hi2.name == algo and hi2.value == ref(algo, cur[p]), case,
                           {"why": "hash_file through the cache differs from the hash of the current bytes", "after": where,
                            "file": os.path.relpath(p, ws), "got": str(hi2), "current": ref(algo, cur[p])})

        def stage(where, jobs, dry):
            # which files the library is expected to hash on its pool: state misses above the threshold, two or more per directory
            by_dir = {}
            for rel in sorted(content):
                if len(content[rel]) > LARGE and cached_for.get(rel) != algo:
                    by_dir.setdefault(os.path.dirname(rel), []).append(os.path.join(ws, rel))
            workers = jobs if jobs else ncpu_workers
            preds, forced = {}, {}
            for d, ps in by_dir.items():
                if len(ps) >= 2 and 1 < workers and len(ps) <= workers:
                    order = rng.sample(ps, len(ps))
                    forced[d or "."] = [os.path.relpath(p, ws) for p in order]
                    for j, p in enumerate(order):
                        preds[p] = set(order[:j])
            gate.arm(preds)
            k, res = safe_call(lambda: build(odb, ws, fs, algo, checksum_jobs=jobs, dry_run=dry))
            completed = [os.path.relpath(p, ws) for p in gate.finished]
            gate.arm({})
            steps.append({"stage": where, "jobs": jobs, "dry_run": dry, "pool_completion_order": forced, "completed": completed})
            ctx.count("stage_pool:jobs=%s" % jobs)
            ctx.count("stage_pool:pool_files=%d" % sum(len(v) for v in forced.values()))
            if any(o != sorted(o) for o in forced.values()):
                ctx.count("stage_pool:completion_forced_out_of_name_order")
            ctx.oracle(k == "ok", case, {"why": "staging raised", "after": where, "impl": str(res)[:200]})
            if k != "ok":
                return
            got = {"/".join(key): (hi.name, hi.value) for key, _m, hi in res[2]}
            ctx.oracle(sorted(got) == sorted(content), case, {"why": "the staged tree lists other paths than the directory holds", "after": where, "tree": sorted(got)})
            for rel in sorted(content):
                cur = ref(algo, content[rel])
                ctx.oracle(got.get(rel) == (algo, cur), case,
                           {"why": "staging through the cache reports a hash that is not the hash of the file's bytes", "after": where,
                            "file": rel, "staged": got.get(rel), "current": cur})
                cached_for[rel] = algo
            check_all(where)

        try:
            # part of the files is known to the cache beforehand, for this algorithm or for another one
            for rel in sorted(content):
                if rng.random() < 0.3:
                    a0 = rng.choice([algo, rng.choice(ALGOS)])
                    safe_call(lambda: hash_file(os.path.join(ws, rel), plain_fs, a0, state=state))
                    cached_for[rel] = a0
                    steps.append({"precached": rel, "algo": a0})
                    ctx.count("stage_pool:precached_" + ("same_algo" if a0 == algo else "other_algo"))
            ctx.case(case, nontrivial=nlarge >= 2)
            stage("first staging", rng.choice([None, None, 1, 2, 4, 8]), rng.random() < 0.5)
            # rewrite some files (size kept or changed, always with an explicit mtime step), then stage again: hits and misses mixed
            for rel in sorted(content):
                if rng.random() < 0.5:
                    p = os.path.join(ws, rel)
                    old = content[rel]
                    how = rng.choice(["rewrite_same_size", "append", "replace_same_size"]) if old else "append"
                    new = old + b"+more" if how == "append" else bytes([old[0] ^ 1]) + old[1:]
                    st = os.stat(p)
                    if how == "replace_same_size":
                        with open(p + ".new", "wb") as f:
                            f.write(new)
                        os.replace(p + ".new", p)
                    else:
                        with open(p, "wb") as f:
                            f.write(new)
                    os.utime(p, ns=(st.st_atime_ns, st.st_mtime_ns + rng.choice([1_000_000, 1_000_000_000, 3_000_000_000])))
                    content[rel] = new
                    cached_for.pop(rel, None)
                    steps.append({"mutate": rel, "how": how})
                    ctx.count("stage_pool:" + how)
            stage("second staging", rng.choice([None, None, 1, 2, 4, 8]), rng.random() < 0.5)
            stage("third staging (nothing changed)", rng.choice([None, 1, 3]), True)
        finally:
            state.close()
            shutil.rmtree(root, ignore_errors=True)  # several MiB per scenario
        if gate.timeouts:
            ctx.count("stage_pool:gate_guard_timeout", gate.timeouts)


def run_checkout_state(ctx, n):
    """index checkout with a hash-state database onto a workspace that already holds foreign files, some objects being unavailable:
    whatever the cache says about a workspace path afterwards must be the hash of the bytes that are there"""
    from dvc_objects.fs.local import LocalFileSystem

    from dvc_data.hashfile.db.local import LocalHashFileDB
    from dvc_data.hashfile.hash import hash_file
    from dvc_data.hashfile.hash_info import HashInfo
    from dvc_data.hashfile.meta import Meta
    from dvc_data.hashfile.state import State
    from dvc_data.index.checkout import apply, compare
    from dvc_data.index.index import DataIndex, DataIndexEntry, ObjectStorage

    rng = ctx.rng
    fs = LocalFileSystem()
    for _ in range(n):
        root = ctx.mkdtemp()
        odb = LocalHashFileDB(fs, os.path.join(root, "odb"))
        odb.cache_types = [rng.choice(["copy", "hardlink", "symlink"])]
        state = State(root_dir=root, tmp_dir=os.path.join(root, "tmp"))
        idx = DataIndex()
        idx.storage_map.add_cache(ObjectStorage((), odb))
        ws = os.path.join(root, "ws")
        os.makedirs(ws)
        spec = {}
        for i in range(rng.randrange(2, 6)):
            k = ("f%d" % i,) if rng.random() < 0.6 else ("d", "f%d" % i)
            c = b"tracked-%d-%d" % (i, rng.randrange(100))
            available = rng.random() < 0.6
            foreign = rng.random() < 0.5
            idx[k] = DataIndexEntry(key=k, meta=Meta(), hash_info=HashInfo("md5", md5hex(c)))
            if available:
                from . import stores

                stores.put_raw(odb.path, md5hex(c), c, mode=0o444)
            if foreign:
                p = os.path.join(ws, *k)
                os.makedirs(os.path.dirname(p), exist_ok=True)
                with open(p, "wb") as f:
                    f.write(b"user-file-%d" % i)
            spec["/".join(k)] = {"available": available, "foreign_file_present": foreign}
        update_meta = rng.random() < 0.5
        case = {"checkout_with_state": spec, "link": odb.cache_types[0], "update_meta": update_meta}
        try:
            k1, _ = safe_call(lambda: apply(compare(None, idx), ws, fs, update_meta=update_meta, storage="cache", state=state, onerror=lambda *a: None))
            ctx.case(case)
            ctx.count("checkout_state:link=%s update_meta=%s" % (odb.cache_types[0], update_meta))
            if update_meta and k1 == "ok":
                # the metadata the checkout wrote back into the index is what update() later carries hashes over by
                from dvc_data.index import build as ibuild
                from dvc_data.index.update import update as iupdate

                k2, new = safe_call(lambda: ibuild(ws, fs))
                if k2 == "ok":
                    k3, _ = safe_call(lambda: iupdate(new, idx))
                    for key, e in (list(new.iteritems()) if k3 == "ok" else []):
                        p = os.path.join(ws, *key)
                        if e.hash_info and e.hash_info.value and os.path.isfile(p):
                            cur = md5hex(open(p, "rb").read())
                            ctx.oracle(e.hash_info.value == cur, case,
                                       {"why": "update() after an index checkout carried a hash over to a path whose bytes are not the entry's (the checkout had not created that file)",
                                        "path": "/".join(key), "carried": e.hash_info.value, "current": cur})
            for r, _ds, fns in os.walk(ws):
                for fn in fns:
                    p = os.path.join(r, fn)
                    if not os.path.exists(p):
                        continue  # a dangling link (known finding of C09)
                    cur = md5hex(open(p, "rb").read())
                    _, hi = state.get(p, fs)
                    ctx.oracle(hi is None or hi.value == cur, case, {"why": "after an index checkout the hash-state database holds a stale hash for a workspace path",
                                                                    "path": os.path.relpath(p, ws), "cached": None if hi is None else hi.value, "current": cur})
                    _, hi2 = hash_file(p, fs, "md5", state=state)
                    ctx.oracle(hi2.value == cur, case, {"why": "hash_file through the cache is stale after an index checkout", "path": os.path.relpath(p, ws)})
        finally:
            state.close()


def run(ctx):
    ctx.rule = (
        "histories of 8-30 steps over 1-4 real files: rewrite in place (same length), append, truncate, atomic replace (new inode, "
        "with and without preserved mtime), touch, delete, re-create — each followed by an explicit mtime bump from 1 ms to 3 s — "
        "interleaved with hash_file (md5 / md5-dos2unix / sha256), State.get, State.get_many and rows injected as another release "
        "would write them (version-less, newer version); batches of 0/1/998/999/1000/1100(2500) paths; staging under one algorithm "
        "then another; index md5()+edits+update(); files rewritten from the progress callback while their directory is being staged; staged directories holding symlinks whose targets are rewritten or replaced between two stagings; directories with 1-4 files above the 1 MiB large-file threshold (and 0-2 at or below it, root and sub-directory) staged three times through the cache with checksum_jobs in {default,1,2,3,4,8}, part of the files cached beforehand for the same or another algorithm, files rewritten / appended / replaced between the stagings, the completion order of the hashing pool's reads being a random permutation forced through the filesystem object; a memory filesystem. non-trivial = >=1 mutation and >=4 steps"
    )
    ctx.assumptions = ["a mutation changes at least one of (inode, mtime, size) and never returns to a stamp the path had with other bytes (inode reuse under a preserved mtime and size is bumped); the harness enforces it with os.utime",
                       "fsspec.utils.tokenize is injective on the (ino, mtime, size) triples that occur"]
    run_batches(ctx)
    for _ in range(ctx.n(120, 1500)):
        run_history(ctx, ctx.rng.randrange(8, 30))
    run_other(ctx, ctx.n(25, 250))
    run_build_race(ctx, ctx.n(40, 400))
    run_checkout_state(ctx, ctx.n(50, 500))
    run_stage_links(ctx, ctx.n(30, 300))
    run_stage_pool(ctx, ctx.n(12, 80))


def search(ctx):
    for _ in range(1200):
        run_history(ctx, ctx.rng.randrange(8, 30))
    run_other(ctx, 200)
    run_build_race(ctx, 300)
    run_checkout_state(ctx, 300)
    run_stage_links(ctx, 300)
    run_stage_pool(ctx, 60)


def replay(ctx, payload):
    run(ctx)
