"""C08 — index diff is exact: every key once, correctly classified, renames paired (index/diff.py)."""
import itertools

from . import gen
from .c03 import hi_to_json, meta_to_json
from .util import md5hex, safe_call


def mk_entry(key, meta, hi, loaded=None):
    from dvc_data.index.index import DataIndexEntry

    return DataIndexEntry(key=key, meta=meta, hash_info=hi, loaded=loaded)


def ent_json(spec):
    """spec = (key, meta, hi) with real Meta/HashInfo objects"""
    k, m, h = spec
    return {"key": list(k), "meta": meta_to_json(m), "hi": hi_to_json(h), "loaded": None}


def build_index(specs):
    from dvc_data.index.index import DataIndex

    if specs is None:
        return None
    idx = DataIndex()
    for k, m, h in specs:
        import copy

        idx[k] = mk_entry(k, copy.copy(m) if m is not None else None, copy.copy(h) if h is not None else None)
    return idx


def meta_cmp_key(meta):
    if meta is None:
        return meta
    return (meta.isdir, meta.isexec)


class _ChecksumFS:
    """just enough of a filesystem for push's _meta_checksum(): the name of the metadata field holding its checksum"""

    def __init__(self, field):
        self.PARAM_CHECKSUM = field


def _field_key(field):
    def key(meta):
        return None if meta is None else getattr(meta, field)

    return key


# comparison keys that project a real Meta to None when it lacks the field looked at: "checksum:<field>" is what
# index/push.py hands to compare() for a file-storage remote whose fs.PARAM_CHECKSUM is <field>; "field:<field>" is the
# plain user key `lambda meta: meta.<field>` (None -> None, as diff's callers write it)
PROJECTIONS = ["checksum:etag", "checksum:checksum", "checksum:md5", "field:size", "field:version_id"]


def cmp_key_of(name):
    if name == "dirExec":
        return meta_cmp_key
    kind, field = name.split(":")
    if kind == "checksum":
        from functools import partial

        from dvc_data.index.push import _meta_checksum

        return partial(_meta_checksum, _ChecksumFS(field))
    return _field_key(field)


def run_diff(old, new, opts):
    from dvc_data.index.diff import diff

    kw = {k: v for k, v in opts.items() if k != "cmp"}
    if opts.get("cmp"):
        kw["meta_cmp_key"] = cmp_key_of(opts["cmp"])
    if kw.get("roots") is not None:
        kw["roots"] = [tuple(r) for r in kw["roots"]]

    def f():
        return [(c.typ, list(c.old.key) if c.old else None, list(c.new.key) if c.new else None)
                for c in diff(build_index(old), build_index(new), **kw)]

    kind, v = safe_call(f)
    return canon_impl([list(x) for x in v]) if kind == "ok" else {"err": v}


def canon_model(ans):
    if "changes" not in ans:
        return ans
    return sorted(([t, o, n] for t, o, n in ans["changes"]), key=lambda x: (x[0], x[1] is not None, x[1] or [], x[2] is not None, x[2] or []))


def canon_impl(v):
    if isinstance(v, dict):
        return v
    return sorted(v, key=lambda x: (x[0], x[1] is not None, x[1] or [], x[2] is not None, x[2] or []))


# ------------------------------------------------------------------ generators


def rand_side(rng, files, explicit_dirs=0.5, salt=0):
    """well-formed index: files + (implicit or explicit) directory entries for their prefixes"""
    from dvc_data.hashfile.hash_info import HashInfo
    from dvc_data.hashfile.meta import Meta

    fspecs = []
    for k, c in files.items():
        r = rng.random()
        hi = None if r < 0.1 else HashInfo("md5", "") if r < 0.15 else HashInfo("md5", md5hex(c))
        r = rng.random()
        meta = None if r < 0.25 else Meta(size=len(c), isexec=rng.random() < 0.2) if r < 0.8 else Meta(size=len(c), inode=rng.randrange(5), mtime=float(rng.randrange(3)))
        fspecs.append((k, meta, hi))
    return finish_side(rng, files, fspecs, explicit_dirs, salt)


def finish_side(rng, files, fspecs, explicit_dirs, salt):
    from dvc_data.hashfile.hash_info import HashInfo
    from dvc_data.hashfile.meta import Meta

    specs = []
    dirs = sorted({k[:i] for k in files for i in range(1, len(k))})
    for d in dirs:
        # the same directory is represented the same way on both sides (explicit/implicit, hashed or not),
        # and a directory hash is a function of the hashes recorded below it (consistent indexes)
        coin = int(md5hex(("%d|" % salt + "/".join(d)).encode())[:4], 16) / 65536.0
        if coin < explicit_dirs:
            sub = sorted("/".join(k) + ":" + (h.value if h is not None and h.value else "-") for k, m, h in fspecs if k[: len(d)] == d)
            h = HashInfo("md5", md5hex("".join(sub).encode()) + ".dir") if coin < explicit_dirs * 0.6 else None
            specs.append((d, Meta(isdir=True, nfiles=len(sub) if coin < explicit_dirs * 0.3 else None), h))
    specs += fspecs
    rng.shuffle(specs)
    return specs


def rand_pair(rng, side=None):
    side = side or rand_side
    files = gen.rand_tree(rng, max_files=7, allow_odd=False)
    old_files = dict(files)
    new_files = dict(files)
    # derive the new side: modify / delete / add / kind changes
    for k in list(files):
        r = rng.random()
        if k not in new_files or any(kk != k and kk[: len(k)] == k for kk in new_files):
            continue
        if r < 0.2:
            new_files[k] = files[k] + b"!"
        elif r < 0.3:
            del new_files[k]
        elif r < 0.36:
            # file becomes a directory
            del new_files[k]
            new_files[k + ("inner",)] = b"x"
            if rng.random() < 0.5:
                new_files[k + ("deep", "er")] = files[k]
        elif r < 0.4 and len(k) > 1:
            # directory becomes a file
            for kk in list(new_files):
                if kk[: len(k) - 1] == k[:-1]:
                    del new_files[kk]
            if not any(k[:i] in new_files for i in range(1, len(k) - 1)):
                new_files[k[:-1]] = b"was-a-dir"
    for _ in range(rng.randrange(0, 3)):
        k = (gen.rand_name(rng, gen.NAME_POOL[:7]) + "2",)
        new_files[k] = rng.choice(list(files.values()) + [b"brand-new"])
    exp = rng.choice([0.0, 0.5, 1.0])
    salt = rng.randrange(10**6)
    old = side(rng, old_files, exp, salt)
    new = side(rng, new_files, exp, salt)
    if new and rng.random() < 0.3:
        # the same hash *values* recorded under another algorithm name on the new side (an md5-dos2unix -> md5 migration,
        # etags): a whole top-level sub-tree (or the whole index) switches, directory hashes included, so the index stays
        # consistent (a directory's hash changes whenever something recorded below it does)
        from dvc_data.hashfile.hash_info import HashInfo

        tops = sorted({k[0] for k, _, _ in new})
        top = rng.choice(tops + [None])
        name = rng.choice(["md5-dos2unix", "etag"])
        for i, (k, m, h) in enumerate(new):
            if h is not None and h.value and (top is None or k[0] == top):
                new[i] = (k, m, HashInfo(name, h.value))
    r = rng.random()
    if r < 0.05:
        old = None
    elif r < 0.1:
        new = None
    elif r < 0.15:
        old = []
    return old, new


def rand_opts(rng):
    o = {"with_unchanged": rng.random() < 0.4}
    r = rng.random()
    if r < 0.2:
        o["hash_only"] = True
    elif r < 0.35:
        o["meta_only"] = True
    if rng.random() < 0.25:
        o["cmp"] = "dirExec"
    if rng.random() < 0.15:
        o["shallow"] = True
    if rng.random() < 0.3 and not o.get("meta_only"):
        o["with_renames"] = True
    return o


# ------------------------------------------------------------------ oracles


def flat(specs):
    return {tuple(k): (m, h) for k, m, h in (specs or [])}


def fixed_meta(m, h):
    from dvc_data.hashfile.meta import Meta

    if m is None and h is not None and h.value:
        return Meta()
    return m


def truthy(h):
    return h if (h is not None and h.value) else None


def oracle_pair(ctx, case, old, new, opts, impl):
    if isinstance(impl, dict):
        ctx.oracle(False, case, {"why": "diff raised", "impl": impl})
        return
    fo, fn = flat(old), flat(new)
    keys = set(fo) | set(fn)
    plain = not any(opts.get(k) for k in ("hash_only", "meta_only", "shallow", "with_renames", "cmp"))
    seen = {}
    for t, ok, nk in impl:
        for k in {tuple(x) for x in (ok, nk) if x is not None}:
            seen[k] = seen.get(k, 0) + 1
    # every reported key has an entry on that side, and no key is reported twice
    for t, ok, nk in impl:
        ctx.oracle((ok is None or tuple(ok) in fo) and (nk is None or tuple(nk) in fn), case, {"why": "change refers to a key without an entry", "change": [t, ok, nk]})
    ctx.oracle(all(v == 1 for v in seen.values()) or opts.get("with_renames"), case, {"why": "a key is reported more than once", "counts": {"/".join(k): v for k, v in seen.items() if v != 1}})
    if plain and old is not None and new is not None:
        exp = {}
        for k in keys:
            o, n = fo.get(k), fn.get(k)
            if o is None:
                exp[k] = "add"
            elif n is None:
                exp[k] = "delete"
            else:
                om, nm = fixed_meta(*o), fixed_meta(*n)
                if (om is None) != (nm is None):
                    # an entry without metadata and without hash is "unknown": the table reports the metadata
                    # appearing/disappearing as add/delete (documented reading); no exact expectation here
                    exp[k] = None
                    continue
                same_meta = (om == nm)
                same_hash = (truthy(o[1]) == truthy(n[1]))
                exp[k] = "unchanged" if same_meta and same_hash else "modify"
        got = {}
        for t, ok, nk in impl:
            got[tuple(ok or nk)] = t
        for k in [k for k, v in exp.items() if v is None]:
            del exp[k]
            got.pop(k, None)
        want = {k: v for k, v in exp.items() if v != "unchanged" or opts.get("with_unchanged")}
        ctx.oracle(got == want, case, {"why": "diff differs from the key-by-key comparison",
                                        "impl": {"/".join(k): v for k, v in got.items()}, "expected": {"/".join(k): v for k, v in want.items()}})
    if opts.get("hash_only") and not opts.get("with_renames") and not opts.get("shallow") and old is not None and new is not None:
        got = {tuple(ok or nk) for t, ok, nk in impl if t != "unchanged"}
        for k in keys:
            o, n = fo.get(k), fn.get(k)
            oh = truthy(o[1]) if o else None
            nh = truthy(n[1]) if n else None
            if oh != nh:
                ctx.oracle(k in got, case, {"why": "hash-only diff hides a hash change", "key": list(k)})
    if opts.get("meta_only") and old is not None and new is not None and not opts.get("shallow"):
        got = {tuple(ok or nk) for t, ok, nk in impl if t != "unchanged"}
        for k in keys:
            o, n = fo.get(k), fn.get(k)
            om = fixed_meta(*o) if o else None
            nm = fixed_meta(*n) if n else None
            differs = (meta_cmp_key(om) != meta_cmp_key(nm)) if opts.get("cmp") else (om != nm)
            if differs:
                ctx.oracle(k in got, case, {"why": "meta-only diff hides a metadata change", "key": list(k)})
    if opts.get("with_renames") and old is not None and new is not None:
        base = {k: v for k, v in opts.items() if k != "with_renames"}
        plain_changes = run_diff(old, new, base)
        if not isinstance(plain_changes, dict):
            def sides(changes):
                # the key(s) a change stands for: add -> new side, delete -> old side, others -> both
                o = sorted(tuple(c[1]) for c in changes if c[1] is not None and c[0] != "add")
                n = sorted(tuple(c[2]) for c in changes if c[2] is not None and c[0] != "delete")
                return o, n

            ctx.oracle(sides(impl) == sides(plain_changes),
                       case, {"why": "rename detection lost or duplicated a key", "impl": impl, "without_renames": plain_changes})
        for t, ok, nk in impl:
            if t == "rename":
                oh, nh = truthy(fo[tuple(ok)][1]), truthy(fn[tuple(nk)][1])
                ctx.oracle(oh is not None and oh == nh and ok != nk, case, {"why": "rename pairs entries with different hashes", "change": [t, ok, nk]})
        adds = [truthy(fn[tuple(nk)][1]) for t, ok, nk in impl if t == "add"]
        dels = [truthy(fo[tuple(ok)][1]) for t, ok, nk in impl if t == "delete"]
        left = [h for h in adds if h is not None and h in dels]
        ctx.oracle(not left, case, {"why": "a matching added/deleted pair was left unpaired", "hashes": [str(h) for h in left]})


def self_and_swap(ctx, case, old, new, opts, impl):
    """self-diff shows no change; swapping swaps add/delete and nothing else"""
    if old is not None and not opts.get("with_renames"):
        o2 = {k: v for k, v in opts.items() if k != "with_unchanged"}
        s = run_diff(old, old, o2)
        ctx.oracle(s == [], case, {"why": "an index diffed with itself shows a change", "impl": s})
    if old is not None and new is not None and not opts.get("with_renames"):
        sw = run_diff(new, old, opts)
        if not isinstance(sw, dict) and not isinstance(impl, dict):
            m = {"add": "delete", "delete": "add"}
            exp = canon_impl([[m.get(t, t), nk, ok] for t, ok, nk in impl])
            ctx.oracle(sw == exp, case, {"why": "swapping the arguments does not just swap added and deleted", "swapped": sw, "expected": exp})


def check_pairs(ctx, pairs):
    reqs = []
    for old, new, opts in pairs:
        reqs.append({"op": "index_diff", "old": None if old is None else [ent_json(s) for s in old],
                     "new": None if new is None else [ent_json(s) for s in new], "opts": opts})
        # self diff and swapped diff ride along
    answers = ctx.driver.batch(reqs)
    for (old, new, opts), req, ans in zip(pairs, reqs, answers):
        case = {"old": req["old"], "new": req["new"], "opts": opts}
        ctx.case(case, nontrivial=bool(old) and bool(new))
        for k, v in opts.items():
            if v:
                ctx.count("opt:%s=%s" % (k, v))
        impl = run_diff(old, new, opts)
        ctx.corr("IndexDiff.diff~index.diff()", case, canon_impl(impl), canon_model(ans))
        oracle_pair(ctx, case, old, new, opts, impl)
        if not isinstance(impl, dict):
            for t, _, _ in impl:
                ctx.count("typ:" + t)
        self_and_swap(ctx, case, old, new, opts, impl)
        if len(ctx.samples) < 2 and old and new:
            ctx.sample({"opts": opts, "old_keys": [e["key"] for e in req["old"]], "new_keys": [e["key"] for e in req["new"]], "changes": impl})


def check_views(ctx, pairs):
    """diffing two filtered views reports exactly what diffing the two indexes restricted to the accepted keys reports -
    for filters that accept the root key and for filters that do not (`lambda k: "dir" in k` style)"""
    from dvc_data.index.diff import diff
    from dvc_data.index.view import view

    rng = ctx.rng
    for old, new, opts in pairs:
        if not old or not new:
            continue
        tops = sorted({k[0] for k, _, _ in list(old) + list(new) if k})
        if not tops:
            continue
        allowed = {t for t in tops if rng.random() < 0.6} or {tops[0]}
        accept_root = rng.random() < 0.5

        def flt(k, allowed=allowed, accept_root=accept_root):
            return (accept_root if not k else k[0] in allowed)

        kw = {k: v for k, v in opts.items() if k != "cmp"}
        if opts.get("cmp"):
            kw["meta_cmp_key"] = cmp_key_of(opts["cmp"])
        case = {"view_diff": True, "old": [ent_json(x) for x in old], "new": [ent_json(x) for x in new], "opts": opts,
                "allowed": sorted(allowed), "accept_root": accept_root}
        ctx.case(case)
        ctx.count("view_diff accept_root=%s" % accept_root)

        def f():
            return [[c.typ, list(c.old.key) if c.old else None, list(c.new.key) if c.new else None]
                    for c in diff(view(build_index(old), flt), view(build_index(new), flt), **kw)]

        kind, v = safe_call(f)
        got = canon_impl(v) if kind == "ok" else {"err": v}
        exp = run_diff([x for x in old if flt(x[0])], [x for x in new if flt(x[0])], opts)
        ctx.oracle(got == exp, case, {"why": "diff of two filtered views differs from the diff of the indexes restricted to the accepted keys",
                                      "views": got if isinstance(got, dict) else [x for x in got if x not in exp][:4],
                                      "restricted": exp if isinstance(exp, dict) else [x for x in exp if x not in got][:4]})


def rename_workload(rng):
    """duplicate contents moved around: several deletions and additions sharing hashes"""
    from dvc_data.hashfile.hash_info import HashInfo
    from dvc_data.hashfile.meta import Meta

    contents = [b"dup-a", b"dup-b", b"uniq-%d" % rng.randrange(100)]
    old, new = [], []
    for i in range(rng.randrange(2, 6)):
        c = rng.choice(contents)
        old.append((("o%d" % i,) if rng.random() < 0.7 else ("d", "o%d" % i), Meta(size=len(c)), HashInfo("md5", md5hex(c))))
    for i in range(rng.randrange(1, 6)):
        c = rng.choice(contents)
        new.append((("n%d" % i,) if rng.random() < 0.7 else ("d", "n%d" % i), Meta(size=len(c)), HashInfo("md5", md5hex(c))))
    for s in rng.sample(old, k=rng.randrange(0, len(old))):
        new.append(s)
    return old, new, {"with_renames": True, "with_unchanged": rng.random() < 0.3}


def table(ctx):
    """exhaustive: _diff_entry over presence x meta x hash x options"""
    from dvc_data.hashfile.hash_info import HashInfo
    from dvc_data.hashfile.meta import Meta
    from dvc_data.index.diff import _diff_entry

    metas = [None, Meta(size=1), Meta(size=2), Meta(size=1, isexec=True), Meta(isdir=True)]
    his = [None, HashInfo("md5", ""), HashInfo("md5", "h1"), HashInfo("md5", "h2"), HashInfo("md5", "h1.dir"), HashInfo("etag", "h1")]
    sides = [None] + [(m, h) for m in metas for h in his]
    rows, impl, refs = [], [], []
    for o, n in itertools.product(sides, sides):
        for hash_only, meta_only, cmp in itertools.product([False, True], [False, True], [None, "dirExec"]):
            opts = {"hash_only": hash_only, "meta_only": meta_only, "cmp": cmp}
            refs.append(ref_typ(o, n, hash_only, meta_only, meta_cmp_key if cmp else None))
            oe = mk_entry(("k",), *o) if o is not None else None
            ne = mk_entry(("k",), *n) if n is not None else None
            k, v = safe_call(lambda: _diff_entry(oe, ne, hash_only=hash_only, meta_only=meta_only, meta_cmp_key=meta_cmp_key if cmp else None))
            impl.append(v)
            rows.append({"old": None if o is None else ent_json((("k",),) + o), "new": None if n is None else ent_json((("k",),) + n), "opts": opts})
    ans = ctx.driver.ask({"op": "diff_entry", "rows": rows})["typ"]
    ctx.evaluations += len(rows)
    ctx.exhaustive["_diff_entry over %d (old, new, options) rows" % len(rows)] = True
    bad = [i for i, (a, b) in enumerate(zip(impl, ans)) if a != b]
    if bad:
        i = bad[0]
        ctx.corr("IndexDiff.diffEntry~_diff_entry (table)", rows[i], impl[i], ans[i])
    else:
        ctx.traces += len(rows)
    # the harness's own key-by-key reference (used where the comparison key is not one the model knows) is the model's table
    bad = [i for i, (a, b) in enumerate(zip(refs, ans)) if a != b]
    ctx.corr("IndexDiff.diffEntry~harness reference ref_typ (table)", rows[bad[0]] if bad else {}, refs[bad[0]] if bad else None, ans[bad[0]] if bad else None)
    # swap symmetry of the table on the implementation
    idx = {}
    for r, t in zip(rows, impl):
        idx[(str(r["old"]), str(r["new"]), str(r["opts"]))] = t
    m = {"add": "delete", "delete": "add"}
    for r, t in zip(rows, impl):
        t2 = idx[(str(r["new"]), str(r["old"]), str(r["opts"]))]
        ctx.oracle(t2 == m.get(t, t), r, {"why": "_diff_entry is not symmetric under swapping", "forward": t, "backward": t2})
        if str(r["old"]) == str(r["new"]):
            ctx.oracle(t == "unchanged", r, {"why": "_diff_entry(e, e) is not unchanged", "got": t})


# ------------------------------------------------------------------ comparison keys that project a real Meta to None


def ref_typ(o, n, hash_only, meta_only, key):
    """the key-by-key reference: IndexDiff.diffEntry with the metadata comparison generalised to any key function
    (table() ties it to the model for the two keys the model knows).  o, n = None (no entry) or (meta, hash_info).
    Whether metadata are there is decided on the metadata themselves; the key function only says whether two metadata
    that are both there count as equal."""
    om, oh = o if o is not None else (None, None)
    nm, nh = n if n is not None else (None, None)
    oh, nh = truthy(oh), truthy(nh)
    if om is None and nm is None:
        md = "unchanged"
    elif om is None:
        md = "add"
    elif nm is None:
        md = "delete"
    elif key is None:
        md = "unchanged" if om == nm else "modify"
    else:
        md = "unchanged" if key(om) == key(nm) else "modify"
    if oh is None and nh is None:
        hd = "unchanged"
    elif oh is None:
        hd = "add"
    elif nh is None:
        hd = "delete"
    else:
        hd = "unchanged" if oh == nh else "modify"
    ed = "add" if (o is None and n is not None) else "delete" if (o is not None and n is None) else "unchanged"
    if meta_only:
        return md
    if hash_only:
        return hd
    if ed != "unchanged":
        return ed
    if md == "unchanged" and om is None:
        return hd
    if hd == "unchanged" and oh is None:
        return md
    if md == hd == ed:
        return md
    return "modify"


def rand_side_remote(rng, files, explicit_dirs=0.5, salt=0):
    """a side as an index of a cloud remote / an imported workspace looks: file metadata carry some of etag, checksum,
    md5, version_id (the same content gives the same tag on both sides, now and then a stale one) and some entries lack
    the field - or the size, or the hash - altogether"""
    from dvc_data.hashfile.hash_info import HashInfo
    from dvc_data.hashfile.meta import Meta

    fspecs = []
    for k, c in files.items():
        hi = None if rng.random() < 0.35 else HashInfo("md5", md5hex(c))
        if rng.random() < 0.12:
            meta = None
        else:
            tag = md5hex(c)[:8] + ("-stale" if rng.random() < 0.12 else "")
            kw = {f: tag for f in ("etag", "checksum", "md5") if rng.random() < 0.6}
            if rng.random() < 0.4:
                kw["version_id"] = "v" + tag
            meta = Meta(size=len(c) if rng.random() < 0.7 else None, isexec=rng.random() < 0.15, **kw)
        fspecs.append((k, meta, hi))
    return finish_side(rng, files, fspecs, explicit_dirs, salt)


def proj_table(ctx):
    """exhaustive: _diff_entry under every projecting comparison key over presence x meta (with / without the field
    the key looks at) x hash x mode, against the key-by-key reference; swap symmetry and reflexivity"""
    from dvc_data.hashfile.hash_info import HashInfo
    from dvc_data.hashfile.meta import Meta
    from dvc_data.index.diff import _diff_entry

    def tagged(t, **kw):
        return Meta(etag=t, checksum=t, md5=t, version_id="v" + t, **kw)

    metas = [None, Meta(), Meta(size=1), tagged("e1", size=1), tagged("e2", size=1), tagged("e1"), Meta(size=2, etag="e1"), Meta(isdir=True)]
    his = [None, HashInfo("md5", ""), HashInfo("md5", "h1"), HashInfo("md5", "h2")]
    sides = [None] + [(m, h) for m in metas for h in his]
    n = 0
    swap = {"add": "delete", "delete": "add"}
    for proj in PROJECTIONS:
        key = cmp_key_of(proj)
        got = {}
        for (i, o), (j, nn) in itertools.product(enumerate(sides), enumerate(sides)):
            oe = mk_entry(("k",), *o) if o is not None else None
            ne = mk_entry(("k",), *nn) if nn is not None else None
            for hash_only, meta_only in ((False, False), (True, False), (False, True)):
                _, t = safe_call(lambda: _diff_entry(oe, ne, hash_only=hash_only, meta_only=meta_only, meta_cmp_key=key))
                got[(i, j, hash_only, meta_only)] = t
                n += 1
        for (i, j, hash_only, meta_only), t in got.items():
            o, nn = sides[i], sides[j]
            case = {"projected_cmp_key": proj, "old": None if o is None else ent_json((("k",),) + o),
                    "new": None if nn is None else ent_json((("k",),) + nn), "opts": {"hash_only": hash_only, "meta_only": meta_only}}
            want = ref_typ(o, nn, hash_only, meta_only, key)
            ctx.oracle(t == want, case, {"why": "_diff_entry under a comparison key that maps a real Meta to None differs from the key-by-key comparison",
                                         "got": t, "expected": want})
            back = got[(j, i, hash_only, meta_only)]
            ctx.oracle(back == swap.get(t, t), case, {"why": "_diff_entry is not symmetric under swapping", "forward": t, "backward": back})
            if i == j:
                ctx.oracle(t == "unchanged", case, {"why": "_diff_entry(e, e) is not unchanged", "got": t})
    ctx.evaluations += n
    ctx.count("projecting cmp key: _diff_entry table rows", n)
    ctx.exhaustive["_diff_entry under %d projecting comparison keys over %d (old, new, mode) rows" % (len(PROJECTIONS), n)] = True


def check_projected(ctx, n):
    """diff() of two indexes under a comparison key that is None for a Meta lacking the field it looks at (push's
    _meta_checksum, `lambda m: m.size`): every key with an entry once, classified as the key-by-key reference says -
    a key present on both sides is never split into / reported as add or delete because a projection is None, a new
    entry is never hidden; self-diff and swap.  Oracle only (the model knows the full and the (isdir, isexec) key)."""
    rng = ctx.rng
    for _ in range(n):
        old, new = rand_pair(rng, side=rand_side_remote)
        proj = rng.choice(PROJECTIONS)
        opts = {"with_unchanged": rng.random() < 0.5, "cmp": proj}
        r = rng.random()
        if r < 0.55:
            opts["meta_only"] = True
        elif r < 0.7:
            opts["hash_only"] = True
        case = {"projected_cmp_key": proj, "old": None if old is None else [ent_json(s) for s in old],
                "new": None if new is None else [ent_json(s) for s in new], "opts": opts}
        ctx.case(case, nontrivial=bool(old) and bool(new))
        ctx.count("projecting cmp key: " + proj)
        ctx.count("projecting cmp key: mode=" + ("meta_only" if opts.get("meta_only") else "hash_only" if opts.get("hash_only") else "hash+meta"))
        impl = run_diff(old, new, opts)
        if isinstance(impl, dict):
            ctx.oracle(False, case, {"why": "diff raised", "impl": impl})
            continue
        key = cmp_key_of(proj)
        fo, fn = flat(old), flat(new)
        want, one_sided = {}, 0
        for k in set(fo) | set(fn):
            o, nn = fo.get(k), fn.get(k)
            o = None if o is None else (fixed_meta(*o), o[1])
            nn = None if nn is None else (fixed_meta(*nn), nn[1])
            t = ref_typ(o, nn, opts.get("hash_only"), opts.get("meta_only"), key)
            if o and nn and o[0] is not None and nn[0] is not None and (key(o[0]) is None) != (key(nn[0]) is None):
                one_sided += 1
            if t != "unchanged" or opts["with_unchanged"]:
                want[k] = t
        if one_sided:
            ctx.count("projecting cmp key: pairs with a key whose projection is None on one side only")
        got, dup = {}, []
        for t, ok, nk in impl:
            ctx.oracle((ok is None or tuple(ok) in fo) and (nk is None or tuple(nk) in fn) and (ok is None or nk is None or ok == nk), case,
                       {"why": "change refers to a key without an entry", "change": [t, ok, nk]})
            k = tuple(ok if ok is not None else nk)
            if k in got:
                dup.append(list(k))
            got[k] = t
        ctx.oracle(not dup, case, {"why": "a key is reported more than once", "keys": dup})
        wrong = sorted(k for k in set(got) | set(want) if got.get(k) != want.get(k))
        ctx.oracle(not wrong, case, {"why": "diff under a comparison key that maps a real Meta to None differs from the key-by-key comparison",
                                      "differences": [{"key": list(k), "impl": got.get(k), "expected": want.get(k)} for k in wrong[:6]]})
        self_and_swap(ctx, case, old, new, opts, impl)


# ------------------------------------------------------------------ index/save.py and the unchanged-sub-tree shortcut


def save_specs(rng, files, explicit=0.7):
    """an index as `build()` + `md5()` leave it: hashed file entries, some directories explicit (without a hash yet)"""
    from dvc_data.hashfile.hash_info import HashInfo
    from dvc_data.hashfile.meta import Meta

    specs = []
    for d in sorted({k[:i] for k in files for i in range(1, len(k))}):
        if rng.random() < explicit:
            specs.append((d, Meta(isdir=True), None))
    for k, c in files.items():
        r = rng.random()
        hi = None if r < 0.08 else HashInfo("md5", md5hex(c))
        r = rng.random()
        meta = None if r < 0.15 else Meta(size=len(c), isexec=rng.random() < 0.2) if r < 0.9 else Meta()
        specs.append((k, meta, hi))
    rng.shuffle(specs)
    return specs


def real_save(ctx, specs, files):
    """run the real save() on an index whose data storage is a directory holding the files -> (index, store path)"""
    import copy

    from dvc_data.index.index import DataIndex, FileStorage
    from dvc_data.index.save import save

    from .stores import fs_local, make_odb

    root = ctx.mkdtemp()
    gen.materialize(root + "/ws", files)
    odb = make_odb(root + "/odb", local=bool(ctx.rng.randrange(2)))
    idx = DataIndex()
    for k, m, h in specs:
        isdir = m is not None and m.isdir
        idx[k] = mk_entry(k, copy.copy(m) if m is not None else None, copy.copy(h) if h is not None else None, loaded=True if isdir else None)
    idx.storage_map.add_data(FileStorage(key=(), fs=fs_local(), path=root + "/ws"))
    save(idx, odb=odb)
    return idx, root + "/odb"


def entry_json(e):
    return {"meta": meta_to_json(e.meta), "hi": hi_to_json(e.hash_info), "loaded": e.loaded}


def norm_entry(j):
    """the fields save() is responsible for (the driver prints every Meta field)"""
    m = j.get("meta")
    if m is not None:
        m = {k: m.get(k) for k in ("isdir", "size", "nfiles", "isexec", "md5")}
        m["isdir"] = bool(m["isdir"])
        m["isexec"] = bool(m["isexec"])
    h = j.get("hi")
    if h is not None:
        h = {"name": h.get("name"), "value": h.get("value")}
    return {"meta": m, "hi": h}


def check_save(ctx, n):
    """IndexSave.saveDirs ~ index.save(): every directory entry gets the identifier of the listing of the files below it
    (and that listing is what lands in the store under that name); then, for two saved indexes, the hash-only diff -
    shortcut included - reports exactly the file keys whose hashes differ"""
    from .stores import read_obj

    rng = ctx.rng
    for i in range(n):
        files = gen.rand_tree(rng, max_files=8, allow_odd=False)
        if not files:
            continue
        specs = save_specs(rng, files, rng.choice([0.3, 0.7, 1.0]))
        case = {"index_save": [ent_json(x) for x in specs]}
        ndirs = sum(1 for k, m, h in specs if m is not None and m.isdir)
        ctx.case(case, nontrivial=ndirs > 0)
        ctx.count("save: explicit_dirs=%d" % min(ndirs, 4))
        kind, got = safe_call(lambda: real_save(ctx, specs, files))
        ans = ctx.driver.ask({"op": "index_save", "index": case["index_save"]})
        if kind != "ok":
            ctx.corr("IndexSave.saveDirs~index.save()", case, {"err": got}, "ok" if "entries" in ans else ans)
            continue
        idx, store = got
        impl = sorted(([list(k), norm_entry(entry_json(e))] for k, e in idx.iteritems()), key=lambda x: x[0])
        model = sorted(([e["key"], norm_entry(e["entry"])] for e in ans.get("entries", [])), key=lambda x: x[0])
        ctx.corr("IndexSave.saveDirs~index.save()", case, impl, model)
        ctx.oracle(ans.get("idempotent") is True, case, {"why": "model: saving twice differs"})
        # the listing filed under each directory identifier is the listing of the files below the directory
        for t in ans.get("trees", []):
            e = idx[tuple(t["key"])]
            oid = e.hash_info.value if e.hash_info else None
            raw = safe_call(lambda: read_obj(store, oid).decode())[1] if oid else None
            ctx.corr("IndexSave.treeBelow~build_tree (object bytes)", case, raw, t["bytes"])
            ctx.oracle(oid is not None and raw is not None and md5hex(raw.encode()) + ".dir" == oid, case,
                       {"why": "save(): a directory entry's identifier is not the digest of the listing stored under it", "key": t["key"], "oid": oid})
        from .util import list_store

        have = set(list_store(store))
        want = set(ans.get("file_oids", [])) | {idx[tuple(t["key"])].hash_info.value for t in ans.get("trees", [])}
        ctx.corr("IndexSave.fileOids~save() (store contents)", case, sorted(have), sorted(want))
        # a second saved index derived from the first: hash-only diff, shortcut included, hides no file change
        files2 = dict(files)
        for k in list(files2):
            r = rng.random()
            if r < 0.2:
                files2[k] = files2[k] + b"?"
            elif r < 0.28:
                del files2[k]
        if rng.random() < 0.4:
            files2[(gen.rand_name(rng, gen.NAME_POOL[:7]) + "9",)] = b"fresh"
        by_key = {k: (m, h) for k, m, h in specs}
        specs2 = []
        for k, m, h in specs:
            if m is not None and m.isdir:
                if any(f[: len(k)] == k for f in files2):
                    # update(new, old) carries the old directory identifier over (equal metadata); save() must replace it
                    specs2.append((k, m, idx[k].hash_info if rng.random() < 0.5 else None))
            elif k in files2:
                from dvc_data.hashfile.hash_info import HashInfo

                specs2.append((k, m, None if h is None else HashInfo("md5", md5hex(files2[k]))))
        for k in files2:
            if k not in by_key:
                from dvc_data.hashfile.hash_info import HashInfo
                from dvc_data.hashfile.meta import Meta

                specs2.append((k, Meta(size=len(files2[k])), HashInfo("md5", md5hex(files2[k]))))
        kind2, got2 = safe_call(lambda: real_save(ctx, specs2, files2))
        if kind2 != "ok":
            continue
        idx2, _ = got2
        from dvc_data.index.diff import diff

        for with_unchanged in (False, True):
            ch = [(c.typ, c.key) for c in diff(idx, idx2, hash_only=True, with_unchanged=with_unchanged)]
            reported = {k for t, k in ch if t != "unchanged"}
            for k in set(files) | set(files2):
                eo = by_key.get(k)
                oh = truthy(eo[1]) if (eo and k in files) else None
                e2 = next(((m, h) for kk, m, h in specs2 if kk == k), None)
                nh = truthy(e2[1]) if e2 else None
                ctx.oracle((oh != nh) == (k in reported), case,
                           {"why": "hash-only diff of two saved indexes %s a file change" % ("hides" if oh != nh else "invents"),
                            "key": list(k), "with_unchanged": with_unchanged, "second": [ent_json(x) for x in specs2]})
        ctx.count("save: diffed pair")


# ------------------------------------------------------------------ diff(roots=[...]): the comparison restricted to sub-trees


def rand_roots(rng, old, new):
    """1-4 pairwise disjoint root keys (none a prefix of another): directories (explicit or implicit), files, keys that
    are a file on one side and a directory on the other, keys present on one side only, now and then a key on neither"""
    cands = sorted({tuple(k[:i]) for k, _, _ in list(old or []) + list(new or []) for i in range(1, len(k) + 1)})
    cands += [("no-such-dir",), ("no-such-dir", "deeper")]
    if cands[:-2] and rng.random() < 0.5:
        cands.append(rng.choice(cands[:-2]) + ("missing-below",))
    rng.shuffle(cands)
    r = rng.random()
    want = 1 if r < 0.12 else 2 if r < 0.6 else 3 if r < 0.85 else 4
    roots = []
    for c in cands:
        if len(roots) >= want:
            break
        if any(c[: len(x)] == x or x[: len(c)] == c for x in roots):
            continue
        roots.append(c)
    return roots


def check_roots(ctx, pairs):
    """diff(old, new, roots=R) for pairwise disjoint R is the diff of the two indexes restricted to the keys at or below a
    root: the property itself (every such key once, classified key by key, renames paired, nothing hidden) evaluated on what
    diff() reported, the diff of the restricted indexes as reference, self-diff and swap under the same roots.  Oracle only."""
    rng = ctx.rng
    for old, new, opts in pairs:
        if not old and not new:
            continue
        roots = rand_roots(rng, old, new)

        def below(k, roots=roots):
            return any(tuple(k[: len(r)]) == r for r in roots)

        ropts = dict(opts, roots=[list(r) for r in roots])
        old_r = None if old is None else [x for x in old if below(x[0])]
        new_r = None if new is None else [x for x in new if below(x[0])]
        case = {"diff_roots": [list(r) for r in roots], "old": None if old is None else [ent_json(s) for s in old],
                "new": None if new is None else [ent_json(s) for s in new], "opts": opts}
        ctx.case(case, nontrivial=bool(old_r) and bool(new_r) and len(roots) > 1)
        ctx.count("roots: %d disjoint roots" % len(roots))
        if sum(1 for r in roots if any(tuple(k[: len(r)]) == r for k, _, _ in list(old_r or []) + list(new_r or []))) > 1:
            ctx.count("roots: at least two roots with entries at or below them")
        impl = run_diff(old, new, ropts)
        if isinstance(impl, dict):
            ctx.oracle(False, case, {"why": "diff(roots=...) raised", "impl": impl})
            continue
        # nothing outside the roots is reported
        for t, ok, nk in impl:
            ctx.oracle(all(below(k) for k in (ok, nk) if k is not None), case,
                       {"why": "diff(roots=...) reports a key that is not at or below any root", "change": [t, ok, nk]})
        # the property on the restricted indexes: once each, correctly classified, renames paired, nothing hidden
        oracle_pair(ctx, case, old_r, new_r, ropts, impl)
        # ... and the multiset of changes is that of diffing the restricted indexes from the top
        exp = run_diff(old_r, new_r, opts)
        ctx.oracle(impl == exp, case, {"why": "diff(roots=R) differs from the diff of the indexes restricted to the keys at or below R",
                                       "roots_only": [x for x in impl if x not in exp][:6] if not isinstance(exp, dict) else exp,
                                       "restricted_only": [x for x in exp if x not in impl][:6] if not isinstance(exp, dict) else None,
                                       "counts": [len(impl), len(exp) if not isinstance(exp, dict) else None]})
        self_and_swap(ctx, case, old, new, ropts, impl)


def run(ctx):
    ctx.rule = (
        "exhaustive _diff_entry table (26 entry shapes per side x 8 option combinations); pairs of well-formed indexes derived from "
        "one another (modify/delete/add, file<->directory kind changes at any depth, implicit or explicit directory entries with "
        "consistent hashes, missing hash/meta, one side None or empty) x random option combinations; rename workloads with duplicate "
        "hashes; the same pairs behind filtered views (filter on the first key part, accepting or rejecting the root key) against the diff of the restricted indexes; index.save() on generated indexes against IndexSave.saveDirs (entries, stored listing bytes) and the hash-only diff of two saved indexes against the flat comparison of their file hashes; comparison keys that map a real Meta to None when it lacks a field (push's _meta_checksum for etag/checksum/md5, `lambda m: m.size` / `.version_id`): exhaustive _diff_entry table and derived index pairs whose file metadata carry, lack or disagree on those fields (hashed and unhashed entries; meta-only, hash-only, hash+meta), against the key-by-key reference, with self-diff and swap; diff(roots=R) with 1-4 pairwise disjoint roots (directories, files, kind-changed, one-sided and absent keys) over the derived pairs and rename workloads x option combinations: every key at or below a root once and correctly classified, nothing outside the roots, equal to the diff of the restricted indexes, self-diff and swap. non-trivial = both sides non-empty; distinct = sha256 of the case"
    )
    ctx.assumptions = ["indexes are well-formed: every proper prefix of an entry key is absent or a directory entry",
                       "directory hashes are consistent with their children (for the unchanged-subtree shortcut)"]
    table(ctx)
    n = ctx.n(700, 9000)
    pairs = [rand_pair(ctx.rng) + (rand_opts(ctx.rng),) for _ in range(n)]
    pairs += [rename_workload(ctx.rng) for _ in range(ctx.n(200, 2500))]
    check_pairs(ctx, pairs)
    check_views(ctx, pairs[: ctx.n(250, 3000)])
    check_save(ctx, ctx.n(60, 800))
    proj_table(ctx)
    check_projected(ctx, ctx.n(300, 4000))
    m = ctx.n(260, 3000)
    check_roots(ctx, pairs[:m] + pairs[n: n + ctx.n(60, 700)])


def search(ctx):
    pairs = [rand_pair(ctx.rng) + (rand_opts(ctx.rng),) for _ in range(8000)]
    pairs += [rename_workload(ctx.rng) for _ in range(2000)]
    check_pairs(ctx, pairs)


def replay(ctx, payload):
    run(ctx)
