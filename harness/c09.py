"""C09 — index checkout converges to the target from any workspace state (index/checkout.py)."""
import os
import stat

from . import gen, stores
from .util import md5hex, safe_call, write_file


def gen_case(rng):
    prior = gen.rand_tree(rng, max_files=6, allow_odd=False)
    target = dict(prior)
    # derive the target: modify / delete / add / kind changes at any depth
    for k in list(prior):
        if k not in target or any(kk != k and kk[: len(k)] == k for kk in target):
            continue
        r = rng.random()
        if r < 0.25:
            target[k] = prior[k] + b"*"
        elif r < 0.4:
            del target[k]
        elif r < 0.5:
            del target[k]  # file -> (nested) directory
            target[k + ("in",)] = b"inner"
            if rng.random() < 0.5:
                target[k + ("deep", "x")] = prior[k]
        elif r < 0.6 and len(k) > 1:
            for kk in list(target):  # directory -> file
                if kk[: len(k) - 1] == k[:-1]:
                    del target[kk]
            if not any(k[:i] in target for i in range(1, len(k) - 1)):
                target[k[:-1]] = b"now-a-file"
    for _ in range(rng.randrange(0, 3)):
        k = tuple(rng.choice(["n", "sub", "d"]) for _ in range(rng.randrange(0, 2))) + ("new%d" % rng.randrange(3),)
        if k not in target and not any(kk[: len(k)] == k or k[: len(kk)] == kk for kk in target):
            target[k] = rng.choice([b"fresh", b""] + list(prior.values()))
    if not target:
        target[("only",)] = b"x"
    exec_prior = [list(k) for k in prior if rng.random() < 0.2]
    exec_target = [list(k) for k in target if rng.random() < 0.25]
    empty_dirs = [["emptydir"]] if rng.random() < 0.2 else []
    lazy = None
    tops = sorted({k[0] for k in target if len(k) > 1})
    if tops and rng.random() < 0.35:
        lazy = rng.choice(tops)  # this top-level directory is given as an unloaded directory object
    missing = [md5hex(c) for k, c in target.items() if rng.random() < 0.12 and (lazy is None or k[0] != lazy)]
    return {
        "prior": {"/".join(k): v.decode("latin1") for k, v in prior.items()},
        "target": {"/".join(k): v.decode("latin1") for k, v in target.items()},
        "exec_prior": exec_prior, "exec_target": [k for k in exec_target if lazy is None or k[0] != lazy],
        "empty_dirs": empty_dirs, "explicit_dirs": rng.random() < 0.6, "lazy": lazy, "missing": missing,
        "lazy_missing": lazy is not None and rng.random() < 0.3,
        "delete": rng.random() < 0.7, "link": rng.choice(["copy", "copy", "hardlink", "symlink"]),
        "local": rng.random() < 0.5,
        # some target files have a cache storage of their own, registered at the file's key and backed by another store
        # (how one storage per output is registered): their objects are only there
        "own_storage": sorted("/".join(k) for k in target if (lazy is None or k[0] != lazy) and rng.random() < 0.25) if rng.random() < 0.4 else [],
    }


def split(d):
    return {tuple(k.split("/")): v.encode("latin1") for k, v in d.items()}


def walk_ws(root):
    nodes = {}
    for r, ds, fs in os.walk(root):
        for d in ds:
            p = os.path.join(r, d)
            if os.path.islink(p):
                continue
            nodes[os.path.relpath(p, root)] = ["dir"]
        for f in fs:
            p = os.path.join(r, f)
            if f.startswith(".") and f.endswith(".tmp"):
                continue  # temp leftover of a failed put_file in dvc_objects (not part of the comparison)
            try:
                with open(p, "rb") as fh:
                    b = fh.read()
                nodes[os.path.relpath(p, root)] = ["file", md5hex(b), bool(os.stat(p).st_mode & stat.S_IXUSR)]
            except OSError as e:
                nodes[os.path.relpath(p, root)] = ["broken", type(e).__name__]
    return dict(sorted(nodes.items()))


def target_entries(case):
    """the target index as (key, meta json, hash json, loaded) — expanded form for the model"""
    tgt = split(case["target"])
    ex = {tuple(k) for k in case["exec_target"]}
    ents = []
    dirs = sorted({k[:i] for k in tgt for i in range(1, len(k))})
    lazy = case["lazy"]
    for d in dirs:
        if lazy is not None and d[0] == lazy:
            if len(d) > 1:
                ents.append((d, {"isdir": True}, None, True))
            continue
        if case["explicit_dirs"]:
            ents.append((d, {"isdir": True}, None, True))
    for k, c in tgt.items():
        h = md5hex(c)
        if lazy is not None and k[0] == lazy:
            ents.append((k, {"md5": h}, {"name": "md5", "value": h}, None))
        else:
            ents.append((k, {"isexec": k in ex}, {"name": "md5", "value": h}, None))
    if lazy is not None:
        sub = {k[1:]: md5hex(c) for k, c in tgt.items() if k[0] == lazy}
        ents.append(((lazy,), {"isdir": True}, {"name": "md5", "value": gen.canonical_oid(sub)}, True))
    return ents


def build_target(case, odb, odb2=None):
    from dvc_data.hashfile.hash_info import HashInfo
    from dvc_data.hashfile.meta import Meta
    from dvc_data.index.index import DataIndex, DataIndexEntry, ObjectStorage

    tgt = split(case["target"])
    ex = {tuple(k) for k in case["exec_target"]}
    idx = DataIndex()
    idx.storage_map.add_cache(ObjectStorage((), odb))
    for k in case.get("own_storage", []) if odb2 is not None else []:
        idx.storage_map.add_cache(ObjectStorage(tuple(k.split("/")), odb2))
    lazy = case["lazy"]
    dirs = sorted({k[:i] for k in tgt for i in range(1, len(k))})
    for d in dirs:
        if lazy is not None and d[0] == lazy:
            continue
        if case["explicit_dirs"]:
            idx[d] = DataIndexEntry(key=d, meta=Meta(isdir=True), loaded=True)
    for k, c in tgt.items():
        if lazy is not None and k[0] == lazy:
            continue
        idx[k] = DataIndexEntry(key=k, meta=Meta(isexec=k in ex), hash_info=HashInfo("md5", md5hex(c)))
    if lazy is not None:
        sub = {k[1:]: md5hex(c) for k, c in tgt.items() if k[0] == lazy}
        idx[(lazy,)] = DataIndexEntry(key=(lazy,), meta=Meta(isdir=True), hash_info=HashInfo("md5", gen.canonical_oid(sub)))
    return idx


def run_impl(ctx, case):
    from dvc_data.index import build
    from dvc_data.index.checkout import apply, compare
    from dvc_data.index.save import md5

    fs = stores.fs_local()
    root = ctx.mkdtemp()
    ws = os.path.join(root, "ws")
    prior, tgt = split(case["prior"]), split(case["target"])
    gen.materialize(ws, prior, exec_keys={tuple(k) for k in case["exec_prior"]})
    for d in case["empty_dirs"]:
        os.makedirs(os.path.join(ws, *d), exist_ok=True)
    odb = stores.make_odb(os.path.join(root, "odb"), local=case["local"], type=[case["link"]])
    odb2 = stores.make_odb(os.path.join(root, "odb2"), local=case["local"], type=[case["link"]])
    own = {tuple(k.split("/")) for k in case.get("own_storage", [])}
    for k, c in tgt.items():
        h = md5hex(c)
        if h not in case["missing"]:
            # each object only in the store its entry's storage names
            stores.put_raw(odb2.path if k in own else odb.path, h, c)
    if case["lazy"] is not None and not case.get("lazy_missing"):
        sub = {k[1:]: md5hex(c) for k, c in tgt.items() if k[0] == case["lazy"]}
        stores.put_raw(odb.path, gen.canonical_oid(sub), gen.canonical_listing(sub))
    before = walk_ws(ws)
    errors = []

    def onerror(src, dest, exc):
        errors.append(os.path.relpath(dest, ws) if dest else None)

    def f():
        old = md5(build(ws, fs))
        new = build_target(case, odb, odb2)
        diff = compare(old, new, delete=case["delete"])
        acts = {n: sorted("/".join(e.key) for e in getattr(diff, n)) for n in ("files_delete", "dirs_delete", "files_create", "dirs_create", "files_chmod")}
        apply(diff, ws, fs, update_meta=False, onerror=onerror, links=[case["link"]] if case["link"] != "copy" else None)
        return acts

    kind, acts = safe_call(f)
    after = walk_ws(ws)

    def g():
        old2 = md5(build(ws, fs))
        new2 = build_target(case, odb, odb2)
        d2 = compare(old2, new2, delete=case["delete"])
        return {n: sorted("/".join(e.key) for e in getattr(d2, n)) for n in ("files_delete", "dirs_delete", "files_create", "dirs_create", "files_chmod")}

    k2, second = safe_call(g)
    return {"outcome": "ok" if kind == "ok" else acts, "actions": acts if kind == "ok" else None, "ws": after,
            "errors": sorted(set(e for e in errors if e)), "second": second if k2 == "ok" else {"err": second}}, before


def model_req(case, before):
    nodes = []
    for p, n in before.items():
        key = p.split("/")
        if n[0] == "dir":
            nodes.append({"key": key})
        elif n[0] == "file":
            nodes.append({"key": key, "oid": n[1], "exec": n[2]})
    tgt = split(case["target"])
    cache = sorted({md5hex(c) for c in tgt.values()} - set(case["missing"]))
    new = [{"key": list(k), "meta": m, "hi": h, "loaded": l} for k, m, h, l in target_entries(case)]
    return {"op": "idx_checkout", "ws": nodes, "new": new, "cache": cache, "delete": case["delete"]}


def canon_model(ans):
    if "crash" in ans:
        return {"outcome": "crash"}
    ws = {}
    for n in ans["ws"]:
        ws["/".join(n["key"])] = ["file", n["oid"], n["exec"]] if "oid" in n else ["dir"]
    j = lambda a: {k: sorted("/".join(x) for x in v) for k, v in a.items()}  # noqa: E731
    return {"outcome": "ok", "actions": j(ans["actions"]), "ws": dict(sorted(ws.items())),
            "errors": sorted("/".join(k) for k in ans["errors"]), "second": j(ans["second"])}


def reported(p, errors):
    """the path itself, or a directory above it, went through the error callback"""
    parts = p.split("/")
    return any("/".join(parts[:i]) in errors for i in range(1, len(parts) + 1))


def state_oracle(ctx, case, impl, before, prior, unavailable, where=None):
    """the property on one observed compare+apply: `before`/`impl["ws"]` = workspace walk before/after, `prior` = file keys that were in
    the workspace, `unavailable` = target paths whose source (object, or the directory object above them) is not in the storage now"""
    tgt = split(case["target"])
    w = {} if where is None else {"where": where}
    if impl["outcome"] != "ok":
        # without deletion a file in the way of a target directory is a refusal, not a convergence failure
        blocked = not case["delete"] and any(tuple(p.split("/")) in prior for k in tgt for p in ["/".join(k[:i]) for i in range(1, len(k))])
        ctx.oracle(blocked, case, {"why": "apply raised", "impl": impl["outcome"], **w})
        return False
    ws = impl["ws"]
    ex = {"/".join(k) for k in case["exec_target"]}
    for k, c in tgt.items():
        p = "/".join(k)
        blocked = not case["delete"] and (any("/".join(k[:i]) in {"/".join(q) for q in prior} for i in range(1, len(k)))
                                           or any(q[: len(k)] == k and q != k for q in prior))
        if blocked:
            continue  # without deletion a kind change cannot be carried out: nothing outside the target may be removed
        if p in unavailable:
            ctx.oracle(reported(p, impl["errors"]) or (p in ws and ws[p][:2] == ["file", md5hex(c)]), case,
                       {"why": "an entry whose source is unavailable was silently skipped", "path": p, "errors": impl["errors"], "got": ws.get(p), **w},
                       signature="symlink-to-unavailable-source-not-reported" if case["link"] == "symlink" and ws.get(p, [None])[0] == "broken" else None)
            continue
        ctx.oracle(p in ws and ws[p][:2] == ["file", md5hex(c)], case, {"why": "a target file is missing or has the wrong bytes", "path": p, "got": ws.get(p), **w})
        if p in ex and p in ws:
            ctx.oracle(ws[p][0] == "file" and ws[p][2] is True, case, {"why": "an executable entry is not executable", "path": p, **w})
    for k in tgt:
        for i in range(1, len(k)):
            d = "/".join(k[:i])
            if "/".join(k) not in unavailable and case["delete"]:
                ctx.oracle(ws.get(d) == ["dir"], case, {"why": "a target directory was not created", "dir": d, **w})
    tgt_paths = {"/".join(k) for k in tgt} | {"/".join(k[:i]) for k in tgt for i in range(1, len(k))}
    if case["delete"]:
        extra = [p for p in ws if p not in tgt_paths]
        ctx.oracle(not extra, case, {"why": "paths outside the target remain after a checkout with deletion", "extra": extra, **w})
        if not unavailable:
            for name in ("second", "second_fresh"):
                if name not in impl:
                    continue
                sec = impl[name]
                ctx.oracle(isinstance(sec, dict) and "err" not in sec and not any(sec[n] for n in ("files_delete", "dirs_delete", "files_create", "dirs_create")),
                           case, {"why": "a second compare still finds something to create or delete", name: sec, **w})
    else:
        for p, n in before.items():
            if p not in tgt_paths and not any(p.startswith(t + "/") for t in {"/".join(k) for k in tgt}):
                ctx.oracle(ws.get(p) == n, case, {"why": "without deletion a path outside the target was removed or changed", "path": p, "before": n, "after": ws.get(p), **w})
    return True


def check(ctx, case, ans=None):
    impl, before = run_impl(ctx, case)
    if ans is None:
        ans = ctx.driver.ask(model_req(case, before))
    prior, tgt = split(case["prior"]), split(case["target"])
    kindchg = any(any(k2[: len(k)] == k and k2 != k for k2 in tgt) for k in prior) or any(any(k2[: len(k)] == k and k2 != k for k2 in prior) for k in tgt)
    ctx.case(case, nontrivial=bool(prior) and kindchg)
    ctx.count("delete=%s" % case["delete"])
    ctx.count("link=%s" % case["link"])
    ctx.count("lazy_dir=%s" % (case["lazy"] is not None))
    ctx.count("kind_change=%s" % kindchg)
    ctx.count("unavailable=%d" % min(len(case["missing"]), 2))
    ctx.count("own_storage=%d" % min(len(case.get("own_storage", [])), 2))
    if case.get("lazy_missing"):
        # the directory object of the target cannot be loaded: it must be reported, never silently skipped
        ctx.count("unloadable_dir_object")
        ctx.oracle(impl["outcome"] == "ok" and case["lazy"] in impl["errors"], case,
                   {"why": "a directory whose object is unavailable was not reported through the error callback",
                    "dir": case["lazy"], "errors": impl["errors"], "outcome": impl["outcome"]})
        return
    if case["link"] == "copy":
        ctx.corr("IndexCheckout.apply∘compare~apply(compare())", case, impl, canon_model(ans))
    else:
        m = canon_model(ans)
        ctx.corr("IndexCheckout.compare~compare() (actions)", case, impl.get("actions"), m.get("actions"))
    # ---- oracle on the implementation
    unavailable = {"/".join(k) for k, c in tgt.items() if md5hex(c) in case["missing"]}
    if not state_oracle(ctx, case, impl, before, set(prior), unavailable):
        return
    if len(ctx.samples) < 2 and kindchg:
        ctx.sample({"case": {k: case[k] for k in ("prior", "target", "delete", "link", "lazy")}, "actions": impl["actions"]})


# ---------------------------------------------------------------- histories: several checkouts towards one target index
#
# A checkout is rarely the only one: the objects of a target arrive over time (a fetch between two checkouts), the workspace is
# edited in between, and the caller keeps the target index object (with the non-raising error hook DVC installs on it) or builds a
# new one.  Every round of such a history is a (workspace state, target index, storage) triple of the property: what is unavailable
# *now* has to be reported *now*, what is available has to be there afterwards, and once everything has arrived the workspace is the target.


def gen_history(rng):
    while True:
        case = gen_case(rng)
        tgt = split(case["target"])
        tops = sorted({k[0] for k in tgt if len(k) > 1})
        if tops:
            break
    prior = split(case["prior"])
    lazy = case["lazy"] if case["lazy"] is not None else rng.choice(tops)
    kindchg = any(any(k2[: len(k)] == k and k2 != k for k2 in tgt) for k in prior) or any(any(k2[: len(k)] == k and k2 != k for k2 in prior) for k in tgt)
    case["lazy"] = lazy
    case["exec_target"] = [k for k in case["exec_target"] if k[0] != lazy]
    case["own_storage"] = []
    if kindchg or case["empty_dirs"]:
        case["delete"] = True  # (without deletion a kind change is refused: the single-checkout family has those)
    case["link"] = rng.choice(["copy", "copy", "hardlink", "symlink"])
    hashes = sorted({md5hex(c) for c in tgt.values()})
    # a dangling link cannot be staged again (C10's finding), so with symlinks only the directory object is late
    case["missing"] = [h for h in hashes if rng.random() < 0.25] if case["link"] != "symlink" else []
    case["lazy_missing"] = rng.random() < 0.75
    case["reuse"] = rng.random() < 0.75  # the same target index object in every round / a new one per round
    case["index_onerror"] = "collect" if rng.random() < 0.7 else "default"  # non-raising hook on the index (as DVC sets) / the raising default
    paths = sorted(case["target"])
    dirs = sorted({"/".join(k[:i]) for k in tgt for i in range(1, len(k))})
    left, dir_left = list(case["missing"]), case["lazy_missing"]
    rounds = []
    n = rng.randrange(2, 5)
    for i in range(n):
        arrive, arrive_dir, perturb = [], False, []
        if i > 0:
            last = i == n - 1 and rng.random() < 0.6
            arrive = [h for h in left if last or rng.random() < 0.4]
            left = [h for h in left if h not in arrive]
            arrive_dir = dir_left and (last or rng.random() < 0.4)
            dir_left = dir_left and not arrive_dir
            for _ in range(rng.randrange(0, 3)):
                r = rng.random()
                if r < 0.4:
                    perturb.append(["rm", rng.choice(paths)])
                elif r < 0.75:
                    perturb.append(["write", rng.choice(paths), "~edited%d" % rng.randrange(100)])
                else:
                    perturb.append(["write", "/".join(([rng.choice(dirs)] if rng.random() < 0.5 else []) + ["stray%d" % rng.randrange(3)]), "stray"])
        rounds.append({"arrive": arrive, "arrive_dir": bool(arrive_dir), "perturb": perturb})
    case["rounds"] = rounds
    return case


def perturb_ws(ws, ops):
    for op in ops:
        p = os.path.join(ws, *op[1].split("/"))
        try:
            if os.path.islink(p) or os.path.isfile(p):
                os.unlink(p)  # never write through a link into the cache
            if op[0] == "write" and not os.path.isdir(p):
                write_file(p, op[2].encode("latin1"))
        except OSError:
            pass  # something that is not a directory is in the way: the edit does not happen


def run_history(ctx, case):
    from dvc_data.index import build
    from dvc_data.index.checkout import apply, compare
    from dvc_data.index.save import md5

    names = ("files_delete", "dirs_delete", "files_create", "dirs_create", "files_chmod")
    fs = stores.fs_local()
    root = ctx.mkdtemp()
    ws = os.path.join(root, "ws")
    tgt, lazy = split(case["target"]), case["lazy"]
    gen.materialize(ws, split(case["prior"]), exec_keys={tuple(k) for k in case["exec_prior"]})
    for d in case["empty_dirs"]:
        os.makedirs(os.path.join(ws, *d), exist_ok=True)
    odb = stores.make_odb(os.path.join(root, "odb"), local=case["local"], type=[case["link"]])
    contents = {md5hex(c): c for c in tgt.values()}
    have = set(contents) - set(case["missing"])
    for h in sorted(have):
        stores.put_raw(odb.path, h, contents[h])
    sub = {k[1:]: md5hex(c) for k, c in tgt.items() if k[0] == lazy}
    dir_have = not case["lazy_missing"]
    if dir_have:
        stores.put_raw(odb.path, gen.canonical_oid(sub), gen.canonical_listing(sub))
    index_errors = []

    def make_index():
        idx = build_target(case, odb)
        if case["index_onerror"] == "collect":
            idx.onerror = lambda entry, exc: index_errors.append("/".join(entry.key))
        return idx

    def actions(diff):
        return {n: sorted("/".join(e.key) for e in getattr(diff, n)) for n in names}

    shared = make_index() if case["reuse"] else None
    out = []
    for rnd in case["rounds"]:
        for h in rnd["arrive"]:
            stores.put_raw(odb.path, h, contents[h])
            have.add(h)
        if rnd["arrive_dir"]:
            stores.put_raw(odb.path, gen.canonical_oid(sub), gen.canonical_listing(sub))
            dir_have = True
        perturb_ws(ws, rnd["perturb"])
        before = walk_ws(ws)
        new = shared if shared is not None else make_index()
        errors = []
        del index_errors[:]

        def onerror(src, dest, exc):
            errors.append(os.path.relpath(dest, ws) if dest else None)

        def f():
            diff = compare(md5(build(ws, fs)), new, delete=case["delete"])
            acts = actions(diff)
            apply(diff, ws, fs, update_meta=False, onerror=onerror, links=[case["link"]] if case["link"] != "copy" else None)
            return acts

        kind, acts = safe_call(f)
        after = walk_ws(ws)
        k2, second = safe_call(lambda: actions(compare(md5(build(ws, fs)), new, delete=case["delete"])))
        k3, fresh = safe_call(lambda: actions(compare(md5(build(ws, fs)), make_index(), delete=case["delete"])))
        unavailable = {"/".join(k) for k, c in tgt.items() if md5hex(c) not in have or (k[0] == lazy and not dir_have)}
        out.append(({"outcome": "ok" if kind == "ok" else acts, "actions": acts if kind == "ok" else None, "ws": after,
                     "errors": sorted(set(e for e in errors if e)), "index_errors": sorted(set(index_errors)),
                     "second": second if k2 == "ok" else {"err": second}, "second_fresh": fresh if k3 == "ok" else {"err": fresh}},
                    before, unavailable, dir_have))
    return out


def check_history(ctx, case):
    obs = run_history(ctx, case)
    late = bool(case["missing"]) or case["lazy_missing"]
    ctx.case(case, nontrivial=late)
    ctx.count("history")
    ctx.count("history rounds=%d" % len(case["rounds"]))
    ctx.count("history same_index_object=%s" % case["reuse"])
    ctx.count("history index_onerror=%s" % case["index_onerror"])
    ctx.count("history link=%s delete=%s" % (case["link"], case["delete"]))
    if case["lazy_missing"]:
        ctx.count("history dir_object_late" + (" arrives" if any(r["arrive_dir"] for r in case["rounds"]) else " never arrives"))
    if any(r["perturb"] for r in case["rounds"]):
        ctx.count("history workspace_edited_between")
    if obs and not obs[-1][2]:
        ctx.count("history ends_with_everything_available")
    for i, (impl, before, unavailable, dir_have) in enumerate(obs):
        where = {"round": i, "of": len(obs), "same_index_object": case["reuse"], "unavailable_now": sorted(unavailable)}
        prior = {tuple(p.split("/")) for p, n in before.items() if n[0] != "dir"}
        if not dir_have:
            # the directory object cannot be loaded in this round: reported in this round, whatever earlier rounds reported
            ctx.oracle(impl["outcome"] == "ok" and case["lazy"] in impl["errors"], case,
                       {"why": "a directory whose object is unavailable was not reported through the error callback",
                        "dir": case["lazy"], "errors": impl["errors"], "outcome": impl["outcome"], "actions": impl["actions"], **where})
        if not state_oracle(ctx, case, impl, before, prior, unavailable, where=where):
            continue
        if not unavailable:
            ctx.oracle(not impl["errors"], case, {"why": "the error callback was called although all of the target's data is available",
                                                   "errors": impl["errors"], "index_errors": impl["index_errors"], **where})
    if len(ctx.samples) < 3 and late and case["reuse"]:
        ctx.sample({"history": {k: case[k] for k in ("target", "lazy", "missing", "lazy_missing", "index_onerror", "rounds")},
                    "errors_per_round": [o[0]["errors"] for o in obs]})


def run_histories(ctx, n):
    for _ in range(n):
        check_history(ctx, gen_history(ctx.rng))


# ---------------------------------------------------------------- snapshots: both indexes carry a hash per directory
#
# The way a caller of compare() records a workspace is a configuration of the property too.  DVC snapshots the workspace with the
# file hashes *and* a tree hash on every directory (what save() / build_tree record), and its targets are saved indexes whose
# directories carry tree hashes as well - so a directory of the workspace can be "equal" to the target's as far as the hash goes.
# A tree hash covers names and bytes only: an executable bit that was dropped, or an empty directory that was left behind, below
# such a directory still has to be found.  The family checks a workspace out, lets it drift (quiet drifts that leave every byte
# alone - exec bits, empty directories at any depth -, or edits / removals / strays / a file turned into a directory) and checks
# it out again, several times, towards one saved target.


def gen_snapshots(rng):
    while True:
        case = gen_case(rng)
        tgt = split(case["target"])
        if any(len(k) > 1 for k in tgt):
            break
    prior = split(case["prior"])
    kindchg = any(any(k2[: len(k)] == k and k2 != k for k2 in tgt) for k in prior) or any(any(k2[: len(k)] == k and k2 != k for k2 in prior) for k in tgt)
    case.update({"lazy": None, "lazy_missing": False, "missing": [], "own_storage": []})
    if rng.random() < 0.3:
        case.update({"prior": {}, "exec_prior": [], "empty_dirs": []})  # the first checkout starts from nothing
        kindchg = False
    case["delete"] = True if (kindchg or case["empty_dirs"]) else rng.random() < 0.8
    nested = sorted(k for k in tgt if len(k) > 1)
    ex = {tuple(k) for k in case["exec_target"]} | {k for k in nested if rng.random() < 0.5}
    case["exec_target"] = sorted(list(k) for k in ex)
    # how the two sides are recorded: tree hashes on the workspace's directories or file hashes only (md5(build(ws)));
    # the target saved to the store from a pristine tree (directories with tree hashes) or assembled entry by entry
    case["snapshot"] = {"ws_tree_hashes": rng.random() < 0.85, "target_saved": rng.random() < 0.85}
    files = sorted(case["target"])
    dirs = sorted({"/".join(k[:i]) for k in tgt for i in range(1, len(k))})
    execs = sorted("/".join(k) for k in ex)
    rounds = [{"drift": []}]
    for _ in range(rng.randrange(1, 4)):
        quiet = rng.random() < 0.6  # no byte of any file changes
        ops = []
        for _ in range(rng.randrange(1, 4)):
            r = rng.random()
            if r < 0.35 and execs:
                ops.append(["noexec", rng.choice(execs)])
            elif r < 0.45:
                ops.append(["exec", rng.choice(files)])
            elif r < 0.8 or quiet:
                where = [rng.choice(dirs)] if rng.random() < 0.8 else []
                ops.append(["mkdir", "/".join(where + ["left%d" % rng.randrange(2)] + (["over"] if rng.random() < 0.3 else []))])
            elif r < 0.86:
                ops.append(["rm", rng.choice(files)])
            elif r < 0.92:
                ops.append(["write", rng.choice(files), "~edited%d" % rng.randrange(100)])
            elif r < 0.96 or not case["delete"]:
                ops.append(["write", "/".join([rng.choice(dirs)] + ["stray%d" % rng.randrange(3)]), "stray"])
            else:
                ops.append(["todir", rng.choice(files)])  # a file becomes a directory with an empty directory inside
        rounds.append({"drift": ops})
    case["rounds"] = rounds
    return case


def drift_ws(ws, ops):
    for op in ops:
        p = os.path.join(ws, *op[1].split("/"))
        try:
            if op[0] in ("noexec", "exec"):
                if os.path.isfile(p) and not os.path.islink(p) and os.stat(p).st_nlink == 1:  # (never through a link into the cache)
                    m = os.stat(p).st_mode
                    os.chmod(p, (m | 0o100) if op[0] == "exec" else (m & ~0o111))
            elif op[0] == "mkdir":
                os.makedirs(p, exist_ok=True)
            elif op[0] == "todir":
                if os.path.islink(p) or os.path.isfile(p):
                    os.unlink(p)
                os.makedirs(os.path.join(p, "nested"), exist_ok=True)
            else:
                perturb_ws(ws, [op])
        except OSError:
            pass  # something that is not a directory is in the way: the drift does not happen


def ws_snapshot(ws, fs, tree_hashes):
    """the workspace as an index: hashed files and, with `tree_hashes`, what save() records for every directory"""
    from dvc_data.index import build
    from dvc_data.index.save import build_tree, md5

    idx = md5(build(ws, fs))
    if tree_hashes:
        for key in sorted((k for k, e in idx.iteritems() if e.meta and e.meta.isdir), key=len, reverse=True):
            idx[key].meta, tree = build_tree(idx, key)
            idx[key].hash_info = tree.hash_info
    return idx


def saved_target(case, root, fs, odb):
    """the target the way a tracked tree becomes one: built from a pristine copy, hashed, saved to the store (tree hashes on directories)"""
    import shutil

    from dvc_data.index import ObjectStorage, build
    from dvc_data.index.save import md5, save

    src = os.path.join(root, "pristine")
    gen.materialize(src, split(case["target"]), exec_keys={tuple(k) for k in case["exec_target"]})
    idx = md5(build(src, fs))
    save(idx, odb=odb)
    idx.storage_map.add_cache(ObjectStorage((), odb))
    shutil.rmtree(src)
    return idx


def run_snapshots(ctx, case):
    from dvc_data.index.checkout import apply, compare

    names = ("files_delete", "dirs_delete", "files_create", "dirs_create", "files_chmod")
    fs = stores.fs_local()
    root = ctx.mkdtemp()
    ws = os.path.join(root, "ws")
    tgt, snap = split(case["target"]), case["snapshot"]
    gen.materialize(ws, split(case["prior"]), exec_keys={tuple(k) for k in case["exec_prior"]})
    for d in case["empty_dirs"]:
        os.makedirs(os.path.join(ws, *d), exist_ok=True)
    odb = stores.make_odb(os.path.join(root, "odb"), local=case["local"], type=[case["link"]])
    if snap["target_saved"]:
        new = saved_target(case, root, fs, odb)
    else:
        for c in tgt.values():
            stores.put_raw(odb.path, md5hex(c), c)
        new = build_target(case, odb)

    def actions(diff):
        return {n: sorted("/".join(e.key) for e in getattr(diff, n)) for n in names}

    out = []
    for rnd in case["rounds"]:
        drift_ws(ws, rnd["drift"])
        before = walk_ws(ws)
        errors = []

        def onerror(src, dest, exc):
            errors.append(os.path.relpath(dest, ws) if dest else None)

        def f():
            diff = compare(ws_snapshot(ws, fs, snap["ws_tree_hashes"]), new, delete=case["delete"])
            acts = actions(diff)
            apply(diff, ws, fs, update_meta=False, onerror=onerror, links=[case["link"]] if case["link"] != "copy" else None)
            return acts

        kind, acts = safe_call(f)
        after = walk_ws(ws)
        k2, second = safe_call(lambda: actions(compare(ws_snapshot(ws, fs, snap["ws_tree_hashes"]), new, delete=case["delete"])))
        out.append(({"outcome": "ok" if kind == "ok" else acts, "actions": acts if kind == "ok" else None, "ws": after,
                     "errors": sorted(set(e for e in errors if e)), "second": second if k2 == "ok" else {"err": second}}, before))
    return out


def check_snapshots(ctx, case):
    obs = run_snapshots(ctx, case)
    snap = case["snapshot"]
    ops = {op[0] for r in case["rounds"] for op in r["drift"]}
    ctx.case(case, nontrivial=snap["ws_tree_hashes"] and snap["target_saved"] and bool(ops & {"noexec", "mkdir"}))
    ctx.count("snapshots")
    ctx.count("snapshots ws_tree_hashes=%s target_saved=%s" % (snap["ws_tree_hashes"], snap["target_saved"]))
    ctx.count("snapshots link=%s delete=%s" % (case["link"], case["delete"]))
    for o in sorted(ops):
        ctx.count("snapshots drift=%s" % o)
    if any(r["drift"] and all(op[0] in ("noexec", "exec", "mkdir") for op in r["drift"]) for r in case["rounds"]):
        ctx.count("snapshots round_with_no_byte_changed")
    for i, (impl, before) in enumerate(obs):
        where = {"round": i, "of": len(obs), "drift": case["rounds"][i]["drift"], "snapshot": snap, "actions": impl["actions"]}
        prior = {tuple(p.split("/")) for p, n in before.items() if n[0] != "dir"}
        if not case["delete"] and any(before.get("/".join(k), ["file"])[0] != "file" for k in split(case["target"])):
            continue  # (not generated: a directory in the way of a target file cannot be replaced without deletion)
        if not state_oracle(ctx, case, impl, before, prior, set(), where=where):
            continue
        ctx.oracle(not impl["errors"], case, {"why": "the error callback was called although all of the target's data is available",
                                               "errors": impl["errors"], **where})


def run_snapshot_histories(ctx, n):
    for _ in range(n):
        check_snapshots(ctx, gen_snapshots(ctx.rng))


def run_cases(ctx, n):
    for _ in range(n):
        check(ctx, gen_case(ctx.rng))


def run(ctx):
    ctx.rule = (
        "(prior workspace, target index) pairs over nested trees: target derived from the prior by modify/delete/add and "
        "file<->(nested) directory replacements at depth 1-3, targets with explicit or implicit directory entries or one top-level "
        "directory given as an unloaded directory object, exec bits, empty directories in the workspace, unavailable cache objects, "
        "delete on/off, copy/hardlink/symlink, both store classes. non-trivial = a path changes kind; distinct = sha256 of the case. "
        "histories (oracle only): 2-4 compare+apply rounds towards one target with a lazily loaded directory, on the same target index object "
        "or a new one per round, with the raising default or a non-raising error hook on the index; file objects and the directory object "
        "missing at first and arriving between rounds (or never), workspace edits (remove / rewrite / stray file) between rounds; every round "
        "is judged against what is available in that round, with a second compare on the same and on a fresh index object. "
        "snapshots (oracle only): 2-4 compare+apply rounds towards one target where the workspace index carries a tree hash on every directory "
        "(as save()/DVC record directories; or file hashes only) and the target is an index saved to the store from a pristine tree (directories "
        "with tree hashes; or assembled entry by entry), the workspace drifting between rounds: rounds in which no byte changes (exec bit dropped "
        "or set, empty directories left at any depth) or edits / removals / stray files / a file turned into a directory; non-trivial = both sides "
        "carry tree hashes and a quiet drift happens"
    )
    ctx.assumptions = ["'old' is the hashed workspace index md5(build(ws)) as DVC builds it", "link types other than copy are compared on actions and on the oracle only"]
    run_cases(ctx, ctx.n(140, 1500))
    run_histories(ctx, ctx.n(60, 600))
    run_snapshot_histories(ctx, ctx.n(40, 400))


def search(ctx):
    run_cases(ctx, 1200)
    run_histories(ctx, 400)
    run_snapshot_histories(ctx, 300)


def replay(ctx, payload):
    c = payload.get("case") or payload.get("diverging_case")
    if "snapshot" in c:
        check_snapshots(ctx, c)
    elif "rounds" in c:
        check_history(ctx, c)
    else:
        check(ctx, c)
