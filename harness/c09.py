"""C09 — index checkout converges to the target from any workspace state (index/checkout.py)."""
import os
import stat

from . import gen, stores
from .util import md5hex, safe_call, write_file


def gen_case(rng):
    prior = gen.rand_tree(rng, max_files=6, allow_odd=False)
    target = dict(prior)
    # derive the target: modify / delete / add / kind changes at any depth
    for k in list(prior):
        if k not in target or any(kk != k and kk[: len(k)] == k for kk in target):
            continue
        r = rng.random()
        if r < 0.25:
            target[k] = prior[k] + b"*"
        elif r < 0.4:
            del target[k]
        elif r < 0.5:
            del target[k]  # file -> (nested) directory
            target[k + ("in",)] = b"inner"
            if rng.random() < 0.5:
                target[k + ("deep", "x")] = prior[k]
        elif r < 0.6 and len(k) > 1:
            for kk in list(target):  # directory -> file
                if kk[: len(k) - 1] == k[:-1]:
                    del target[kk]
            if not any(k[:i] in target for i in range(1, len(k) - 1)):
                target[k[:-1]] = b"now-a-file"
    for _ in range(rng.randrange(0, 3)):
        k = tuple(rng.choice(["n", "sub", "d"]) for _ in range(rng.randrange(0, 2))) + ("new%d" % rng.randrange(3),)
        if k not in target and not any(kk[: len(k)] == k or k[: len(kk)] == kk for kk in target):
            target[k] = rng.choice([b"fresh", b""] + list(prior.values()))
    if not target:
        target[("only",)] = b"x"
    exec_prior = [list(k) for k in prior if rng.random() < 0.2]
    exec_target = [list(k) for k in target if rng.random() < 0.25]
    empty_dirs = [["emptydir"]] if rng.random() < 0.2 else []
    lazy = None
    tops = sorted({k[0] for k in target if len(k) > 1})
    if tops and rng.random() < 0.35:
        lazy = rng.choice(tops)  # this top-level directory is given as an unloaded directory object
    missing = [md5hex(c) for k, c in target.items() if rng.random() < 0.12 and (lazy is None or k[0] != lazy)]
    return {
        "prior": {"/".join(k): v.decode("latin1") for k, v in prior.items()},
        "target": {"/".join(k): v.decode("latin1") for k, v in target.items()},
        "exec_prior": exec_prior, "exec_target": [k for k in exec_target if lazy is None or k[0] != lazy],
        "empty_dirs": empty_dirs, "explicit_dirs": rng.random() < 0.6, "lazy": lazy, "missing": missing,
        "lazy_missing": lazy is not None and rng.random() < 0.3,
        "delete": rng.random() < 0.7, "link": rng.choice(["copy", "copy", "hardlink", "symlink"]),
        "local": rng.random() < 0.5,
        # some target files have a cache storage of their own, registered at the file's key and backed by another store
        # (how one storage per output is registered): their objects are only there
        "own_storage": sorted("/".join(k) for k in target if (lazy is None or k[0] != lazy) and rng.random() < 0.25) if rng.random() < 0.4 else [],
    }


def split(d):
    return {tuple(k.split("/")): v.encode("latin1") for k, v in d.items()}


def walk_ws(root):
    nodes = {}
    for r, ds, fs in os.walk(root):
        for d in ds:
            p = os.path.join(r, d)
            if os.path.islink(p):
                continue
            nodes[os.path.relpath(p, root)] = ["dir"]
        for f in fs:
            p = os.path.join(r, f)
            if f.startswith(".") and f.endswith(".tmp"):
                continue  # temp leftover of a failed put_file in dvc_objects (not part of the comparison)
            try:
                with open(p, "rb") as fh:
                    b = fh.read()
                nodes[os.path.relpath(p, root)] = ["file", md5hex(b), bool(os.stat(p).st_mode & stat.S_IXUSR)]
            except OSError as e:
                nodes[os.path.relpath(p, root)] = ["broken", type(e).__name__]
    return dict(sorted(nodes.items()))


def target_entries(case):
    """the target index as (key, meta json, hash json, loaded) — expanded form for the model"""
    tgt = split(case["target"])
    ex = {tuple(k) for k in case["exec_target"]}
    ents = []
    dirs = sorted({k[:i] for k in tgt for i in range(1, len(k))})
    lazy = case["lazy"]
    for d in dirs:
        if lazy is not None and d[0] == lazy:
            if len(d) > 1:
                ents.append((d, {"isdir": True}, None, True))
            continue
        if case["explicit_dirs"]:
            ents.append((d, {"isdir": True}, None, True))
    for k, c in tgt.items():
        h = md5hex(c)
        if lazy is not None and k[0] == lazy:
            ents.append((k, {"md5": h}, {"name": "md5", "value": h}, None))
        else:
            ents.append((k, {"isexec": k in ex}, {"name": "md5", "value": h}, None))
    if lazy is not None:
        sub = {k[1:]: md5hex(c) for k, c in tgt.items() if k[0] == lazy}
        ents.append(((lazy,), {"isdir": True}, {"name": "md5", "value": gen.canonical_oid(sub)}, True))
    return ents


def build_target(case, odb, odb2=None):
    from dvc_data.hashfile.hash_info import HashInfo
    from dvc_data.hashfile.meta import Meta
    from dvc_data.index.index import DataIndex, DataIndexEntry, ObjectStorage

    tgt = split(case["target"])
    ex = {tuple(k) for k in case["exec_target"]}
    idx = DataIndex()
    idx.storage_map.add_cache(ObjectStorage((), odb))
    for k in case.get("own_storage", []) if odb2 is not None else []:
        idx.storage_map.add_cache(ObjectStorage(tuple(k.split("/")), odb2))
    lazy = case["lazy"]
    dirs = sorted({k[:i] for k in tgt for i in range(1, len(k))})
    for d in dirs:
        if lazy is not None and d[0] == lazy:
            continue
        if case["explicit_dirs"]:
            idx[d] = DataIndexEntry(key=d, meta=Meta(isdir=True), loaded=True)
    for k, c in tgt.items():
        if lazy is not None and k[0] == lazy:
            continue
        idx[k] = DataIndexEntry(key=k, meta=Meta(isexec=k in ex), hash_info=HashInfo("md5", md5hex(c)))
    if lazy is not None:
        sub = {k[1:]: md5hex(c) for k, c in tgt.items() if k[0] == lazy}
        idx[(lazy,)] = DataIndexEntry(key=(lazy,), meta=Meta(isdir=True), hash_info=HashInfo("md5", gen.canonical_oid(sub)))
    return idx


def run_impl(ctx, case):
    from dvc_data.index import build
    from dvc_data.index.checkout import apply, compare
    from dvc_data.index.save import md5

    fs = stores.fs_local()
    root = ctx.mkdtemp()
    ws = os.path.join(root, "ws")
    prior, tgt = split(case["prior"]), split(case["target"])
    gen.materialize(ws, prior, exec_keys={tuple(k) for k in case["exec_prior"]})
    for d in case["empty_dirs"]:
        os.makedirs(os.path.join(ws, *d), exist_ok=True)
    odb = stores.make_odb(os.path.join(root, "odb"), local=case["local"], type=[case["link"]])
    odb2 = stores.make_odb(os.path.join(root, "odb2"), local=case["local"], type=[case["link"]])
    own = {tuple(k.split("/")) for k in case.get("own_storage", [])}
    for k, c in tgt.items():
        h = md5hex(c)
        if h not in case["missing"]:
            # each object only in the store its entry's storage names
            stores.put_raw(odb2.path if k in own else odb.path, h, c)
    if case["lazy"] is not None and not case.get("lazy_missing"):
        sub = {k[1:]: md5hex(c) for k, c in tgt.items() if k[0] == case["lazy"]}
        stores.put_raw(odb.path, gen.canonical_oid(sub), gen.canonical_listing(sub))
    before = walk_ws(ws)
    errors = []

    def onerror(src, dest, exc):
        errors.append(os.path.relpath(dest, ws) if dest else None)

    def f():
        old = md5(build(ws, fs))
        new = build_target(case, odb, odb2)
        diff = compare(old, new, delete=case["delete"])
        acts = {n: sorted("/".join(e.key) for e in getattr(diff, n)) for n in ("files_delete", "dirs_delete", "files_create", "dirs_create", "files_chmod")}
        apply(diff, ws, fs, update_meta=False, onerror=onerror, links=[case["link"]] if case["link"] != "copy" else None)
        return acts

    kind, acts = safe_call(f)
    after = walk_ws(ws)

    def g():
        old2 = md5(build(ws, fs))
        new2 = build_target(case, odb, odb2)
        d2 = compare(old2, new2, delete=case["delete"])
        return {n: sorted("/".join(e.key) for e in getattr(d2, n)) for n in ("files_delete", "dirs_delete", "files_create", "dirs_create", "files_chmod")}

    k2, second = safe_call(g)
    return {"outcome": "ok" if kind == "ok" else acts, "actions": acts if kind == "ok" else None, "ws": after,
            "errors": sorted(set(e for e in errors if e)), "second": second if k2 == "ok" else {"err": second}}, before


def model_req(case, before):
    nodes = []
    for p, n in before.items():
        key = p.split("/")
        if n[0] == "dir":
            nodes.append({"key": key})
        elif n[0] == "file":
            nodes.append({"key": key, "oid": n[1], "exec": n[2]})
    tgt = split(case["target"])
    cache = sorted({md5hex(c) for c in tgt.values()} - set(case["missing"]))
    new = [{"key": list(k), "meta": m, "hi": h, "loaded": l} for k, m, h, l in target_entries(case)]
    return {"op": "idx_checkout", "ws": nodes, "new": new, "cache": cache, "delete": case["delete"]}


def canon_model(ans):
    if "crash" in ans:
        return {"outcome": "crash"}
    ws = {}
    for n in ans["ws"]:
        ws["/".join(n["key"])] = ["file", n["oid"], n["exec"]] if "oid" in n else ["dir"]
    j = lambda a: {k: sorted("/".join(x) for x in v) for k, v in a.items()}  # noqa: E731
    return {"outcome": "ok", "actions": j(ans["actions"]), "ws": dict(sorted(ws.items())),
            "errors": sorted("/".join(k) for k in ans["errors"]), "second": j(ans["second"])}


def check(ctx, case, ans=None):
    impl, before = run_impl(ctx, case)
    if ans is None:
        ans = ctx.driver.ask(model_req(case, before))
    prior, tgt = split(case["prior"]), split(case["target"])
    kindchg = any(any(k2[: len(k)] == k and k2 != k for k2 in tgt) for k in prior) or any(any(k2[: len(k)] == k and k2 != k for k2 in prior) for k in tgt)
    ctx.case(case, nontrivial=bool(prior) and kindchg)
    ctx.count("delete=%s" % case["delete"])
    ctx.count("link=%s" % case["link"])
    ctx.count("lazy_dir=%s" % (case["lazy"] is not None))
    ctx.count("kind_change=%s" % kindchg)
    ctx.count("unavailable=%d" % min(len(case["missing"]), 2))
    ctx.count("own_storage=%d" % min(len(case.get("own_storage", [])), 2))
    if case.get("lazy_missing"):
        # the directory object of the target cannot be loaded: it must be reported, never silently skipped
        ctx.count("unloadable_dir_object")
        ctx.oracle(impl["outcome"] == "ok" and case["lazy"] in impl["errors"], case,
                   {"why": "a directory whose object is unavailable was not reported through the error callback",
                    "dir": case["lazy"], "errors": impl["errors"], "outcome": impl["outcome"]})
        return
    if case["link"] == "copy":
        ctx.corr("IndexCheckout.apply∘compare~apply(compare())", case, impl, canon_model(ans))
    else:
        m = canon_model(ans)
        ctx.corr("IndexCheckout.compare~compare() (actions)", case, impl.get("actions"), m.get("actions"))
    # ---- oracle on the implementation
    if impl["outcome"] != "ok":
        # without deletion a file in the way of a target directory is a refusal, not a convergence failure
        blocked = not case["delete"] and any(tuple(p.split("/")) in prior for k in tgt for p in ["/".join(k[:i]) for i in range(1, len(k))])
        ctx.oracle(blocked, case, {"why": "apply raised", "impl": impl["outcome"]})
        return
    ws = impl["ws"]
    unavailable = {"/".join(k) for k, c in tgt.items() if md5hex(c) in case["missing"]}
    ex = {"/".join(k) for k in case["exec_target"]}
    for k, c in tgt.items():
        p = "/".join(k)
        blocked = not case["delete"] and (any("/".join(k[:i]) in {"/".join(q) for q in prior} for i in range(1, len(k)))
                                           or any(q[: len(k)] == k and q != k for q in prior))
        if blocked:
            continue  # without deletion a kind change cannot be carried out: nothing outside the target may be removed
        if p in unavailable:
            ctx.oracle(p in impl["errors"] or (p in ws and ws[p][:2] == ["file", md5hex(c)]), case,
                       {"why": "an entry whose source is unavailable was silently skipped", "path": p, "errors": impl["errors"], "got": ws.get(p)},
                       signature="symlink-to-unavailable-source-not-reported" if case["link"] == "symlink" and ws.get(p, [None])[0] == "broken" else None)
            continue
        ctx.oracle(p in ws and ws[p][:2] == ["file", md5hex(c)], case, {"why": "a target file is missing or has the wrong bytes", "path": p, "got": ws.get(p)})
        if p in ex and p in ws:
            ctx.oracle(ws[p][0] == "file" and ws[p][2] is True, case, {"why": "an executable entry is not executable", "path": p})
    for k in tgt:
        for i in range(1, len(k)):
            d = "/".join(k[:i])
            if "/".join(k) not in unavailable and case["delete"]:
                ctx.oracle(ws.get(d) == ["dir"], case, {"why": "a target directory was not created", "dir": d})
    tgt_paths = {"/".join(k) for k in tgt} | {"/".join(k[:i]) for k in tgt for i in range(1, len(k))}
    if case["delete"]:
        extra = [p for p in ws if p not in tgt_paths]
        ctx.oracle(not extra, case, {"why": "paths outside the target remain after a checkout with deletion", "extra": extra})
        if not unavailable:
            sec = impl["second"]
            ctx.oracle(isinstance(sec, dict) and "err" not in sec and not any(sec[n] for n in ("files_delete", "dirs_delete", "files_create", "dirs_create")),
                       case, {"why": "a second compare still finds something to create or delete", "second": sec})
    else:
        for p, n in before.items():
            if p not in tgt_paths and not any(p.startswith(t + "/") for t in {"/".join(k) for k in tgt}):
                ctx.oracle(ws.get(p) == n, case, {"why": "without deletion a path outside the target was removed or changed", "path": p, "before": n, "after": ws.get(p)})
    if len(ctx.samples) < 2 and kindchg:
        ctx.sample({"case": {k: case[k] for k in ("prior", "target", "delete", "link", "lazy")}, "actions": impl["actions"]})


def run_cases(ctx, n):
    for _ in range(n):
        check(ctx, gen_case(ctx.rng))


def run(ctx):
    ctx.rule = (
        "(prior workspace, target index) pairs over nested trees: target derived from the prior by modify/delete/add and "
        "file<->(nested) directory replacements at depth 1-3, targets with explicit or implicit directory entries or one top-level "
        "directory given as an unloaded directory object, exec bits, empty directories in the workspace, unavailable cache objects, "
        "delete on/off, copy/hardlink/symlink, both store classes. non-trivial = a path changes kind; distinct = sha256 of the case"
    )
    ctx.assumptions = ["'old' is the hashed workspace index md5(build(ws)) as DVC builds it", "link types other than copy are compared on actions and on the oracle only"]
    run_cases(ctx, ctx.n(140, 1500))


def search(ctx):
    run_cases(ctx, 1200)


def replay(ctx, payload):
    c = payload.get("case") or payload.get("diverging_case")
    check(ctx, c)
