"""Object-store scenarios, fault injection and upload tracing shared by C04/C06/C11/C12/C18."""
import contextlib
import json
import os
import stat

from .util import md5hex, safe_call

# ------------------------------------------------------------------ building stores


def fs_local():
    from dvc_objects.fs.local import LocalFileSystem

    return LocalFileSystem()


def make_odb(path, local=True, **cfg):
    from dvc_data.hashfile.db import HashFileDB
    from dvc_data.hashfile.db.local import LocalHashFileDB

    cls = LocalHashFileDB if local else HashFileDB
    os.makedirs(path, exist_ok=True)
    return cls(fs_local(), path, **cfg)


def put_raw(odb_path, oid, data: bytes, mode=None):
    """place bytes under the fan-out name of `oid` (bypasses the library on purpose)"""
    p = os.path.join(odb_path, oid[:2], oid[2:])
    os.makedirs(os.path.dirname(p), exist_ok=True)
    if os.path.exists(p):
        os.chmod(p, 0o644)
    with open(p, "wb") as f:
        f.write(data)
    if mode is not None:
        os.chmod(p, mode)
    return p


def tree_bytes(entries):
    """entries: {key tuple: oid} -> canonical listing bytes"""
    lst = sorted(({"md5": v, "relpath": "/".join(k)} for k, v in entries.items()), key=lambda e: e["relpath"])
    return json.dumps(lst, sort_keys=True).encode()


class Universe:
    """files and directory objects with controlled sharing"""

    def __init__(self, rng, nfiles=None, ntrees=None):
        nfiles = nfiles or rng.randrange(2, 8)
        ntrees = ntrees if ntrees is not None else rng.randrange(1, 5)
        self.files = {}  # oid -> bytes
        for i in range(nfiles):
            b = b"file-%d-%d" % (i, rng.randrange(10**6))
            self.files[md5hex(b)] = b
        foids = list(self.files)
        self.trees = {}  # dir oid -> {key: file oid}
        self.tree_raw = {}
        for t in range(ntrees):
            ents = {}
            n = rng.randrange(1, min(5, len(foids)) + 1)
            for j in range(n):
                f = rng.choice(foids)  # sharing between trees / repeats inside a tree
                key = (("d%d" % rng.randrange(2),) if rng.random() < 0.4 else ()) + ("n%d" % j,)
                ents[key] = f
            if rng.random() < 0.3 and len(ents) >= 1:
                ents[("dup",)] = rng.choice(list(ents.values()))
            raw = tree_bytes(ents)
            oid = md5hex(raw) + ".dir"
            self.trees[oid] = ents
            self.tree_raw[oid] = raw

    def listing(self, d):
        out = []
        for v in self.trees[d].values():
            if v not in out:
                out.append(v)
        return out

    def L_json(self):
        return [[d, self.listing(d)] for d in self.trees]

    def data(self, oid):
        return self.tree_raw[oid] if oid in self.tree_raw else self.files[oid]

    def closure(self, oids):
        s = set(oids)
        for o in list(s):
            if o in self.trees:
                s.update(self.trees[o].values())
        return s

    def all_oids(self):
        return list(self.files) + list(self.trees)


def populate(odb, uni, oids, corrupt=()):
    for o in oids:
        data = uni.data(o)
        if o in corrupt:
            if o.endswith(".dir"):
                # damaged but still a valid listing with the same entries: the bytes no longer hash to the name
                data = json.dumps(json.loads(data), indent=1).encode()
            else:
                data = b"CORRUPT-" + data
        put_raw(odb.path, o, data)


def listing_of(path):
    """sorted list of oids physically in a store directory"""
    out = []
    if not os.path.isdir(path):
        return out
    for d in sorted(os.listdir(path)):
        dp = os.path.join(path, d)
        if len(d) != 2 or not os.path.isdir(dp):
            continue
        for f in sorted(os.listdir(dp)):
            if os.path.isfile(os.path.join(dp, f)) and not f.endswith(".tmp"):
                out.append(d + f)
    return out


def read_obj(path, oid):
    with open(os.path.join(path, oid[:2], oid[2:]), "rb") as f:
        return f.read()


def closed_violations(path):
    """independent closure oracle: every .dir object present lists only objects that are present"""
    present = set(listing_of(path))
    bad = []
    for o in present:
        if o.endswith(".dir"):
            try:
                lst = json.loads(read_obj(path, o))
            except Exception as e:  # noqa: BLE001
                bad.append([o, "unparsable:" + type(e).__name__])
                continue
            for e in lst:
                child = e.get("md5")
                if child not in present:
                    bad.append([o, child])
    return bad


def intact_violations(path):
    """objects whose bytes do not hash to their name"""
    bad = []
    for o in listing_of(path):
        if md5hex(read_obj(path, o)) != o.split(".")[0]:
            bad.append(o)
    return bad


# ------------------------------------------------------------------ fault injection / tracing


class Faults:
    """Intercepts dvc_objects' generic.transfer for uploads into one destination store.

    * uploads whose destination oid is in `fail` fail with an exception whose kind is a function of the oid (an I/O
      error, a permission error, a connection error), reported through on_error; for an oid in `vanish` the source
      object is deleted first and the failure is the FileNotFoundError a real copy would raise;
    * every attempted upload is recorded in `events` as (oid, 'ok'|'fail');
    * after every event `on_event` (if given) is called: this is where the closure oracle looks
      at the destination as a process killed at that point would leave it."""

    def __init__(self, dest_odb, fail=(), on_event=None, vanish=()):
        self.dest = dest_odb
        self.fail = set(fail)
        self.vanish = set(vanish)
        self.events = []
        self.on_event = on_event
        self.dir_order = []

    @contextlib.contextmanager
    def active(self):
        from dvc_objects.fs import generic

        import dvc_data.hashfile.transfer as tmod

        real = generic.transfer
        real_find = tmod.find_tree_by_obj_id
        me = self

        def wrapped(from_fs, from_path, to_fs, to_path, *a, **kw):
            fp = [from_path] if isinstance(from_path, str) else list(from_path)
            tp = [to_path] if isinstance(to_path, str) else list(to_path)
            base = me.dest.path + os.sep
            if not tp or not all(isinstance(p, str) and p.startswith(base) for p in tp):
                return real(from_fs, from_path, to_fs, to_path, *a, **kw)
            on_error = kw.get("on_error")
            for f, t in zip(fp, tp):
                oid = me.dest.path_to_oid(t)
                if oid in me.fail:
                    me.events.append((oid, "fail"))
                    if oid in me.vanish:
                        with contextlib.suppress(OSError):
                            os.chmod(f, 0o644)
                        with contextlib.suppress(OSError):
                            os.remove(f)
                        exc = FileNotFoundError(2, "No such file or directory", f)
                    else:
                        k = int(oid[:2], 16) % 3
                        exc = (OSError(5, "injected upload failure for " + oid), PermissionError(13, "injected: permission denied", t),
                               ConnectionError("injected: connection reset for " + oid))[k]
                    if on_error is not None:
                        on_error(f, t, exc)
                    else:
                        raise exc
                else:
                    real(from_fs, [f], to_fs, [t], *a, **kw)
                    me.events.append((oid, "ok"))
                if me.on_event:
                    me.on_event(oid)

        def find(odbs, obj_id):
            r = real_find(odbs, obj_id)
            me.dir_order.append(obj_id.value)
            return r

        generic.transfer = wrapped
        tmod.find_tree_by_obj_id = find
        try:
            yield self
        finally:
            generic.transfer = real
            tmod.find_tree_by_obj_id = real_find


def hi(oid, name="md5"):
    from dvc_data.hashfile.hash_info import HashInfo

    return HashInfo(name, oid)


def vals(hs):
    return sorted(h.value for h in hs)


def index_dump(idx):
    if idx is None:
        return None
    d, f = [], []
    for k, isdir in idx.index.items():
        (d if isdir else f).append(k)
    return {"dirs": sorted(d), "files": sorted(f)}


def new_index(tmp_dir, name="x"):
    from dvc_data.hashfile.db.index import ObjectDBIndex

    return ObjectDBIndex(tmp_dir, name)
