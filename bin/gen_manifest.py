#!/usr/bin/env python3
"""Regenerates MANIFEST.json from the table below (keeps it valid at all times)."""
import json, os
V = os.path.dirname(os.path.dirname(os.path.abspath(__file__)))
props = [json.loads(l) for l in open(os.path.join(V, "properties.jsonl"))]
reg = json.load(open(os.path.join(V, "lean", "registry.json")))
CLAIMS = json.load(open(os.path.join(V, "claims.json")))
checks, na = [], []
for p in props:
    pid = p["id"]
    c = CLAIMS.get(pid)
    if c and c.get("claimed"):
        checks.append({
            "property_id": pid,
            "quick_cmd": f"bin/check {pid} --tier quick",
            "thorough_cmd": f"bin/check {pid} --tier thorough",
            "evidence_file": f"evidence/{pid}.json",
            "replay_cmd_template": f"bin/check {pid} --replay {{path}}",
            "engine": "lean-model+correspondence",
            "level_claimed": {"category": "proof", "text": c["text"], "design_ref": c.get("design_ref", "DESIGN.md section 6, " + pid)},
            "level_note": c["note"],
            "technique": c["technique"],
        })
    else:
        na.append({"property_id": pid, "reason": (c or {}).get("reason", "check not built yet in this round; planned (DESIGN.md section 6)")})
m = {
    "version": 1,
    "setup_cmd": "cd lean && lake build",
    "hooks": {
        "guard": "DVC_DATA_VERIF",
        "enable": "unused - no source hooks: faults, traces and crashes are injected from /verif/harness (fs wrappers, monkeypatching in the harness process)",
        "baseline_off_cmd": "cd /repo && /venv/bin/python -m pytest -ra -q -p no:cacheprovider --timeout=900 --continue-on-collection-errors",
        "source_commits": [],
        "add_only": True,
    },
    "engines": [
        {"name": "lean-model", "path": "lean", "serves_properties": [c["property_id"] for c in checks],
         "kind_free_text": "Lean 4 executable model + machine-checked theorems (lake project, no Mathlib in the model; native driver lean/Main.lean)"},
        {"name": "correspondence-harness", "path": "harness", "serves_properties": [c["property_id"] for c in checks],
         "kind_free_text": "Python harness running the real dvc_data from /repo's working tree against the Lean driver, plus implementation-side property oracles and failing-input search"},
    ],
    "checks": checks,
    "not_applicable": na,
    "notes": "Every check: lake build + #print axioms audit of the property's theorems, correspondence model~code, oracle on the code. exit 0 ok / 1 VIOLATION / 2 infrastructure. See DESIGN.md.",
}
json.dump(m, open(os.path.join(V, "MANIFEST.json"), "w"), indent=1)
print(len(checks), "claimed;", len(na), "not claimed")
