#!/usr/bin/env python3
"""rewrites the table between MATRIX-BEGIN / MATRIX-END in DESIGN.md from seeded/matrix.json + meta.json"""
import json, os, re
V = os.path.dirname(os.path.dirname(os.path.abspath(__file__)))
m = json.load(open(os.path.join(V, "seeded", "matrix.json")))
rows = ["| change | what it does (one line) | caught by its own check | also caught by |", "|---|---|---|---|"]
for name in sorted(m):
    meta = json.load(open(os.path.join(V, "seeded", name, "meta.json")))
    own = name.split("-")[0]
    row = m[name]
    det = [p for p, v in row.items() if v.startswith("VIOLATION")]
    star = lambda p: p + ("*" if "no-failing" in row[p] else "")
    summ = re.sub(r"\s+", " ", meta.get("summary", ""))
    summ = summ[:150].rsplit(" ", 1)[0] + " …"
    ownres = star(own) if own in det else ""
    if own not in det:
        ownres = "no — " + (meta.get("status") or meta.get("note") or meta.get("detected_by_note") or "see text")[:110] + " …"
    others = ", ".join(star(p) for p in sorted(det) if p != own) or "—"
    rows.append("| %s | %s | %s | %s |" % (name, summ.replace("|", "\\|"), ownres, others))
p = os.path.join(V, "DESIGN.md")
s = open(p).read()
a = s.index("<!-- MATRIX-BEGIN -->") + len("<!-- MATRIX-BEGIN -->")
b = s.index("<!-- MATRIX-END -->")
s = s[:a] + "\n" + "\n".join(rows) + "\n" + s[b:]
open(p, "w").write(s)
print(len(rows) - 2, "rows")
