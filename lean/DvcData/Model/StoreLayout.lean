import DvcData.Model.Basic
/-
  The directory layout of an object store (`LocalHashFileDB.oid_to_path`, dvc-objects' `ObjectDB.path_to_oid` / `_list_oids`,
  as `gc` and `all()` use them): an object sits at `<root>/<oid[0:2]>/<oid[2:]>`; when the store is listed every file below
  the root is offered to `path_to_oid`, which accepts exactly the paths with two components below the root whose first
  component has two characters - anything else ("doesn't look like a cache file") is skipped.
-/
namespace DvcData.StoreLayout
open DvcData

abbrev Part := List Char
/-- a file below the store root, as its path components -/
abbrev RelPath := List Part
abbrev Oid := List Char

/-- `oid_to_path`, relative to the root -/
def oidToPath (oid : Oid) : RelPath := [oid.take 2, oid.drop 2]

/-- `path_to_oid`: `none` = ValueError ("Bad cache file path") -/
def pathToOid (p : RelPath) : Option Oid :=
  match p with
  | [a, b] => if a.length = 2 then some (a ++ b) else none
  | _ => none

/-- `_list_oids` / `all()`: what a walk of the store directory yields -/
def listOids (files : List RelPath) : List Oid := files.filterMap pathToOid

/-- the files `gc` removes: the object paths of the unused identifiers it listed -/
def gcFiles (files : List RelPath) (keep : List Oid) : List RelPath :=
  files.filter fun p => match pathToOid p with
    | some o => !keep.contains o
    | none => false

/-- the store directory after a real `gc` run -/
def afterGc (files : List RelPath) (keep : List Oid) : List RelPath :=
  files.filter fun p => !(gcFiles files keep).contains p

end DvcData.StoreLayout
