import DvcData.Model.Basic
/-
  Model of the staging area of `build()`: `hashfile/build.py::_get_staging` creates a *fresh*
  `ReferenceHashFileDB` (`hashfile/db/reference.py`) for every call; `ReferenceHashFileDB.add` records
  `oid ↦ path` (the last writer of an oid wins) instead of copying bytes, and a later
  `transfer(staging, odb, oids)` reads, for every oid, the *current* bytes of the path recorded for it
  and files them under that oid (an oid the destination already holds is not copied again).
-/
namespace DvcData.Staging
open DvcData

abbrev Path := List Char
abbrev Bytes := List UInt8
abbrev Oid := String

/-- the workspace: path ↦ current bytes -/
abbrev Fs := AList Path Bytes
/-- `ReferenceHashFileDB._obj_cache`: oid ↦ the path it refers to -/
abbrev Refs := AList Oid Path
/-- an object store: oid ↦ bytes -/
abbrev Store := AList Oid Bytes

/-- `build(odb, paths...)` into the reference table `refs`: every readable path is hashed and recorded
    (`refs = []` for the table `_get_staging` creates per call) -/
def stageInto (H : Bytes → Oid) (fs : Fs) : List Path → Refs → Refs
  | [], refs => refs
  | p :: r, refs =>
    match fs.lookup p with
    | some b => stageInto H fs r (refs.set (H b) p)
    | none => stageInto H fs r refs

/-- one `build()` call: a fresh table -/
def stage (H : Bytes → Oid) (fs : Fs) (paths : List Path) : Refs := stageInto H fs paths []

/-- `transfer(staging, odb, oids)`: what each reference points at *now* is copied under the oid -/
def transferStaged (fs : Fs) (refs : Refs) : List Oid → Store → Store
  | [], s => s
  | o :: r, s =>
    if s.contains o then transferStaged fs refs r s
    else match refs.lookup o with
      | some p =>
        (match fs.lookup p with
          | some b => transferStaged fs refs r (s ++ [(o, b)])
          | none => transferStaged fs refs r s)       -- the source is gone: the copy fails, nothing is filed
      | none => transferStaged fs refs r s

/-- every object is stored under the digest of its own bytes -/
def Addressed (H : Bytes → Oid) (s : Store) : Prop := ∀ o b, (o, b) ∈ s → o = H b

/-- every reference points at a path whose current bytes hash to the oid -/
def RefsOK (H : Bytes → Oid) (fs : Fs) (refs : Refs) : Prop :=
  ∀ o p, refs.lookup o = some p → ∃ b, fs.lookup p = some b ∧ H b = o

end DvcData.Staging
