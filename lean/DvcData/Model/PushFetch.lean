import DvcData.Model.IndexLazy
/-
  Model of storage mappings and of what push/fetch move:
  `index/index.py::StorageMapping.__getitem__` (longest prefix, independently per role),
  `index/collect.py::collect/_collect_from_index` (grouping by storage), `index/push.py`,
  `index/fetch.py` (one `transfer` per collected storage).
-/
namespace DvcData.PushFetch
open DvcData Path IndexLazy

abbrev StoreId := String

structure SInfo where
  data : Option StoreId := none
  cache : Option StoreId := none
  remote : Option StoreId := none
  deriving DecidableEq, Repr

abbrev SMap := AList Key SInfo

inductive Role | data | cache | remote
  deriving DecidableEq, Repr

def SInfo.get (s : SInfo) : Role → Option StoreId
  | .data => s.data | .cache => s.cache | .remote => s.remote

/-- the mapping prefixes that apply to `k`, longest first -/
def matching (m : SMap) (k : Key) : List (Key × SInfo) :=
  (m.filter fun e => e.1.isPrefixOf k).mergeSort fun a b => decide (b.1.length ≤ a.1.length)

/-- `StorageMapping.__getitem__(key)`, one role: the storage of the longest prefix that defines it -/
def resolveRole (m : SMap) (k : Key) (r : Role) : Option StoreId :=
  ((matching m k).filterMap fun e => e.2.get r).head?

def resolve (m : SMap) (k : Key) : Option SInfo :=
  if (matching m k).isEmpty then none   -- StorageKeyError
  else some { data := resolveRole m k .data, cache := resolveRole m k .cache, remote := resolveRole m k .remote }

/-- the identifiers of the hashed entries at or below a mapping prefix, after loading -/
def oidsUnder (idx : LIndex) (p : Key) : List Oid :=
  (idx.filterMap fun e => if p.isPrefixOf e.1 then e.2.hash else none).foldl insertSet []

/-- `collect(idxs, role)`: per storage of that role, the objects of every entry below a prefix that
    designates it (entries of a longer prefix are collected for the shorter prefix's storage too) -/
def plan (load : Oid → Option Listing) (idx : LIndex) (m : SMap) (r : Role) (s : StoreId) : List Oid :=
  let ex := expand load idx
  (m.filter fun e => e.2.get r = some s).foldl (fun acc e => (oidsUnder ex e.1).foldl insertSet acc) []

end DvcData.PushFetch
