import DvcData.Model.Basic
/-
  Model of `dvc_data/hashfile/hash.py` and `istextfile.py`.
  The hash function is a parameter `H : Bytes → δ`; hashlib's contract (a hasher is a function
  of the concatenation of its updates) is the one modelled primitive.
-/
namespace DvcData.Hash

abbrev Bytes := List UInt8

/-- `data.replace(b"\r\n", b"\n")` (leftmost, non-overlapping) -/
def dos2unix : Bytes → Bytes
  | 13 :: 10 :: r => 10 :: dos2unix r
  | c :: r => c :: dos2unix r
  | [] => []

/-- the CRLF variant of a text: every LF becomes CRLF -/
def unix2dos : Bytes → Bytes
  | [] => []
  | c :: r => if c = 10 then 13 :: 10 :: unix2dos r else c :: unix2dos r

/-- `TEXT_CHARS = bytes(range(32, 127)) + b"\n\r\t\f\b"` -/
def isTextChar (c : UInt8) : Bool :=
  (32 ≤ c && c < 127) || c = 10 || c = 13 || c = 9 || c = 12 || c = 8

def nontext (b : Bytes) : Nat := (b.filter fun c => !isTextChar c).length

/-- `istextblock`: empty → text; NUL → binary; else `nontext / len ≤ 0.30`, in integers -/
def isTextBlock (b : Bytes) : Bool :=
  if b.isEmpty then true
  else if b.contains 0 then false
  else decide (10 * nontext b ≤ 3 * b.length)

def CHUNK : Nat := 512

/-- state of a `HashStreamFile`: bytes fed to the hasher so far and `total_read` -/
structure Stream where
  fed : Bytes := []
  total : Nat := 0
  passed : List Bytes := []   -- chunks handed on to the consumer, oldest first

/-- `HashStreamFile.read` when the underlying file object returns `chunk` -/
def readPlain (s : Stream) (chunk : Bytes) : Stream :=
  { fed := s.fed ++ chunk, total := s.total + chunk.length, passed := s.passed ++ [chunk] }

/-- `Dos2UnixHashStreamFile.read` when the underlying file object returns `chunk` -/
def readDos2Unix (s : Stream) (chunk : Bytes) : Stream :=
  let isText := if chunk.isEmpty then false else isTextBlock (chunk.take CHUNK)
  let data := if isText then dos2unix chunk else chunk
  { fed := s.fed ++ data, total := s.total + chunk.length, passed := s.passed ++ [chunk] }

/-- `get_hash_stream(name)` picks the class by the lower-cased name (as `HashStreamFile.__init__` lower-cases it
    for the hasher): every case variant of the legacy name selects the dos2unix variant -/
def isDos2Unix (name : String) : Bool := name.toLower = "md5-dos2unix"

def readStep (name : String) : Stream → Bytes → Stream :=
  if isDos2Unix name then readDos2Unix else readPlain

/-- `fobj_md5`-style consumption: the file object hands out the chunks `cs` (a read schedule:
    any partition of the content into non-empty chunks), then the empty chunk at EOF -/
def runStream (name : String) (cs : List Bytes) : Stream :=
  cs.foldl (readStep name) {}

/-- hexdigest of the stream for a given hash function -/
def digest {δ : Type} (H : Bytes → δ) (s : Stream) : δ := H s.fed

end DvcData.Hash
