import DvcData.Model.Basic
/-
  `json.dumps(obj, sort_keys=True)` with the default `ensure_ascii=True` and the default
  separators `", "` / `": "`, for the shapes dvc-data writes: lists of flat objects whose
  values are strings, non-negative ints, booleans or null.
-/
namespace DvcData.Json

inductive JVal
  | str (s : List Char)
  | int (n : Nat)
  | bool (b : Bool)
  | null
  deriving DecidableEq, Repr

abbrev JObj := AList (List Char) JVal

def hexDigit (n : Nat) : Char := if n < 10 then Char.ofNat (48+n) else Char.ofNat (87+n)

def hex4 (n : Nat) : List Char :=
  [hexDigit (n / 4096 % 16), hexDigit (n / 256 % 16), hexDigit (n / 16 % 16), hexDigit (n % 16)]

def uEsc (n : Nat) : List Char := '\\' :: 'u' :: hex4 n

/-- escaping of one character by `json.dumps(ensure_ascii=True)` (py_encode_basestring_ascii) -/
def escChar (c : Char) : List Char :=
  if c = '"' then ['\\', '"']
  else if c = '\\' then ['\\', '\\']
  else if c = '\n' then ['\\', 'n']
  else if c = '\r' then ['\\', 'r']
  else if c = '\t' then ['\\', 't']
  else if c.toNat = 8 then ['\\', 'b']
  else if c.toNat = 12 then ['\\', 'f']
  else if 32 ≤ c.toNat ∧ c.toNat ≤ 126 then [c]
  else if c.toNat < 65536 then uEsc c.toNat
  else
    let v := c.toNat - 65536
    uEsc (55296 + v / 1024) ++ uEsc (56320 + v % 1024)

def esc (s : List Char) : List Char := s.flatMap escChar

def renderStr (s : List Char) : List Char := '"' :: esc s ++ ['"']

def digitChar (d : Nat) : Char := Char.ofNat (48 + d)

/-- decimal rendering of `str(int)` for non-negative ints -/
def renderNat (n : Nat) : List Char :=
  if n < 10 then [digitChar n] else renderNat (n / 10) ++ [digitChar (n % 10)]
termination_by n
decreasing_by omega

def renderVal : JVal → List Char
  | .str s => renderStr s
  | .int n => renderNat n
  | .bool true => "true".toList
  | .bool false => "false".toList
  | .null => "null".toList

def commaSep : List (List Char) → List Char
  | [] => []
  | [x] => x
  | x :: y :: r => x ++ ',' :: ' ' :: commaSep (y :: r)

def charsLe (a b : List Char) : Bool := decide (a ≤ b)

/-- `sort_keys=True`: members ordered by key (code-point order) -/
def sortKeys (o : JObj) : JObj := o.mergeSort fun a b => charsLe a.1 b.1

def renderObj (o : JObj) : List Char :=
  '{' :: commaSep ((sortKeys o).map fun p => renderStr p.1 ++ ':' :: ' ' :: renderVal p.2) ++ ['}']

def renderList (l : List JObj) : List Char :=
  '[' :: commaSep (l.map renderObj) ++ [']']

/-! ### parser (the `json.load` of `Tree.load`, for the shapes above) -/

def hexVal (c : Char) : Option Nat :=
  let n := c.toNat
  if 48 ≤ n ∧ n ≤ 57 then some (n - 48)
  else if 97 ≤ n ∧ n ≤ 102 then some (n - 87)
  else none

def parseHex4 (a b c d : Char) : Option Nat := do
  let x3 ← hexVal a; let x2 ← hexVal b; let x1 ← hexVal c; let x0 ← hexVal d
  pure (x3 * 4096 + x2 * 256 + x1 * 16 + x0)

/-- decode one (possibly escaped) character from the front -/
def unescOne : List Char → Option (Char × List Char)
  | '\\' :: '"' :: r => some ('"', r)
  | '\\' :: '\\' :: r => some ('\\', r)
  | '\\' :: 'n' :: r => some ('\n', r)
  | '\\' :: 'r' :: r => some ('\r', r)
  | '\\' :: 't' :: r => some ('\t', r)
  | '\\' :: 'b' :: r => some (Char.ofNat 8, r)
  | '\\' :: 'f' :: r => some (Char.ofNat 12, r)
  | '\\' :: 'u' :: a :: b :: c :: d :: r =>
    match parseHex4 a b c d with
    | none => none
    | some v =>
      if 55296 ≤ v ∧ v < 56320 then
        match r with
        | '\\' :: 'u' :: e :: f :: g :: h :: r' =>
          match parseHex4 e f g h with
          | none => none
          | some w => if 56320 ≤ w ∧ w < 57344 then some (Char.ofNat (65536 + (v - 55296) * 1024 + (w - 56320)), r') else none
        | _ => none
      else some (Char.ofNat v, r)
  | '\\' :: _ => none
  | '"' :: _ => none
  | c :: r => some (c, r)
  | [] => none

/-- read a string body up to the closing quote -/
def unescFuel : Nat → List Char → Option (List Char × List Char)
  | 0, _ => none
  | _+1, '"' :: r => some ([], r)
  | n+1, l =>
    match unescOne l with
    | none => none
    | some (c, r) =>
      match unescFuel n r with
      | none => none
      | some (s, r') => some (c :: s, r')

def parseStrLit (fuel : Nat) : List Char → Option (List Char × List Char)
  | '"' :: r => unescFuel fuel r
  | _ => none

def isDigit (c : Char) : Bool := 48 ≤ c.toNat && c.toNat ≤ 57

def digitsVal (ds : List Char) : Nat := ds.foldl (fun acc c => acc * 10 + (c.toNat - 48)) 0

def parseNat (l : List Char) : Option (Nat × List Char) :=
  let ds := l.takeWhile isDigit
  if ds.isEmpty then none else some (digitsVal ds, l.dropWhile isDigit)

def parseVal (fuel : Nat) : List Char → Option (JVal × List Char)
  | '"' :: r => (unescFuel fuel r).map fun p => (.str p.1, p.2)
  | 't' :: 'r' :: 'u' :: 'e' :: r => some (.bool true, r)
  | 'f' :: 'a' :: 'l' :: 's' :: 'e' :: r => some (.bool false, r)
  | 'n' :: 'u' :: 'l' :: 'l' :: r => some (.null, r)
  | l => (parseNat l).map fun p => (.int p.1, p.2)

/-- `"key": value` -/
def parseMember (fuel : Nat) (l : List Char) : Option ((List Char × JVal) × List Char) :=
  match parseStrLit fuel l with
  | some (k, ':' :: ' ' :: r) => (parseVal fuel r).map fun p => ((k, p.1), p.2)
  | _ => none

/-- members after the first, up to and including the closing brace -/
def parseMembersTail : Nat → List Char → Option (JObj × List Char)
  | 0, _ => none
  | _+1, '}' :: r => some ([], r)
  | f+1, ',' :: ' ' :: r =>
    match parseMember (f+1) r with
    | some (m, r') => (parseMembersTail f r').map fun p => (m :: p.1, p.2)
    | none => none
  | _+1, _ => none

def parseObj (fuel : Nat) : List Char → Option (JObj × List Char)
  | '{' :: '}' :: r => some ([], r)
  | '{' :: r =>
    match parseMember fuel r with
    | some (m, r') => (parseMembersTail fuel r').map fun p => (m :: p.1, p.2)
    | none => none
  | _ => none

def parseObjsTail : Nat → List Char → Option (List JObj × List Char)
  | 0, _ => none
  | _+1, ']' :: r => some ([], r)
  | f+1, ',' :: ' ' :: r =>
    match parseObj (f+1) r with
    | some (o, r') => (parseObjsTail f r').map fun p => (o :: p.1, p.2)
    | none => none
  | _+1, _ => none

/-- a JSON list of flat objects, nothing after it -/
def parseList (l : List Char) : Option (List JObj) :=
  let fuel := l.length + 1
  match l with
  | '[' :: ']' :: [] => some []
  | '[' :: r =>
    match parseObj fuel r with
    | some (o, r') =>
      match parseObjsTail fuel r' with
      | some (os, []) => some (o :: os)
      | _ => none
    | none => none
  | _ => none

end DvcData.Json
