import DvcData.Model.Basic
/-
  `json.dumps(obj, sort_keys=True)` with the default `ensure_ascii=True` and the default
  separators `", "` / `": "`, for the shapes dvc-data writes: lists of flat objects whose
  values are strings, non-negative ints, booleans or null.
-/
namespace DvcData.Json

inductive JVal
  | str (s : List Char)
  | int (n : Nat)
  | bool (b : Bool)
  | null
  deriving DecidableEq, Repr

abbrev JObj := AList (List Char) JVal

def hexDigit (n : Nat) : Char := if n < 10 then Char.ofNat (48+n) else Char.ofNat (87+n)

def hex4 (n : Nat) : List Char :=
  [hexDigit (n / 4096 % 16), hexDigit (n / 256 % 16), hexDigit (n / 16 % 16), hexDigit (n % 16)]

def uEsc (n : Nat) : List Char := '\\' :: 'u' :: hex4 n

/-- escaping of one character by `json.dumps(ensure_ascii=True)` (py_encode_basestring_ascii) -/
def escChar (c : Char) : List Char :=
  if c = '"' then ['\\', '"']
  else if c = '\\' then ['\\', '\\']
  else if c = '\n' then ['\\', 'n']
  else if c = '\r' then ['\\', 'r']
  else if c = '\t' then ['\\', 't']
  else if c.toNat = 8 then ['\\', 'b']
  else if c.toNat = 12 then ['\\', 'f']
  else if 32 ≤ c.toNat ∧ c.toNat ≤ 126 then [c]
  else if c.toNat < 65536 then uEsc c.toNat
  else
    let v := c.toNat - 65536
    uEsc (55296 + v / 1024) ++ uEsc (56320 + v % 1024)

def esc (s : List Char) : List Char := s.flatMap escChar

def renderStr (s : List Char) : List Char := '"' :: esc s ++ ['"']

def renderNat (n : Nat) : List Char := (Nat.repr n).toList

def renderVal : JVal → List Char
  | .str s => renderStr s
  | .int n => renderNat n
  | .bool true => "true".toList
  | .bool false => "false".toList
  | .null => "null".toList

def commaSep : List (List Char) → List Char
  | [] => []
  | [x] => x
  | x :: y :: r => x ++ ',' :: ' ' :: commaSep (y :: r)

def charsLe (a b : List Char) : Bool := decide (a ≤ b)

/-- `sort_keys=True`: members ordered by key (code-point order) -/
def sortKeys (o : JObj) : JObj := o.mergeSort fun a b => charsLe a.1 b.1

def renderObj (o : JObj) : List Char :=
  '{' :: commaSep ((sortKeys o).map fun p => renderStr p.1 ++ ':' :: ' ' :: renderVal p.2) ++ ['}']

def renderList (l : List JObj) : List Char :=
  '[' :: commaSep (l.map renderObj) ++ [']']

end DvcData.Json
