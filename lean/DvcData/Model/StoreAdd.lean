import DvcData.Model.Store
/-
  `HashFileDB.add(path, fs, oid, verify=...)` for one object, with the way the verification wish is resolved:
  `verify = kwargs.get("verify"); if verify is None: verify = self.verify` (db/__init__.py) - an explicit `None`
  (what `transfer()` forwards and `fetch` passes as `data.odb.verify`) means "the store's own setting".
-/
namespace DvcData.Store
open DvcData State

/-- the effective verification flag of one `add` call -/
def effVerify (storeVerify : Bool) (arg : Option Bool) : Bool :=
  match arg with
  | some b => b
  | none => storeVerify

/-- `add` of one object with `check_exists=True`: verifying (pre-check, copy, post-check) or not (an existing name is left
    alone; otherwise the bytes are filed under a fresh stamp, protected in a local store and recorded in the hash state) -/
def add (H : Algo → Bytes → Digest) (localClass : Bool) (name : Algo) (storeVerify : Bool) (arg : Option Bool)
    (db : Db) (st : Store) (oid : Oid) (data : Bytes) (s : Stamp) : CheckRes × Store × Db :=
  if effVerify storeVerify arg then addVerify H localClass name db st oid data s
  else if st.contains oid then (.ok, st, db)
  else
    let r := addOne localClass name ([], st, db) (oid, some (data, s))
    (.ok, r.2.1, r.2.2)

end DvcData.Store
