import DvcData.Model.Checkout
/-
  Model of `checkout(path, fs, None, cache)` - the removal of a whole directory output (`hashfile/checkout.py::_checkout`,
  the loop over `diff.deleted`): every file of the old tree is an entry, and so is ROOT, the directory itself.  Each entry
  goes through the guarded `_remove`; for ROOT the guard looks at the *directory object* (`dirCached`) and the removal is an
  `rmtree`: whatever is still inside goes with it.  `_checkout` sorts the entries so that the directory itself comes last
  (the F12 repair); the files keep the arbitrary order `diff()` produced.
-/
namespace DvcData.Checkout
open DvcData Path

inductive Del
  | file (k : Key)
  | root
  deriving DecidableEq, Repr

/-- `sorted(diff.deleted, key=lambda change: change.old.key == ROOT)` (a stable sort on a Boolean key) -/
def rootLast (ds : List Del) : List Del := ds.filter (· ≠ .root) ++ ds.filter (· = .root)

/-- `_remove(path, ...)` of the directory itself -/
def removeRoot (cfg : Cfg) (dirCached : Bool) (ws : Ws) : Option Ws :=
  if !cfg.force && !dirCached then (if cfg.prompt = some true then some [] else none)
  else some []

/-- the deletion loop; `false` = stopped at a refusal (`PromptError`), the workspace keeps what was done so far -/
def delSeq (cfg : Cfg) (cache : List Oid) (dirCached : Bool) : List Del → Ws → Bool × Ws
  | [], w => (true, w)
  | .file k :: r, w =>
    match w.lookup k with
    | none => delSeq cfg cache dirCached r w            -- `if not fs.exists(path): return`
    | some f =>
      match guardedRemove cfg cache w k f with
      | none => (false, w)
      | some w' => delSeq cfg cache dirCached r w'
  | .root :: r, w =>
    match removeRoot cfg dirCached w with
    | none => (false, w)
    | some w' => delSeq cfg cache dirCached r w'

/-- `checkout(path, fs, None, cache)` as far as the workspace is concerned, for the order `diff()` gave -/
def checkoutNone (cfg : Cfg) (cache : List Oid) (dirCached : Bool) (ws : Ws) (order : List Del) : Bool × Ws :=
  delSeq cfg cache dirCached (rootLast order) ws

end DvcData.Checkout
