import DvcData.Model.Basic
/-
  Step model of the store-mutating operations (C15, C16): adding one object to a local store is a
  fixed sequence of atomic filesystem steps, as issued by `ObjectDB.add` → `generic.transfer` →
  `LocalFileSystem.put_file` (copy to a temp name, `os.replace`), `LocalHashFileDB.protect`
  (`chmod 0o444`) and `State.save_many` (one SQLite transaction):

    probeCreate · probeUnlink     -- the reflink attempt creates an empty file under the final name and removes it
    tmpCreate · append* · rename  -- data reaches the final name only by an atomic rename of a complete temp
    protect · saveRow

  A crash is a prefix of the step list; concurrency is an interleaving of several writers' lists.
-/
namespace DvcData.Crash
open DvcData

abbrev Oid := String
abbrev Bytes := List UInt8
abbrev Tmp := Nat × Nat      -- (writer, serial): temp names are unique per writer

structure Obj where
  data : Bytes
  prot : Bool
  deriving DecidableEq, Repr

structure S where
  objs : AList Oid Obj := []        -- files under final names
  tmps : AList Tmp Bytes := []      -- files under temp names
  rows : List Oid := []             -- objects the hash-state database vouches for
  deriving Repr

inductive Step
  | probeCreate (oid : Oid)                 -- `os.open(dst, O_CREAT|O_TRUNC)` of the reflink attempt
  | probeUnlink (oid : Oid)
  | tmpCreate (t : Tmp)
  | append (t : Tmp) (chunk : Bytes)
  | rename (t : Tmp) (oid : Oid)
  | protect (oid : Oid)
  | saveRow (oid : Oid)
  | remove (oid : Oid)                      -- integrity check discarding a mismatching object
  deriving Repr

/-- the mode bits survive a truncation -/
def protOf : Option Obj → Bool
  | some o => o.prot
  | none => false

def exec (s : S) : Step → S
  | .probeCreate oid =>
    -- `os.open(dst, O_WRONLY|O_CREAT|O_TRUNC)`: creates an empty file, or truncates what is there (the mode stays)
    { s with objs := s.objs.set oid { data := [], prot := protOf (s.objs.lookup oid) } }
  | .probeUnlink oid => { s with objs := s.objs.erase oid }      -- `os.unlink(dst)` after the clone ioctl failed
  | .tmpCreate t => { s with tmps := s.tmps.set t [] }
  | .append t c =>
    match s.tmps.lookup t with
    | some b => { s with tmps := s.tmps.set t (b ++ c) }
    | none => s
  | .rename t oid =>
    match s.tmps.lookup t with
    | some b => { s with tmps := s.tmps.erase t, objs := s.objs.set oid { data := b, prot := false } }
    | none => s
  | .protect oid =>
    match s.objs.lookup oid with
    | some o => { s with objs := s.objs.set oid { o with prot := true } }
    | none => s
  | .saveRow oid => if s.objs.contains oid then { s with rows := insertSet s.rows oid } else s
  | .remove oid => { s with objs := s.objs.erase oid, rows := s.rows.filter (· ≠ oid) }

def run (s : S) (steps : List Step) : S := steps.foldl exec s

/-- the steps of adding one object whose bytes arrive in the given chunks -/
def addSteps (oid : Oid) (t : Tmp) (chunks : List Bytes) : List Step :=
  [.probeCreate oid, .probeUnlink oid, .tmpCreate t] ++ chunks.map (.append t) ++
  [.rename t oid, .protect oid, .saveRow oid]

end DvcData.Crash
