import DvcData.Model.Basic
import DvcData.Model.Path
/-
  Model of staging and of what the object-store operations file under which name:
  `hashfile/build.py` (`_build_tree`: relative keys by string slicing, `_build_files`: the hash of
  each file's own content, `Tree.digest`), `db/__init__.py::add`, `transfer`, `index/save.py`,
  `db/migrate.py` (re-hash under the destination algorithm, re-append ".dir").
  `H` hashes file contents, `D` is the identifier of a directory listing (hash of its canonical
  serialisation, C03, plus ".dir").
-/
namespace DvcData.Build
open DvcData Path

abbrev Bytes := List UInt8
abbrev Oid := String

/-- `root[len(path) + 1 :].split(sep)` of `_build_tree` -/
def relKeyOf (path root : List Char) : Key :=
  if root = path then [] else splitC (root.drop (path.length + 1))

/-- what a store holds under a name -/
inductive Obj
  | file (data : Bytes)
  | tree (entries : List (Key × Oid))
  deriving DecidableEq, Repr

abbrev Store := AList Oid Obj

/-- `odb.add` with `check_exists=True`: an existing object is left alone -/
def addObj (s : Store) (oid : Oid) (o : Obj) : Store := if s.contains oid then s else s ++ [(oid, o)]

structure Staged where
  entries : List (Key × Oid)
  store : Store
  oid : Oid
  nfiles : Nat
  size : Nat

/-- `build(odb, path, fs, name)` of a directory followed by the transfer of the staged objects -/
def stage (H : Bytes → Oid) (D : List (Key × Oid) → Oid) (T : List (Key × Bytes)) (s : Store) : Staged :=
  let entries := T.map fun e => (e.1, H e.2)
  let s1 := T.foldl (fun st e => addObj st (H e.2) (.file e.2)) s
  let oid := D entries
  { entries, store := addObj s1 oid (.tree entries), oid, nfiles := T.length,
    size := (T.map (·.2.length)).foldl (· + ·) 0 }

/-- checkout into a fresh location: every listed path gets the bytes stored under its identifier -/
def materialise (s : Store) (entries : List (Key × Oid)) : Option (List (Key × Bytes)) :=
  entries.mapM fun e => match s.lookup e.2 with
    | some (.file d) => some (e.1, d)
    | _ => none

/-- the name an object ought to have -/
def nameOf (H : Bytes → Oid) (D : List (Key × Oid) → Oid) : Obj → Oid
  | .file d => H d
  | .tree es => D es

/-- every object is stored under the digest of its own content -/
def Addressed (H : Bytes → Oid) (D : List (Key × Oid) → Oid) (s : Store) : Prop :=
  ∀ oid o, (oid, o) ∈ s → oid = nameOf H D o

/-- the operations that put objects into stores -/
inductive Op
  | stageFile (data : Bytes)                       -- build + transfer of a single file
  | stageDir (T : List (Key × Bytes))              -- build + transfer of a directory
  | copyFrom (src : Store) (oids : List Oid)        -- transfer between stores / index save
  | migrateFrom (src : Store)                       -- re-hash every object of `src` under this store's algorithm

/-- re-hashing during migration: trees are re-listed under the new file names -/
def rehash (H : Bytes → Oid) (D : List (Key × Oid) → Oid) (src : Store) : Obj → Obj
  | .file d => .file d
  | .tree es => .tree (es.map fun e => match src.lookup e.2 with
      | some (.file d) => (e.1, H d)
      | _ => e)

def step (H : Bytes → Oid) (D : List (Key × Oid) → Oid) (s : Store) : Op → Store
  | .stageFile d => addObj s (H d) (.file d)
  | .stageDir T => (stage H D T s).store
  | .copyFrom src oids => oids.foldl (fun st oid => match src.lookup oid with
      | some o => addObj st oid o   -- `transfer` copies the object under the name it has in `src`
      | none => st) s
  | .migrateFrom src => src.foldl (fun st e => let o := rehash H D src e.2; addObj st (nameOf H D o) o) s

end DvcData.Build
