import DvcData.Model.Basic
/-
  Model of the counting in `index/fetch.py::fetch` for a remote that is a file storage (a plain directory) and a cache that
  is an object store: `md5(fs_index)` drops the entries whose source file is not there, `save(updated, on_error=...)` adds the
  rest to the cache (`cache.add` skips what the cache already holds and returns the number of objects that arrived), the error
  callback counts every copy that failed for another reason than a missing source.  `fetch` returns `(fetched, failed)`.
-/
namespace DvcData.Fetch
open DvcData

abbrev Oid := String

/-- what copying one object into the cache does -/
inductive Copy
  | ok        -- the object arrives
  | missing   -- the source is not there (`FileNotFoundError`): skipped without being counted
  | failed    -- any other error: reported through the error callback
  deriving DecidableEq, Repr

structure Item where
  oid : Oid
  copy : Copy
  deriving DecidableEq, Repr

structure Res where
  cache : List Oid
  fetched : Nat
  failed : Nat
  deriving DecidableEq, Repr

def step (r : Res) (it : Item) : Res :=
  if r.cache.contains it.oid then r
  else match it.copy with
    | .ok => { r with cache := r.cache ++ [it.oid], fetched := r.fetched + 1 }
    | .missing => r
    | .failed => { r with failed := r.failed + 1 }

/-- `fetch` of one collected index into `cache` -/
def fetch (cache : List Oid) (items : List Item) : Res :=
  items.foldl step { cache, fetched := 0, failed := 0 }

/-- the objects that had to move: available at the source and not yet in the cache -/
def hadToMove (cache : List Oid) (items : List Item) : List Item :=
  items.filter fun it => !cache.contains it.oid && it.copy != .missing

end DvcData.Fetch
