import DvcData.Model.Basic
/-
  Keys and their '/'-joined textual form (`"/".join(key)`, `relpath.split("/")`), on `List Char`
  so that the round trip can be proved without string-library lemmas.
  Mirrors tree.py:145-172 (`as_list`/`from_list`), serialize.py, build.py:279-283.
-/
namespace DvcData.Path

abbrev Part := List Char
abbrev Key := List Part

def sep : Char := '/'

/-- `"/".join(parts)` -/
def joinC : Key → List Char
  | [] => []
  | [p] => p
  | p :: q :: r => p ++ sep :: joinC (q :: r)

/-- `s.split("/")` (never returns the empty list: `"".split("/") == [""]`) -/
def splitC : List Char → Key
  | [] => [[]]
  | c :: r =>
    if c = sep then [] :: splitC r
    else match splitC r with
      | [] => [[c]]       -- unreachable
      | p :: ps => (c :: p) :: ps

/-- a key that survives the textual form: non-empty, no part contains '/' -/
def KeyOK (k : Key) : Prop := k ≠ [] ∧ ∀ p ∈ k, sep ∉ p

instance (k : Key) : Decidable (KeyOK k) := by unfold KeyOK; exact inferInstance

/-- `key[len(prefix):]` when `key` starts with `prefix` -/
def stripPrefix : Key → Key → Option Key
  | [], k => some k
  | _ :: _, [] => none
  | p :: ps, q :: qs => if p = q then stripPrefix ps qs else none

end DvcData.Path
