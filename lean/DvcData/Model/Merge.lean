import DvcData.Model.Basic
/-
  Model of `dvc_data.hashfile.tree._diff/_merge` (tree.py) on top of a model of
  `dictdiffer.diff/patch` restricted to what `_merge` feeds them: flat dictionaries whose
  values are atomic for dictdiffer (tuples are not MutableSequence, so they are compared
  with `==` and never recursed into).
-/
namespace DvcData.Merge
open DvcData

inductive Kind | add | remove | change
  deriving DecidableEq, Repr

/-- one flattened dictdiffer record (an `add`/`remove` record of dictdiffer carries a list of
    (key, value) pairs; applying it is applying the pairs one by one) -/
inductive Rec (κ ν : Type)
  | add (k : κ) (v : ν)
  | remove (k : κ)
  | change (k : κ) (v : ν)
  deriving DecidableEq, Repr

variable {κ ν : Type} [DecidableEq κ] [DecidableEq ν]

def Rec.kind : Rec κ ν → Kind
  | .add .. => .add | .remove .. => .remove | .change .. => .change

def Rec.key : Rec κ ν → κ
  | .add k _ => k | .remove k => k | .change k _ => k

/-- value of the key after the record has been applied -/
def Rec.value : Rec κ ν → Option ν
  | .add _ v => some v | .remove _ => none | .change _ v => some v

/-- `dictdiffer.diff(a, b)`: `change` for common keys with different values (order of `a`),
    then additions (order of `b`), then deletions (order of `a`). -/
def ddiff (a b : AList κ ν) : List (Rec κ ν) :=
  (a.filterMap fun p => match b.lookup p.1 with
      | some vb => if p.2 = vb then none else some (.change p.1 vb)
      | none => none)
  ++ (b.filterMap fun p => if a.contains p.1 then none else some (.add p.1 p.2))
  ++ (a.filterMap fun p => if b.contains p.1 then none else some (.remove p.1))

/-- one step of `dictdiffer.patch`; `none` is the `KeyError` of `del dest[key]` -/
def applyRec (d : AList κ ν) : Rec κ ν → Option (AList κ ν)
  | .add k v => some (d.set k v)
  | .change k v => some (d.set k v)
  | .remove k => if d.contains k then some (d.erase k) else none

def patch (rs : List (Rec κ ν)) (d : AList κ ν) : Option (AList κ ν) :=
  match rs with
  | [] => some d
  | r :: rest => match applyRec d r with
    | none => none
    | some d' => patch rest d'

inductive Outcome (κ ν : Type)
  | ok (r : AList κ ν)
  | mergeError
  deriving Repr, DecidableEq

/-- `if not allowed: allowed = ["add"]` -/
def effAllowed (allowed : List Kind) : List Kind := if allowed.isEmpty then [.add] else allowed

/-- `_diff(ancestor, other, allowed)` raises `MergeError` iff this is false -/
def allowedOk (allowed : List Kind) (rs : List (Rec κ ν)) : Bool :=
  rs.all fun r => (effAllowed allowed).contains r.kind

/-- Python `dict.__eq__` -/
def dictEq (x y : AList κ ν) : Bool :=
  x.keys.all (fun k => x.lookup k == y.lookup k) && y.keys.all (fun k => x.lookup k == y.lookup k)

/-- `_merge(ancestor, our, their, allowed)` (tree.py), after the F5 repair -/
def merge (allowed : List Kind) (a o t : AList κ ν) : Outcome κ ν :=
  let od := ddiff a o
  if !allowedOk allowed od then .mergeError else
  if od.isEmpty then .ok t else
  let td := ddiff a t
  if !allowedOk allowed td then .mergeError else
  if td.isEmpty then .ok o else
  match patch (od ++ td) a, patch (td ++ od) a with
  | some r1, some r2 => if dictEq r1 r2 then .ok r1 else .mergeError
  | _, _ => .mergeError

/-- the three-way rule per path; `none` = conflict -/
def threeWay (a o t : Option ν) : Option (Option ν) :=
  if o = t then some o else if o = a then some t else if t = a then some o else none

end DvcData.Merge
