import DvcData.Model.Crash
/-
  Concurrent writers (C16).  Each writer runs `LocalHashFileDB.add(path, fs, oid)` for one object:

    exists(oid)                     stat  [· read ·  (discard | vprotect)]      db/local.py:53-64, db/__init__.py:146-190
    generic.transfer                probe · unlink · create · write* · rename   dvc_objects (reflink attempt, then copy)
    refused probe (EACCES, non-root, protected target) → exists(oid) again       db/__init__.py (fix d703adc)
    protect · state.save_many       protect · save                               db/__init__.py:121-141

  A writer is a little state machine over a program counter; the shared state is `Crash.S`.  A
  schedule is a list of writer indices: `runSched` lets the named writer perform its next atomic
  step.  Quantifying over all schedules is quantifying over all interleavings.
-/
namespace DvcData.Conc
open DvcData Crash

inductive Pc
  | stat | read | discard | vprotect          -- existence / integrity check
  | probe | unlink | create | write           -- reflink attempt, then temp file + atomic rename
  | protect | save | done
  | restat | reread | rediscard | failed      -- existence check after a refused probe; `failed` = the add raises
  deriving DecidableEq, Repr

structure Thread where
  oid : Oid
  t : Tmp
  chunks : List Bytes       -- the object's bytes, in the pieces the copy loop writes them
  k : Nat := 0              -- pieces appended so far
  pc : Pc := .stat
  deriving Repr

/-- one atomic step of a writer.  `root`: the process may write to a read-only file (uid 0);
    `H`: the content hash. -/
def Thread.step (root : Bool) (H : Bytes → Oid) (s : S) (th : Thread) : S × Thread :=
  match th.pc with
  | .stat =>
    match s.objs.lookup th.oid with
    | none => (s, { th with pc := .probe })
    | some o => if o.prot then (s, { th with pc := .protect }) else (s, { th with pc := .read })
  | .read =>
    match s.objs.lookup th.oid with
    | none => (s, { th with pc := .probe })
    | some o => if H o.data = th.oid then (s, { th with pc := .vprotect }) else (s, { th with pc := .discard })
  | .discard => (exec s (.remove th.oid), { th with pc := .probe })
  | .vprotect => (exec s (.protect th.oid), { th with pc := .protect })
  | .probe =>
    match s.objs.lookup th.oid with
    | some o =>
      if o.prot && !root then (s, { th with pc := .restat })          -- EACCES: the target is read-only
      else (exec s (.probeCreate th.oid), { th with pc := .unlink })  -- O_TRUNC clobbers what is there
    | none => (exec s (.probeCreate th.oid), { th with pc := .unlink })
  | .unlink => (exec s (.probeUnlink th.oid), { th with pc := .create })
  | .create => (exec s (.tmpCreate th.t), { th with pc := .write, k := 0 })
  | .write =>
    match th.chunks[th.k]? with
    | some c => (exec s (.append th.t c), { th with k := th.k + 1 })
    | none => (exec s (.rename th.t th.oid), { th with pc := .protect })
  | .protect => (exec s (.protect th.oid), { th with pc := .save })
  | .save => (exec s (.saveRow th.oid), { th with pc := .done })
  | .done => (s, th)
  | .restat =>
    match s.objs.lookup th.oid with
    | none => (s, { th with pc := .failed })
    | some o => if o.prot then (s, { th with pc := .protect }) else (s, { th with pc := .reread })
  | .reread =>
    match s.objs.lookup th.oid with
    | none => (s, { th with pc := .failed })
    | some o => if H o.data = th.oid then (s, { th with pc := .vprotect }) else (s, { th with pc := .rediscard })
  | .rediscard => (exec s (.remove th.oid), { th with pc := .failed })
  | .failed => (s, th)

abbrev Cfg := S × List Thread

/-- writer `i` performs its next step (an index that names no writer is a stutter) -/
def stepAt (root : Bool) (H : Bytes → Oid) (c : Cfg) (i : Nat) : Cfg :=
  match c.2[i]? with
  | some th => let r := th.step root H c.1; (r.1, c.2.set i r.2)
  | none => c

def runSched (root : Bool) (H : Bytes → Oid) (c : Cfg) (sched : List Nat) : Cfg :=
  sched.foldl (stepAt root H) c

def Pc.terminal : Pc → Bool
  | .done | .failed => true
  | _ => false

/-- an upper bound on the number of steps a writer still takes (wait-freedom: `step_measure_lt`) -/
def Thread.measure (th : Thread) : Nat :=
  let L := th.chunks.length
  match th.pc with
  | .stat => L + 9 | .read => L + 8 | .discard => L + 7 | .probe => L + 6 | .unlink => L + 5 | .create => L + 4
  | .write => (L - th.k) + 3
  | .vprotect => 3 | .protect => 2 | .save => 1 | .done => 0
  | .restat => 5 | .reread => 4 | .rediscard => 1 | .failed => 0

end DvcData.Conc
