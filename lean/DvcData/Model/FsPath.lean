import DvcData.Model.Path
/-
  Model of the path handling of the read-only filesystem adaptor (`fs.py::DataFileSystem._get_key`): the path is made absolute
  against the root marker "/", normalised (`posixpath.normpath`: empty and "." components dropped, ".." pops a component and is
  dropped at the root), and split into the index key.
-/
namespace DvcData.FsPath
open DvcData Path

def dot : Part := ['.']
def dotdot : Part := ['.', '.']

/-- one path component, against the components kept so far -/
def stepComp (acc : Key) (c : Part) : Key :=
  if c = [] ∨ c = dot then acc
  else if c = dotdot then acc.dropLast
  else acc ++ [c]

/-- `DataFileSystem._get_key(path)` -/
def getKey (p : List Char) : Key := (splitC p).foldl stepComp []

/-- a component that survives normalisation -/
def CleanPart (c : Part) : Prop := c ≠ [] ∧ c ≠ dot ∧ c ≠ dotdot ∧ sep ∉ c

instance (c : Part) : Decidable (CleanPart c) := by unfold CleanPart; exact inferInstance

end DvcData.FsPath
