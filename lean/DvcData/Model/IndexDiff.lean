import DvcData.Model.MetaInfo
import DvcData.Model.Path
/-
  Model of `index/diff.py` (`_diff_meta`, `_diff_hash_info`, `_diff_entry`, `_diff`,
  `_detect_renames`, `diff`) over an index given as its explicit entries
  (`index/index.py`: trie nodes without a value are implicit directories).
-/
namespace DvcData.IndexDiff
open DvcData Path MetaInfo

abbrev Index := AList Key Entry

inductive Typ | add | modify | delete | unchanged | rename
  deriving DecidableEq, Repr

/-- `Meta.__eq__` (attrs): every field except `remote` (and the link fields, not modelled) -/
def metaEq (a b : Meta) : Bool := decide ({ a with remote := none } = { b with remote := none })

/-- how metadata are compared: full equality, or through checkout's `meta_cmp_key = (isdir, isexec)` -/
inductive Cmp | full | dirExec
  deriving DecidableEq, Repr

def cmpMeta : Cmp → Meta → Meta → Bool
  | .full, a, b => metaEq a b
  | .dirExec, a, b => a.isdir == b.isdir && a.isexec == b.isexec

/-- `_diff_meta` -/
def diffMeta (c : Cmp) : Option Meta → Option Meta → Typ
  | none, some _ => .add
  | some _, none => .delete
  | some a, some b => if cmpMeta c a b then .unchanged else .modify
  | none, none => .unchanged

def hiTruthy : Option HashInfo → Bool
  | some h => h.truthy
  | none => false

/-- `HashInfo.__eq__`: name and value -/
def hiEq (a b : HashInfo) : Bool := decide (a = b)

/-- `_diff_hash_info` -/
def diffHashInfo (o n : Option HashInfo) : Typ :=
  if !hiTruthy o && hiTruthy n then .add
  else if hiTruthy o && !hiTruthy n then .delete
  else match o, n with
    | some a, some b => if hiTruthy o && hiTruthy n && !hiEq a b then .modify else .unchanged
    | _, _ => .unchanged

structure Opts where
  withUnchanged : Bool := false
  hashOnly : Bool := false
  metaOnly : Bool := false
  shallow : Bool := false
  withRenames : Bool := false
  cmp : Cmp := .full
  deriving Repr

/-- presence of the entries themselves -/
def entryDiffOf (oldSome newSome : Bool) : Typ :=
  match oldSome, newSome with
  | false, true => .add
  | true, false => .delete
  | _, _ => .unchanged

/-- the decision chain of `_diff_entry` once the three partial verdicts are known -/
def decide3 (metaOnly hashOnly : Bool) (entryDiff metaDiff hiDiff : Typ) (oldMetaNone oldHashTruthy : Bool) : Typ :=
  if metaOnly then metaDiff
  else if hashOnly then hiDiff
  else if entryDiff ≠ .unchanged then entryDiff
  else if metaDiff = .unchanged ∧ oldMetaNone then hiDiff
  else if hiDiff = .unchanged ∧ !oldHashTruthy then metaDiff
  else if metaDiff = hiDiff ∧ hiDiff = entryDiff then metaDiff
  else .modify

/-- `_diff_entry` (without the `unknown` short-cut, which only lazy loading can trigger) -/
def diffEntry (o : Opts) (old new : Option Entry) : Typ :=
  let oh := old.bind (·.hashInfo)
  let nh := new.bind (·.hashInfo)
  let om := old.bind (·.mt)
  let nm := new.bind (·.mt)
  decide3 o.metaOnly o.hashOnly (entryDiffOf old.isSome new.isSome) (diffMeta o.cmp om nm)
    (diffHashInfo oh nh) om.isNone (hiTruthy oh)

/-! ### the trie view of an index -/

def hasNode (idx : Index) (k : Key) : Bool := idx.any fun e => k.isPrefixOf e.1

/-- `_info_from_entry` fixes up `entry.meta` to `Meta()` when only a hash is known -/
def fixMeta (e : Entry) : Entry :=
  match e.mt with
  | some _ => e
  | none => if hiTruthy e.hashInfo then { e with mt := some {} } else e

def entryIsDir (e : Entry) : Bool := match e.mt with | some m => m.isdir | none => false

structure Info where
  isDir : Bool
  entry : Option Entry
  deriving Repr

/-- `index.info(key)`; `none` = `KeyError` (no such node) -/
def infoAt (idx : Index) (k : Key) : Option Info :=
  if hasNode idx k then
    match idx.lookup k with
    | none => some { isDir := true, entry := none }
    | some e => let e' := fixMeta e; some { isDir := entryIsDir e', entry := some e' }
  else none

/-- names of the direct children of node `k`, in order of first appearance -/
def childNames (idx : Index) (k : Key) : List Part :=
  (idx.filterMap fun e => match stripPrefix k e.1 with
    | some (p :: _) => some p
    | _ => none).foldl insertSet []

/-- `dict(index.ls(key, detail=True))`, `{}` on `KeyError` -/
def lsAt (idx : Option Index) (k : Key) : List Key :=
  match idx with
  | none => []
  | some i => if hasNode i k then (childNames i k).map fun p => k ++ [p] else []

structure Change where
  typ : Typ
  old : Option (Key × Entry)
  new : Option (Key × Entry)
  deriving Repr, DecidableEq

def optInfo (idx : Option Index) (k : Key) : Option Info := idx.bind (infoAt · k)

/-- `_get_items`: the listing of `key` unless `shallow` stops at a hashed entry -/
def itemsOf (o : Opts) (idx : Option Index) (k : Key) (e : Option Entry) : List Key :=
  if o.shallow && (match e with | some e => hiTruthy e.hashInfo | none => false) then [] else lsAt idx k

def unionKeys (a b : List Key) : List Key := b.foldl insertSet a

def entryOf (idx : Option Index) (k : Key) : Option Entry := (optInfo idx k).bind (·.entry)

def infoIsDir (idx : Option Index) (k : Key) : Bool :=
  match optInfo idx k with | some i => i.isDir | none => false

/-- the change reported for node `k` itself (if any) -/
def hereOf (o : Opts) (old new : Option Index) (k : Key) : List Change :=
  let oe := entryOf old k
  let ne := entryOf new k
  let typ := diffEntry o oe ne
  if oe.isNone && ne.isNone then []
  else if typ = .unchanged && !o.withUnchanged then []
  else [{ typ, old := oe.map (k, ·), new := ne.map (k, ·) }]

/-- "skipping the whole branch since we know it is unchanged" -/
def skipOf (o : Opts) (old new : Option Index) (k : Key) : Bool :=
  o.hashOnly && !o.withUnchanged && diffEntry o (entryOf old k) (entryOf new k) = .unchanged &&
    (match entryOf old k with
      | some e => (match e.hashInfo with | some h => h.isdir | none => false)
      | none => false)

/-- the keys listed below `k` on either side -/
def childrenOf (o : Opts) (old new : Option Index) (k : Key) : List Key :=
  unionKeys (itemsOf o old k (entryOf old k)) (itemsOf o new k (entryOf new k))

/-- `_diff` from node `k` downwards (depth-first; the implementation is breadth-first, the
    multiset of changes is the same). `fuel` bounds the depth. -/
def diffAt (o : Opts) (old new : Option Index) : Nat → Key → List Change
  | 0, _ => []
  | f + 1, k =>
    hereOf o old new k ++
      (if skipOf o old new k then []
       else if infoIsDir old k || infoIsDir new k then (childrenOf o old new k).flatMap (diffAt o old new f)
       else [])

def maxDepth (idx : Option Index) : Nat :=
  match idx with | some i => i.foldl (fun m e => max m e.1.length) 0 | none => 0

def keyLe (a b : Key) : Bool := decide (a ≤ b)

def changeKey (c : Change) : Key :=
  match c.typ with
  | .add => (c.new.map (·.1)).getD []
  | .delete => (c.old.map (·.1)).getD []
  | _ => ((c.old.map (·.1)).orElse fun _ => c.new.map (·.1)).getD []

/-- pair additions with the oldest unmatched deletion of the same (truthy) hash -/
def pairRenames : List Change → List Change → List Change × List Change
  | [], dels => ([], dels)
  | a :: adds, dels =>
    let h := a.new.bind (·.2.hashInfo)
    let m := if hiTruthy h then dels.find? (fun d => (d.old.bind (·.2.hashInfo)) = h) else none
    match m with
    | some d =>
      let (out, rest) := pairRenames adds (dels.erase d)
      ({ typ := .rename, old := d.old, new := a.new } :: out, rest)
    | none =>
      let (out, rest) := pairRenames adds dels
      (a :: out, rest)

/-- `_detect_renames` -/
def detectRenames (cs : List Change) : List Change :=
  let adds := (cs.filter (·.typ = .add)).mergeSort fun a b => keyLe (changeKey a) (changeKey b)
  let dels := (cs.filter (·.typ = .delete)).mergeSort fun a b => keyLe (changeKey a) (changeKey b)
  let others := cs.filter fun c => c.typ ≠ .add ∧ c.typ ≠ .delete
  let (out, rest) := pairRenames adds dels
  others ++ out ++ rest

/-- `diff(old, new, **opts)` -/
def diff (o : Opts) (old new : Option Index) : List Change :=
  let fuel := max (maxDepth old) (maxDepth new) + 2
  let cs := diffAt o old new fuel []
  if o.withRenames && old.isSome && new.isSome then detectRenames cs else cs

end DvcData.IndexDiff
