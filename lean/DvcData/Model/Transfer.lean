import DvcData.Model.Status
/-
  Model of `hashfile/transfer.py`: `_add`, `_do_transfer` (with the F2/F3/F6 repairs) and `transfer`.
  The destination is kept as the *trace* of arrivals (initial contents ++ uploads in order), so that
  "the destination at crash cut k" is `dest.take k`.
-/
namespace DvcData.Transfer
open DvcData Status

variable {Oid : Type} [DecidableEq Oid]

structure Ctx (Oid : Type) where
  /-- entries of a directory object as loaded by `find_tree_by_obj_id` (`[]` for files) -/
  L : Oid → List Oid
  isDir : Oid → Bool
  /-- the upload (or, under `verify`, the post-copy verification) of this object fails -/
  fails : Oid → Bool
  /-- `status.missing`: absent from both sides -/
  missing : List Oid

structure St (Oid : Type) where
  dest : List Oid          -- destination contents in arrival order
  pending : List Oid       -- `file_ids` not yet bound to a directory
  failed : List Oid
  okDirs : List Oid := []  -- `succeeded_dir_objs`
  deriving Repr

/-- `_add(src, dest, ids)`: try every object, in some order; successes arrive in `dest`,
    failures are returned -/
def addAll (cx : Ctx Oid) : List Oid → List Oid → List Oid × List Oid
  | dest, [] => (dest, [])
  | dest, x :: xs =>
    if cx.fails x then
      let (d, f) := addAll cx dest xs
      (d, x :: f)
    else addAll cx (dest ++ [x]) xs

/-- one iteration of the per-directory loop of `_do_transfer` -/
def stepDir (cx : Ctx Oid) (s : St Oid) (d : Oid) : St Oid :=
  let entries := cx.L d
  let bound := s.pending.filter (· ∈ entries)
  let pending := s.pending.filter (· ∉ entries)
  let (dest, df) := addAll cx s.dest bound
  if df ≠ [] ∨ entries.any (· ∈ s.failed) then
    { s with dest, pending, failed := s.failed ++ df ++ [d] }
  else if entries.any (· ∈ cx.missing) then
    { s with dest, pending, failed := s.failed ++ [d] }
  else if cx.fails d then
    { s with dest, pending, failed := s.failed ++ [d] }
  else
    { s with dest := dest ++ [d], pending, okDirs := s.okDirs ++ [d] }

/-- `_do_transfer`: directories in the (arbitrary) order `dirs`, then "insert the rest" -/
def doTransfer (cx : Ctx Oid) (s : St Oid) (dirs : List Oid) : St Oid :=
  let s := dirs.foldl (stepDir cx) s
  let (dest, f) := addAll cx s.dest s.pending
  { s with dest, pending := [], failed := s.failed ++ f }

/-- a set of objects is closed: a directory object implies every file it lists -/
def Closed (cx : Ctx Oid) (d : List Oid) : Prop :=
  ∀ t ∈ d, cx.isDir t = true → ∀ f ∈ cx.L t, f ∈ d

structure Result (Oid : Type) where
  transferred : List Oid
  failed : List Oid
  dest : List Oid                      -- arrival trace of the destination
  destIndex : Option (RIndex Oid)
  srcIndexCleared : Bool
  deriving Inhabited

/-- index the successfully pushed directories (only when nothing failed) -/
def indexDirs (cx : Ctx Oid) (idx : RIndex Oid) (dirs : List Oid) : RIndex Oid :=
  dirs.foldl (fun i d => i.update d (cx.L d)) idx

/-- `transfer(src, dest, obj_ids, ...)` given the outcome of `compare_status` (`new`, `missing`),
    a processing order for the new directories and a failure predicate -/
def transferWith (cx : Ctx Oid) (dest0 : List Oid) (new : List Oid) (destIndex : Option (RIndex Oid))
    (dirOrder : List Oid) : Result Oid :=
  if new.isEmpty then
    { transferred := [], failed := [], dest := dest0, destIndex, srcIndexCleared := false }
  else
    let files := new.filter fun x => !cx.isDir x
    let s := doTransfer cx { dest := dest0, pending := files, failed := [] } dirOrder
    let failed := dedup s.failed
    if failed.isEmpty then
      { transferred := new, failed := [], dest := s.dest,
        destIndex := destIndex.map fun i => indexDirs cx i s.okDirs, srcIndexCleared := false }
    else
      { transferred := diff new failed, failed, dest := s.dest, destIndex, srcIndexCleared := true }

end DvcData.Transfer
