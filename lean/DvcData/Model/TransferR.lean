import DvcData.Model.Transfer
/-
  `_do_transfer` when the listing of a new directory object cannot be read (`find_tree_by_obj_id` finds it in neither
  `cache_odb` nor the source: damaged yet trusted, or gone since the status query): the `assert dir_obj` fails and the
  transfer gives up - no result is returned; what has arrived so far stays in the destination.
-/
namespace DvcData.Transfer
open DvcData Status

variable {Oid : Type} [DecidableEq Oid]

/-- the per-directory loop with unreadable listings: `none` = the transfer gave up at a directory it could not read -/
def loopR (cx : Ctx Oid) (readable : Oid → Bool) : List Oid → St Oid → Option (St Oid)
  | [], s => some s
  | d :: r, s => if readable d then loopR cx readable r (stepDir cx s d) else none

/-- `_do_transfer` with unreadable listings -/
def doTransferR (cx : Ctx Oid) (readable : Oid → Bool) (s : St Oid) (dirs : List Oid) : Option (St Oid) :=
  (loopR cx readable dirs s).map fun s =>
    let (dest, f) := addAll cx s.dest s.pending
    { s with dest, pending := [], failed := s.failed ++ f }

/-- what is in the destination when the transfer gives up: the arrivals of the directories processed before -/
def destAtGiveUp (cx : Ctx Oid) (readable : Oid → Bool) : List Oid → St Oid → List Oid
  | [], s => s.dest
  | d :: r, s => if readable d then destAtGiveUp cx readable r (stepDir cx s d) else s.dest

end DvcData.Transfer
