/-
  Basic finite-map vocabulary of the model: association lists with "first binding wins"
  lookup.  Import-free (core only) so that the driver links natively.
-/
namespace DvcData

/-- association list used for every dictionary / store / trie of the model -/
abbrev AList (κ : Type) (ν : Type) := List (κ × ν)

namespace AList
variable {κ ν : Type} [DecidableEq κ]

def lookup (d : AList κ ν) (k : κ) : Option ν :=
  match d with
  | [] => none
  | (k', v) :: r => if k' = k then some v else lookup r k

def contains (d : AList κ ν) (k : κ) : Bool := (lookup d k).isSome

def erase (d : AList κ ν) (k : κ) : AList κ ν := d.filter (fun p => p.1 ≠ k)

/-- Python `d[k] = v`: replaces the value, keeps the position of an existing key,
    appends a new key at the end (insertion order is observable through iteration). -/
def set (d : AList κ ν) (k : κ) (v : ν) : AList κ ν :=
  match d with
  | [] => [(k, v)]
  | (k', v') :: r => if k' = k then (k, v) :: r else (k', v') :: set r k v

def keys (d : AList κ ν) : List κ := d.map (·.1)

/-- well-formed: no key bound twice -/
def WF (d : AList κ ν) : Prop := (keys d).Nodup

instance (d : AList κ ν) : Decidable (WF d) := inferInstanceAs (Decidable (List.Nodup _))

@[simp] theorem lookup_nil (k : κ) : lookup ([] : AList κ ν) k = none := rfl

theorem lookup_cons (k' : κ) (v : ν) (r : AList κ ν) (k : κ) :
    lookup ((k', v) :: r) k = if k' = k then some v else lookup r k := rfl

theorem lookup_set (d : AList κ ν) (k : κ) (v : ν) (k2 : κ) :
    lookup (set d k v) k2 = if k = k2 then some v else lookup d k2 := by
  induction d with
  | nil => simp [set, lookup_cons]
  | cons p r ih =>
    obtain ⟨k', v'⟩ := p
    simp only [set]
    by_cases h : k' = k
    · subst h; simp only [if_true, lookup_cons]
      by_cases h2 : k' = k2 <;> simp [h2]
    · simp only [h, if_false, lookup_cons, ih]
      by_cases h2 : k' = k2
      · subst h2
        have : ¬ k = k' := fun e => h e.symm
        simp [this]
      · simp [h2]

theorem lookup_erase (d : AList κ ν) (k k2 : κ) :
    lookup (erase d k) k2 = if k = k2 then none else lookup d k2 := by
  induction d with
  | nil => simp [erase]
  | cons p r ih =>
    obtain ⟨k', v'⟩ := p
    unfold erase at ih ⊢
    simp only [List.filter]
    by_cases h : k' = k
    · subst h
      simp only [ne_eq, not_true_eq_false, decide_false, ih, lookup_cons]
      by_cases h2 : k' = k2 <;> simp [h2]
    · simp only [ne_eq, h, not_false_eq_true, decide_true, lookup_cons, ih]
      by_cases h2 : k' = k2
      · subst h2
        have : ¬ k = k' := fun e => h e.symm
        simp [this]
      · simp [h2]

theorem lookup_isSome_iff_mem_keys (d : AList κ ν) (k : κ) :
    (lookup d k).isSome = true ↔ k ∈ keys d := by
  induction d with
  | nil => simp [keys]
  | cons p r ih =>
    obtain ⟨k', v'⟩ := p
    simp only [lookup_cons, keys, List.map_cons, List.mem_cons]
    by_cases h : k' = k
    · subst h; simp
    · simp only [h, if_false]
      unfold keys at ih
      rw [ih]
      constructor
      · intro hm; exact Or.inr hm
      · intro hm
        rcases hm with e | hm
        · exact absurd e.symm h
        · exact hm

end AList

/-- duplicate-free insertion into a list used as a set -/
def insertSet {α : Type} [DecidableEq α] (s : List α) (x : α) : List α :=
  if x ∈ s then s else s ++ [x]

end DvcData
