import DvcData.Model.State
/-
  Model of the integrity check of an object store: `HashFileDB.check` (db/__init__.py:140-184),
  `LocalHashFileDB.check/protect/oids_exist` (db/local.py) and the verifying `add`.
  The hash-state cache is the model of `State`; an object is its bytes, its stamp and whether its
  mode is exactly 0o444 ("protected").
-/
namespace DvcData.Store
open DvcData State

abbrev Oid := String

structure Obj where
  data : Bytes
  prot : Bool
  stamp : Stamp
  deriving DecidableEq, Repr

abbrev Store := AList Oid Obj

/-- the files of the store as the hash-state cache sees them (keyed by object name) -/
def fsOf (st : Store) : Fs := st.map fun e => (e.1, { bytes := e.2.data, stamp := e.2.stamp })

/-- `value.split(".")[0]` -/
def strip (v : String) : String := String.ofList (v.toList.takeWhile (· ≠ '.'))

inductive CheckRes | ok | notFound | corrupt
  deriving DecidableEq, Repr

/-- `check(oid, check_hash=True)`; `localClass` = `LocalHashFileDB` (mode test first, protect on success) -/
def check (H : Algo → Bytes → Digest) (localClass : Bool) (name : Algo) (db : Db) (st : Store) (oid : Oid) :
    CheckRes × Store × Db :=
  match st.lookup oid with
  | none => (.notFound, st, db)
  | some o =>
    if localClass && o.prot then (.ok, st, db)
    else match hashFile H db (fsOf st) true oid name with
      | none => (.notFound, st, db)
      | some (v, db') =>
        if strip v ≠ strip oid then (.corrupt, st.erase oid, db')
        else (.ok, if localClass then st.set oid { o with prot := true } else st, db')

/-- `LocalHashFileDB.oids_exist`: every queried object is checked; corrupt ones are dropped -/
def oidsExistLocal (H : Algo → Bytes → Digest) (name : Algo) : List Oid → Db → Store → List Oid × Store × Db
  | [], db, st => ([], st, db)
  | x :: r, db, st =>
    let (res, st1, db1) := check H true name db st x
    let (found, st2, db2) := oidsExistLocal H name r db1 st1
    (if res = .ok then x :: found else found, st2, db2)

/-- `add(path, fs, oid, verify=True)` of one object whose source bytes are `data`: copy under a
    fresh stamp (when not already present), then verify and protect -/
def addVerify (H : Algo → Bytes → Digest) (localClass : Bool) (name : Algo) (db : Db) (st : Store)
    (oid : Oid) (data : Bytes) (s : Stamp) : CheckRes × Store × Db :=
  -- pre-check: a mismatching object already there is removed first
  let (_, st0, db0) := check H localClass name db st oid
  let st1 := if st0.contains oid then st0 else st0.set oid { data, prot := false, stamp := s }
  check H localClass name db0 st1 oid

/-- one object of `add(paths, fs, oids, check_exists=False)` (how `transfer()` adds) without verification: `src = none` -
    the copy fails (source gone, unreadable, upload error) and is reported through `on_error`: whatever sits at that path
    is neither protected nor recorded in the hash state (F21). Otherwise the bytes arrive under a fresh stamp replacing what
    is there, are protected in a local store, and the name is recorded for them. -/
def addOne (localClass : Bool) (name : Algo) (acc : List Oid × Store × Db) (x : Oid × Option (Bytes × Stamp)) :
    List Oid × Store × Db :=
  let (failed, st, db) := acc
  match x.2 with
  | none => (failed ++ [x.1], st, db)
  | some (data, s) =>
    let st1 := st.set x.1 { data, prot := localClass, stamp := s }
    (failed, st1, State.save db (fsOf st1) x.1 name x.1)

/-- the batch: returns the oids reported as failed -/
def addBatch (localClass : Bool) (name : Algo) (db : Db) (st : Store) (xs : List (Oid × Option (Bytes × Stamp))) :
    List Oid × Store × Db :=
  xs.foldl (addOne localClass name) ([], st, db)

end DvcData.Store
