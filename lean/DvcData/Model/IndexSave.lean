import DvcData.Model.IndexDiff
import DvcData.Model.Tree
/-
  Model of `index/save.py`: `build_tree` (the listing of a directory entry: every non-directory
  entry strictly below the prefix, re-rooted, with its metadata and hash; size and file count) and
  `_save_dir_entry` / the directory loop of `save` (each directory entry gets the identifier of the
  listing of the files below it, `Meta(size, nfiles, isdir=True, md5=<oid>)` and
  `HashInfo("md5", <oid>)`).  The file objects themselves are added by `cache.add` (C01's `copyFrom`).
-/
namespace DvcData.IndexSave
open DvcData Path MetaInfo IndexDiff

/-- `entry.meta and entry.meta.isdir` -/
def isDirEntry (e : Entry) : Bool := match e.mt with | some m => m.isdir | none => false

/-- `build_tree(index, prefix)`: the `Tree._dict` collected from `index.iteritems(prefix)` -/
def treeBelow (idx : Index) (k : Key) : Tree.Tree :=
  idx.filterMap fun e =>
    match stripPrefix k e.1 with
    | some (p :: rest) => if isDirEntry e.2 then none else some (p :: rest, (e.2.mt, e.2.hashInfo))
    | _ => none

/-- `tree_meta.size += (entry.meta.size if entry.meta else 0) or 0` -/
def sizeOfVal (v : Tree.TVal) : Nat :=
  match v.1 with
  | some m => (match m.size with | some n => n | none => 0)
  | none => 0

def treeSize (t : Tree.Tree) : Nat := (t.map fun e => sizeOfVal e.2).foldl (· + ·) 0

/-- the entry `_save_dir_entry` leaves at a directory key -/
def savedDirEntry (H : List Char → Str) (idx : Index) (k : Key) (e : Entry) : Entry :=
  let t := treeBelow idx k
  let oid := Tree.digest H t
  { mt := some { isdir := true, size := some (treeSize t), nfiles := some t.length, md5 := some oid },
    hashInfo := some { name := some kMd5, value := some oid },
    loaded := e.loaded }

/-- the directory loop of `save(index, odb)`: every directory entry is re-written, file entries are
    left alone (a directory's listing skips directory entries, so the order of the loop is immaterial) -/
def saveDirs (H : List Char → Str) (idx : Index) : Index :=
  idx.map fun e => if isDirEntry e.2 then (e.1, savedDirEntry H idx e.1 e.2) else e

/-- the identifiers of the objects `save` hands to `cache.add`: each hashed file entry under its recorded value -/
def fileOids (idx : Index) : List Str :=
  idx.filterMap fun e =>
    if isDirEntry e.2 then none
    else match e.2.hashInfo with
      | some h => if h.truthy then h.value else none
      | none => none

end DvcData.IndexSave
