import DvcData.Model.MetaInfo
import DvcData.Model.Path
/-
  `index/serialize.py`: the '/'-joined textual forms of an index (JSON file, key-value DB), and
  the SQLite-backed trie (`DataIndexTrie`: key parts stored as such, value = JSON of `to_dict`).
-/
namespace DvcData.Serialize
open DvcData Path MetaInfo

abbrev Index := AList Key Entry

/-- `{"/".join(key): entry.to_dict() for key, entry in index.iteritems()}` -/
def writeJoined (idx : Index) : AList (List Char) EntryDict :=
  idx.map fun p => (joinC p.1, p.2.toDict)

/-- `entry = from_dict(value); entry.key = tuple(key.split("/")); index.add(entry)` -/
def readJoined (d : AList (List Char) EntryDict) : Option Index :=
  d.mapM fun p => (Entry.fromDict p.2).map fun e => (splitC p.1, e)

/-- the SQLite-backed form keeps the key parts as they are (so the empty root key is fine) -/
def writeTrie (idx : Index) : AList Key EntryDict := idx.map fun p => (p.1, p.2.toDict)

def readTrie (d : AList Key EntryDict) : Option Index :=
  d.mapM fun p => (Entry.fromDict p.2).map fun e => (p.1, e)

end DvcData.Serialize
