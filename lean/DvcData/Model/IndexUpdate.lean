import DvcData.Model.IndexDiff
/-
  Model of `index/update.py` (as repaired by F26): the metadata-only diff of the previous index against the freshly built
  one, with unchanged entries; the old hash is carried over to an unchanged *file* entry, and to an unchanged *directory*
  entry only when no change that is not "unchanged" was reported strictly below it (a directory's own stat record says
  nothing about the files below it).
-/
namespace DvcData.IndexUpdate
open DvcData Path MetaInfo IndexDiff

def uOpts : Opts := { metaOnly := true, withUnchanged := true }

/-- `key[:idx] for idx in range(len(key))` -/
def properPrefixes (k : Key) : List Key := (List.range k.length).map fun i => k.take i

/-- the set `dirty`: every proper prefix of the key of a change that is not "unchanged" -/
def dirtyKeys (cs : List Change) : List Key :=
  (cs.filter fun c => decide (c.typ ≠ .unchanged)).flatMap fun c => properPrefixes (changeKey c)

/-- `change.new.meta and change.new.meta.isdir` -/
def newIsDir (c : Change) : Bool := match c.new with | some (_, e) => entryIsDir e | none => false

/-- the hashes carried over: key of the new entry ↦ the old entry's hash -/
def carriedOf (cs : List Change) : AList Key (Option HashInfo) :=
  cs.filterMap fun c =>
    if c.typ = .unchanged then
      match c.old, c.new with
      | some (_, o), some (k, _) =>
          if newIsDir c && (dirtyKeys cs).contains k then none else some (k, o.hashInfo)
      | _, _ => none
    else none

/-- `update(new, old)`: the new index with the carried hashes written in -/
def update (old new : Index) : Index :=
  let car := carriedOf (diff uOpts (some old) (some new))
  new.map fun e => match AList.lookup car e.1 with
    | some h => (e.1, { e.2 with hashInfo := h })
    | none => e

end DvcData.IndexUpdate
