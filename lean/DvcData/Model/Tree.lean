import DvcData.Model.Path
import DvcData.Model.MetaInfo
/-
  `Tree` (tree.py): the `_dict` of a directory object, its canonical listing `as_list`,
  its serialisation `as_bytes`, `digest`, `from_list`, `filter`/`get_obj`.
-/
namespace DvcData.Tree
open DvcData Path Json MetaInfo

abbrev TVal := Option Meta × Option HashInfo
/-- `Tree._dict`, in insertion order -/
abbrev Tree := AList Key TVal

def md5Name : Str := kMd5
def dos2unixName : Str := ['m','d','5','-','d','o','s','2','u','n','i','x']
def relpathKey : Str := ['r','e','l','p','a','t','h']

/-- `_hi_to_dict` of `as_list` -/
def hiToDict : Option HashInfo → JObj
  | none => []
  | some h =>
    if !h.truthy then []
    else if h.name = some dos2unixName then
      match h.value with | some v => [(md5Name, .str v)] | none => []
    else h.toDict

/-- `{**meta.to_dict(), **hi_dict, "relpath": "/".join(parts)}` -/
def entryDict (withMeta : Bool) (e : Key × TVal) : JObj :=
  let d0 : JObj := if withMeta then (match e.2.1 with | some m => m.toDict | none => []) else []
  let d1 := (hiToDict e.2.2).foldl (fun d p => d.set p.1 p.2) d0
  d1.set relpathKey (.str (joinC e.1))

/-- `as_list`: one dict per entry, sorted by relpath (stable sort on the relpath only) -/
def asList (withMeta : Bool) (t : Tree) : List JObj :=
  ((t.map fun e => (joinC e.1, entryDict withMeta e)).mergeSort fun a b => charsLe a.1 b.1).map (·.2)

/-- `as_bytes` (the text is pure ASCII because of `ensure_ascii`, so bytes = characters) -/
def asBytes (withMeta : Bool) (t : Tree) : List Char := renderList (asList withMeta t)

/-- `digest()`: the identifier is the hash of the listing *without* metadata, plus ".dir" -/
def digest (H : List Char → Str) (t : Tree) : Str := H (asBytes false t) ++ dirSuffix

/-- one entry of `from_list` -/
def entryOfDict (hashName : Option Str) (d : JObj) : Option (Key × TVal) :=
  match d.lookup relpathKey with
  | some (.str rp) =>
    let rest := d.erase relpathKey
    let mt := Meta.fromDict rest
    match hashName with
    | some hn =>
      let metaName := if hn = dos2unixName then md5Name else hn
      -- `getattr(meta, meta_name)`: only attributes of Meta exist
      let v : Option (Option Str) :=
        if metaName = md5Name then some mt.md5
        else if metaName = kEtag then some mt.etag
        else if metaName = kChecksum then some mt.checksum
        else none
      match v with
      | some v => some (splitC rp, (some mt, some { name := some hn, value := v }))
      | none => none
    | none =>
      match HashInfo.fromDict rest with
      | some hi => some (splitC rp, (some mt, some hi))
      | none => none
  | _ => none

/-- `Tree.from_list` (later entries overwrite earlier ones with the same key) -/
def fromList (hashName : Option Str) (l : List JObj) : Option Tree :=
  l.foldlM (fun t d => (entryOfDict hashName d).map fun e => t.set e.1 e.2) []

/-- entries below `pfx`, re-rooted (`get_obj` when `pfx` is not itself an entry) -/
def subtree (t : Tree) (pfx : Key) : Tree :=
  t.filterMap fun e => match stripPrefix pfx e.1 with
    | some k => if k = [] then none else some (k, e.2)
    | none => none

/-- `Tree.filter(prefix)`: entries at or below `pfx`, keys unchanged -/
def filter (t : Tree) (pfx : Key) : Tree :=
  t.filter fun e => (stripPrefix pfx e.1).isSome

end DvcData.Tree
