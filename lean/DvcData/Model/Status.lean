import DvcData.Model.Basic
/-
  Model of `hashfile/status.py` (`status`, `_indexed_dir_hashes`, `compare_status`),
  `hashfile/db/index.py` (`ObjectDBIndex`) and `hashfile/gc.py`.

  Object identifiers are an arbitrary type with decidable equality; whether an identifier
  names a directory object (`value.endswith(".dir")`) is the parameter `isDir`.
  Stores and indexes are duplicate-free lists used as sets.
-/
namespace DvcData.Status
open DvcData

variable {Oid : Type} [DecidableEq Oid]

def union (a b : List Oid) : List Oid := b.foldl insertSet a
def inter (a b : List Oid) : List Oid := a.filter (· ∈ b)
def diff (a b : List Oid) : List Oid := a.filter (· ∉ b)
def dedup (a : List Oid) : List Oid := union [] a

/-- `ObjectDBIndex`: hash → is_dir -/
structure RIndex (Oid : Type) where
  dirs : List Oid := []
  files : List Oid := []

def RIndex.keys (i : RIndex Oid) : List Oid := i.dirs ++ i.files
def RIndex.mem (i : RIndex Oid) (x : Oid) : Bool := x ∈ i.dirs || x ∈ i.files
/-- `index.update([dir], files)` : `index[dir] = True`, then `index[f] = False` for every file -/
def RIndex.update (i : RIndex Oid) (d : Oid) (fs : List Oid) : RIndex Oid :=
  { dirs := (insertSet i.dirs d).filter (· ∉ fs),
    files := union (i.files.filter (· ≠ d)) fs }

structure Env (Oid : Type) where
  isDir : Oid → Bool
  /-- `Tree.load(cache_odb, oid)`: the identifiers listed by a directory object; `none` when it
      cannot be loaded from the cache store (`FileNotFoundError`) -/
  load : Oid → Option (List Oid)

inductive Res (α : Type)
  | ok (a : α)
  | notFound           -- `FileNotFoundError` escaping from `Tree.load`
  deriving Repr

structure StatusOut (Oid : Type) where
  exist : List Oid
  missing : List Oid
  index : Option (RIndex Oid)

/-- first loop of `status`: the identifiers to query (`hash_infos` keys, in insertion order) and
    `dir_objs` (only filled when an index is used) -/
def collect (env : Env Oid) (shallow useIndex : Bool) : List Oid → List Oid → List (Oid × Option (List Oid)) →
    Res (List Oid × List (Oid × Option (List Oid)))
  | [], hs, ds => .ok (hs, ds)
  | x :: r, hs, ds =>
    if env.isDir x then
      if shallow then
        collect env shallow useIndex r (insertSet hs x) (if useIndex then ds ++ [(x, none)] else ds)
      else
        match env.load x with
        | none => .notFound
        | some es =>
          collect env shallow useIndex r (insertSet (union hs es) x) (if useIndex then ds ++ [(x, some es)] else ds)
    else collect env shallow useIndex r (insertSet hs x) ds

/-- the tree used for an existing directory: the one loaded while collecting, else `Tree.load` -/
def treeOf (env : Env Oid) (dirObjs : List (Oid × Option (List Oid))) (d : Oid) : Option (List Oid) :=
  match (dirObjs.find? (·.1 = d)).bind (·.2) with
  | some es => some es
  | none => env.load d

/-- "If .dir hash exists in the ODB, assume directory contents also exists" (one directory) -/
def idhStep (env : Env Oid) (dirObjs : List (Oid × Option (List Oid)))
    (acc : List Oid × RIndex Oid) (d : Oid) : List Oid × RIndex Oid :=
  match treeOf env dirObjs d with
  | none => acc
  | some fs => (acc.1 ++ fs ++ [d], if acc.2.mem d then acc.2 else acc.2.update d fs)

/-- the directories considered present by `_indexed_dir_hashes` -/
def dirExistsOf (store : List Oid) (index : RIndex Oid) (dirObjs : List (Oid × Option (List Oid))) : List Oid :=
  let dirHashes := dedup (dirObjs.map (·.1))
  let indexedDirExists := inter index.dirs store
  let dirExists0 := inter dirHashes indexedDirExists
  union dirExists0 (inter (diff dirHashes dirExists0) store)

/-- the index after validation: cleared when an indexed directory is gone from the store -/
def validated (store : List Oid) (index : RIndex Oid) : RIndex Oid :=
  if (diff index.dirs (inter index.dirs store)).isEmpty then index else {}

/-- `_indexed_dir_hashes`: returns the identifiers assumed present and the updated index -/
def indexedDirHashes (env : Env Oid) (store : List Oid) (index : RIndex Oid)
    (dirObjs : List (Oid × Option (List Oid))) : List Oid × RIndex Oid :=
  (dirExistsOf store index dirObjs).foldl (idhStep env dirObjs) ([], validated store index)

/-- `status(odb, obj_ids, index=..., cache_odb=..., shallow=...)` for a non-memory store -/
def status (env : Env Oid) (store : List Oid) (index : Option (RIndex Oid)) (shallow : Bool)
    (req : List Oid) : Res (StatusOut Oid) :=
  match collect env shallow index.isSome req [] [] with
  | .notFound => .notFound
  | .ok (hashes, dirObjs) =>
    match index with
    | some idx =>
      if hashes.isEmpty then .ok { exist := [], missing := [], index := some idx } else
      -- the index is validated whether or not the request names a directory (repaired: a request of files only used to
      -- skip the validation and trust a stale index)
      let (ex1, idx1, rest1) :=
          let (assumed, idx') := indexedDirHashes env store idx dirObjs
          let ex := inter hashes assumed
          (ex, idx', diff hashes ex)
      let ex2 := if rest1.isEmpty then ex1 else union ex1 (inter rest1 idx1.keys)
      let rest2 := diff rest1 ex2
      let ex3 := union ex2 (inter rest2 store)
      .ok { exist := ex3, missing := diff rest2 ex3, index := some idx1 }
    | none =>
      let ex := inter hashes store
      .ok { exist := ex, missing := diff hashes ex, index := none }

/-- staged objects in the memory filesystem are assumed to exist (`status.py:131-133`) -/
def statusMem (env : Env Oid) (shallow : Bool) (req : List Oid) : Res (StatusOut Oid) :=
  match collect env shallow false req [] [] with
  | .notFound => .notFound
  | .ok (hashes, _) => .ok { exist := hashes, missing := [], index := none }

structure Compare (Oid : Type) where
  ok : List Oid
  missing : List Oid
  new : List Oid
  deleted : List Oid
  destIndex : Option (RIndex Oid)

/-- `compare_status(src, dest, obj_ids, check_deleted, dest_index=..., cache_odb=src, shallow=...)`;
    `srcMem` = the source is a memory-fs staging store -/
def compareStatus (envCache envSrc : Env Oid) (src dest : List Oid) (srcMem : Bool)
    (destIndex : Option (RIndex Oid)) (shallow checkDeleted : Bool) (req : List Oid) : Res (Compare Oid) :=
  match status envCache dest destIndex shallow req with
  | .notFound => .notFound
  | .ok d =>
    if !d.missing.isEmpty || checkDeleted then
      match (if srcMem then statusMem envSrc shallow req else status envSrc src none shallow req) with
      | .notFound => .notFound
      | .ok s =>
        .ok { ok := inter s.exist d.exist, missing := inter s.missing d.missing,
              new := diff s.exist d.exist, deleted := diff d.exist s.exist, destIndex := d.index }
    else
      .ok { ok := d.exist, missing := [], new := [], deleted := [], destIndex := d.index }

/-! ### garbage collection (`gc.py`) -/

inductive GcRes (Oid : Type)
  | permission                       -- read-only store refused
  | notFound                         -- used directory cannot be loaded for expansion
  | ok (removed : Nat) (store : List Oid)
  deriving Repr, DecidableEq

/-- the identifiers protected by `used` (pairs of algorithm name and value) -/
def gcUsed {Name : Type} [DecidableEq Name] (env : Env Oid) (hashName : Name) (shallow : Bool) :
    List (Name × Oid) → List Oid → Option (List Oid)
  | [], acc => some acc
  | (n, v) :: r, acc =>
    if n ≠ hashName then gcUsed env hashName shallow r acc
    else if env.isDir v && !shallow then
      match env.load v with
      | none => none
      | some es => gcUsed env hashName shallow r (union (insertSet acc v) es)
    else gcUsed env hashName shallow r (insertSet acc v)

def gc {Name : Type} [DecidableEq Name] (env : Env Oid) (hashName : Name) (readOnly shallow dry : Bool)
    (store : List Oid) (used : List (Name × Oid)) : GcRes Oid :=
  if readOnly then .permission else
  match gcUsed env hashName shallow used [] with
  | none => .notFound
  | some keep =>
    let unused := store.filter (· ∉ keep)
    let dirPaths := unused.filter env.isDir
    let filePaths := unused.filter (fun o => !env.isDir o)
    let n := dirPaths.length + filePaths.length
    if dry then .ok n store
    else .ok n (store.filter fun o => o ∉ dirPaths ∧ o ∉ filePaths)

/-- the `<oid>.dir.unpacked` leftovers of DVC 1.x next to directory objects of a local store: a real run takes the one of
    every directory object it removes along (`_remove_unpacked_dir`); a dry run, a refused run and a run that fails to
    expand a used directory touch none -/
def gcLeftovers {Name : Type} [DecidableEq Name] (env : Env Oid) (hashName : Name) (readOnly shallow dry : Bool)
    (store : List Oid) (used : List (Name × Oid)) (extras : List Oid) : List Oid :=
  if dry then extras else
  match gc env hashName readOnly shallow dry store used with
  | .ok _ st => extras.filter fun o => !(store.contains o && env.isDir o) || st.contains o
  | _ => extras

end DvcData.Status
