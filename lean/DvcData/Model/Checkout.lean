import DvcData.Model.Basic
import DvcData.Model.Path
/-
  Model of the object-level checkout: `hashfile/diff.py` (`diff`, `Change.typ`),
  `hashfile/checkout.py` (`_diff`, `_determine_files_to_relink`, `_needs_relink`, `_remove`,
  `_relink`, `_checkout_file`, `_checkout`), for a directory target whose paths agree in kind
  with the workspace. A workspace file is the identifier of its content plus how it is linked.
-/
namespace DvcData.Checkout
open DvcData Path

abbrev Oid := String

inductive LinkKind | copy | hardlink | symlink
  deriving DecidableEq, Repr

structure WFile where
  oid : Oid                 -- identifier of the current bytes (what a dry re-staging computes)
  link : LinkKind
  toCache : Bool := true    -- for links: does it point at the cache object of `oid`
  deriving DecidableEq, Repr

abbrev Ws := AList Key WFile
abbrev Target := AList Key Oid

structure Cfg where
  force : Bool
  relink : Bool
  /-- `none`: no prompt callback; `some b`: the callback answers `b` -/
  prompt : Option Bool
  /-- the configured cache types, e.g. [hardlink, copy]; the first one that works is used -/
  types : List LinkKind
  deriving Repr

/-- `_needs_relink(path, cache, meta, cache_meta, oid)` -/
def needsRelink (types : List LinkKind) (f : WFile) (cacheKnown : Bool) : Bool :=
  match types with
  | [] => true
  | t :: rest =>
    match t, f.link with
    | .copy, .copy => false
    | .hardlink, .hardlink => if cacheKnown then !f.toCache else needsRelink rest f cacheKnown
    | .symlink, .symlink => !f.toCache
    | _, _ => needsRelink rest f cacheKnown

inductive Outcome
  | ok (changed : Bool)
  | promptError (path : Key)
  | checkoutError (paths : List Key)
  | unreadable                       -- FileNotFoundError from reading the existing workspace (a link to nothing in it)
  deriving DecidableEq, Repr

def inCache (cache : List Oid) (o : Oid) : Bool := cache.contains o

/-- `_remove`: `none` = PromptError -/
def guardedRemove (cfg : Cfg) (cache : List Oid) (ws : Ws) (k : Key) (f : WFile) : Option Ws :=
  if !cfg.force && !inCache cache f.oid then
    (if cfg.prompt = some true then some (ws.erase k) else none)
  else some (ws.erase k)

def linkKindOf (cfg : Cfg) : LinkKind := cfg.types.headD .copy

/-- is the entry scheduled for (re)creation: added, modified, or (per mode) relinked / re-fetched -/
def needsWork (cfg : Cfg) (cache : List Oid) (old : Option WFile) (newOid : Oid) : Bool :=
  match old with
  | none => true
  | some f =>
    if f.oid ≠ newOid then true
    else if cfg.relink then needsRelink cfg.types f (inCache cache newOid)
    else !inCache cache newOid

/-- one added/modified entry of `_checkout`: returns the workspace, and whether it failed -/
def checkoutEntry (cfg : Cfg) (cache : List Oid) (st : Ws × List Key) (e : Key × Oid) :
    Option (Ws × List Key) :=
  let (ws, failed) := st
  let link (w : Ws) : Ws × List Key :=
    if inCache cache e.2 then (w.set e.1 { oid := e.2, link := linkKindOf cfg, toCache := true }, failed)
    else (w, failed ++ [e.1])
  match ws.lookup e.1 with
  | none => some (link ws)
  | some f =>
    if cfg.relink && f.link = .copy && f.oid = e.2 && linkKindOf cfg = .copy then some (ws, failed)  -- unprotect
    else match guardedRemove cfg cache ws e.1 f with
      | none => none
      | some w => some (link w)

structure Result where
  outcome : Outcome
  ws : Ws
  deriving Repr

/-- the deletion phase; stops at the first refusal (the workspace keeps what was done so far) -/
def delAll (cfg : Cfg) (cache : List Oid) : List Key → Ws → Option Key × Ws
  | [], w => (none, w)
  | k :: r, w =>
    match w.lookup k with
    | none => delAll cfg cache r w
    | some f =>
      match guardedRemove cfg cache w k f with
      | none => (some k, w)
      | some w' => delAll cfg cache r w'

/-- the added/modified phase -/
def workAll (cfg : Cfg) (cache : List Oid) : List (Key × Oid) → Ws × List Key → Option Key × (Ws × List Key)
  | [], st => (none, st)
  | e :: r, st =>
    match checkoutEntry cfg cache st e with
    | none => (some e.1, st)
    | some st' => workAll cfg cache r st'

def deletedOf (ws : Ws) (target : Target) (delOrder : List Key) : List Key :=
  delOrder.filter fun k => (ws.lookup k).isSome && (target.lookup k).isNone

def workOf (cfg : Cfg) (cache : List Oid) (ws : Ws) (target : Target) (workOrder : List Key) : List (Key × Oid) :=
  workOrder.filterMap fun k =>
    match target.lookup k with
    | some o => if needsWork cfg cache (ws.lookup k) o then some (k, o) else none
    | none => none

/-- `checkout(path, fs, obj, cache, force, relink, prompt)`; `delOrder`/`workOrder` are the
    (arbitrary) iteration orders of the diff lists -/
def checkout (cfg : Cfg) (cache : List Oid) (ws : Ws) (target : Target)
    (delOrder : List Key) (workOrder : List Key) : Result :=
  let deleted := deletedOf ws target delOrder
  let work := workOf cfg cache ws target workOrder
  if deleted.isEmpty && work.isEmpty then { outcome := .ok false, ws } else
  match delAll cfg cache deleted ws with
  | (some k, w) => { outcome := .promptError k, ws := w }
  | (none, w1) =>
    match workAll cfg cache work (w1, []) with
    | (some k, (w, _)) => { outcome := .promptError k, ws := w }
    | (none, (w2, failed)) =>
      if failed.isEmpty then { outcome := .ok (!cfg.relink), ws := w2 }
      else { outcome := .checkoutError failed, ws := w2 }

/-- `checkout` as called: the existing workspace is read first (`_diff` stages it with `dry_run`); when that fails
    although the path exists — `broken`: a symbolic link to nothing among its files — the error is passed on and nothing
    is touched (only a workspace that is not there counts as empty) -/
def checkoutFrom (cfg : Cfg) (cache : List Oid) (ws : Ws) (broken : Bool) (target : Target)
    (delOrder : List Key) (workOrder : List Key) : Result :=
  if broken then { outcome := .unreadable, ws } else checkout cfg cache ws target delOrder workOrder

end DvcData.Checkout

namespace DvcData.Links
/-
  `State.get_unused_links` / `remove_links` (state.py): links recorded by checkout as
  (inode, mtime-token); `cur p` is what the workspace shows now (`none` = path is gone).
-/
abbrev Path := String
abbrev Stamp := Nat × String     -- (inode, mtime or mtime-token of the tree)

/-- `get_unused_links(used, fs)` -/
def unusedLinks (links : List (Path × Stamp)) (used : List Path) (cur : Path → Option Stamp) : List Path :=
  (links.filter fun l => !used.contains l.1 && (cur l.1 == some l.2)).map (·.1)

/-- `remove_links(unused, fs)`: the paths go away, and so do their records -/
def removeLinks (links : List (Path × Stamp)) (unused : List Path) : List (Path × Stamp) :=
  links.filter fun l => !unused.contains l.1

end DvcData.Links
