import DvcData.Model.Basic
import DvcData.Model.Path
/-
  Model of lazy directory loading in `index/index.py` (`DataIndex.__getitem__`, `_load`,
  `_load_from_object_storage`, `iteritems`, `ls`, `info`), of filtered views (`index/view.py`)
  and of the key-level part of the read-only filesystem adaptor (`fs.py`).

  An index holds explicit entries; a directory entry carrying the identifier of a directory
  object and not yet `loaded` stands for the files that object lists.
-/
namespace DvcData.IndexLazy
open DvcData Path

abbrev Oid := String
abbrev Listing := List (Key × Oid)          -- relative key → file identifier

structure LEntry where
  isdir : Bool
  hash : Option Oid
  loaded : Bool
  deriving DecidableEq, Repr

abbrev LIndex := AList Key LEntry

/-- the proper, non-empty prefixes of the listing's keys: the sub-directories a `.dir` object
    does not mention (`_load_from_object_storage` creates entries for them) -/
def dirsOf (l : Listing) : List Key :=
  (l.flatMap fun e => (List.range (e.1.length - 1)).map fun i => e.1.take (i + 1)).foldl insertSet []

/-- the entries `_load_from_object_storage` adds below `d` -/
def childrenOf (d : Key) (l : Listing) : LIndex :=
  (l.map fun e => (d ++ e.1, ({ isdir := false, hash := some e.2, loaded := false } : LEntry))) ++
  ((dirsOf l).map fun p => (d ++ p, ({ isdir := true, hash := none, loaded := true } : LEntry)))

def setAll (idx : LIndex) (es : LIndex) : LIndex := es.foldl (fun i c => i.set c.1 c.2) idx

/-- `DataIndex._load(key, entry)` -/
def loadAt (load : Oid → Option Listing) (idx : LIndex) (d : Key) : LIndex :=
  match idx.lookup d with
  | some e =>
    if e.isdir && !e.loaded then
      match e.hash.bind load with
      | some l => (setAll idx (childrenOf d l)).set d { e with loaded := true }
      | none => idx      -- the directory object is unavailable: `onerror`, nothing changes
    else idx
  | none => idx

/-- `trie.longest_prefix(key)`: the longest key with a value that is a prefix of `key` -/
def longestPrefix (idx : LIndex) (k : Key) : Option Key :=
  idx.foldl (fun best e =>
    if e.1.isPrefixOf k then
      match best with
      | some b => if b.length < e.1.length then some e.1 else best
      | none => some e.1
    else best) none

/-- `DataIndex.__getitem__` (returns the index after loading and the entry; `none` = `KeyError`) -/
def getItem (load : Oid → Option Listing) (idx : LIndex) (k : Key) : LIndex × Option LEntry :=
  match idx.lookup k with
  | some e => (idx, some e)
  | none =>
    let idx' := match longestPrefix idx k with
      | some d => loadAt load idx d
      | none => idx
    (idx', idx'.lookup k)

/-- loading everything: what `index.load()` / a full iteration leaves behind -/
def expand (load : Oid → Option Listing) (idx : LIndex) : LIndex :=
  (idx.map (·.1)).foldl (loadAt load) idx

/-- `iteritems(prefix)`: load what the prefix needs, then every entry at or below the prefix
    (loading each unloaded directory met on the way) -/
def iterItems (load : Oid → Option Listing) (idx : LIndex) (pfx : Key) : LIndex × List (Key × LEntry) :=
  let idx1 := match longestPrefix idx pfx with
    | some d => if pfx = [] then idx else loadAt load idx d
    | none => idx
  let idx2 := ((idx1.filter fun e => pfx.isPrefixOf e.1).map (·.1)).foldl (loadAt load) idx1
  (idx2, idx2.filter fun e => pfx.isPrefixOf e.1)

/-- `ls(key)`: names of the direct children (after making sure `key` itself is loaded) -/
def lsAt (load : Oid → Option Listing) (idx : LIndex) (k : Key) : LIndex × Option (List Key) :=
  let (idx1, _) := getItem load idx k
  let idx2 := loadAt load idx1 k
  let hasNode := idx2.any fun e => k.isPrefixOf e.1
  if !hasNode then (idx2, none) else
  (idx2, some ((idx2.filterMap fun e => match stripPrefix k e.1 with
      | some (p :: _) => some (k ++ [p])
      | _ => none).foldl insertSet []))

/-- the observable projection of an entry: kind and hash (not the bookkeeping flag) -/
def proj (e : LEntry) : Bool × Option Oid := (e.isdir, e.hash)

/-- a filtered view: `DataIndexView` exposes the entries whose keys satisfy the filter -/
def viewItems (load : Oid → Option Listing) (idx : LIndex) (f : Key → Bool) : List (Key × LEntry) :=
  ((expand load idx).filter fun e => f e.1)

/-- a filtered view iterated under a prefix (`DataIndexView.iteritems(prefix)`): the directory object the prefix lies in is
    loaded first (as `DataIndex.iteritems` does), then whatever the filter accepts at or below the prefix -/
def viewIter (load : Oid → Option Listing) (idx : LIndex) (f : Key → Bool) (pfx : Key) : LIndex × List (Key × LEntry) :=
  let r := iterItems load idx pfx
  (r.1, r.2.filter fun e => f e.1)

end DvcData.IndexLazy
