import DvcData.Model.Json
/-
  `Meta` (meta.py), `HashInfo` (hash_info.py) and `DataIndexEntry` (index/index.py:29-69):
  the fields and the `to_dict` / `from_dict` conversions.
-/
namespace DvcData.MetaInfo
open DvcData Json

abbrev Str := List Char

/-- the fields of `Meta` that take part in serialisation or comparison -/
structure Meta where
  isdir : Bool := false
  size : Option Nat := none
  nfiles : Option Nat := none
  isexec : Bool := false
  versionId : Option Str := none
  etag : Option Str := none
  checksum : Option Str := none
  md5 : Option Str := none
  inode : Option Nat := none
  mtime : Option Nat := none        -- modelled as an opaque stamp
  remote : Option Str := none
  deriving DecidableEq, Repr

structure HashInfo where
  name : Option Str := none
  value : Option Str := none
  deriving DecidableEq, Repr

/-- `bool(hash_info)` -/
def HashInfo.truthy (h : HashInfo) : Bool :=
  match h.value with | some v => !v.isEmpty | none => false

def endsWithDir (v : Str) : Bool := ".dir".toList.isSuffixOf v

def HashInfo.isdir (h : HashInfo) : Bool :=
  match h.value with | some v => !v.isEmpty && endsWithDir v | none => false

def truthyStr : Option Str → Bool
  | some s => !s.isEmpty
  | none => false

def optStr (k : String) : Option Str → JObj
  | some s => if s.isEmpty then [] else [(k.toList, .str s)]
  | none => []

def optNat (k : String) : Option Nat → JObj
  | some n => [(k.toList, .int n)]
  | none => []

def optTrue (k : String) (b : Bool) : JObj := if b then [(k.toList, .bool true)] else []

/-- `Meta.to_dict` (insertion order as in the source) -/
def Meta.toDict (m : Meta) : JObj :=
  optTrue "isdir" m.isdir ++ optNat "size" m.size ++ optNat "nfiles" m.nfiles ++
  optTrue "isexec" m.isexec ++ optStr "version_id" m.versionId ++ optStr "etag" m.etag ++
  optStr "checksum" m.checksum ++ optStr "md5" m.md5 ++ optStr "remote" m.remote

def getStr (d : JObj) (k : String) : Option Str :=
  match d.lookup k.toList with | some (.str s) => some s | _ => none
def getNat (d : JObj) (k : String) : Option Nat :=
  match d.lookup k.toList with | some (.int n) => some n | _ => none
def getBool (d : JObj) (k : String) : Bool :=
  match d.lookup k.toList with | some (.bool b) => b | _ => false

/-- `Meta.from_dict` restricted to well-typed dictionaries -/
def Meta.fromDict (d : JObj) : Meta :=
  { isdir := getBool d "isdir", size := getNat d "size", nfiles := getNat d "nfiles",
    isexec := getBool d "isexec", versionId := getStr d "version_id", etag := getStr d "etag",
    checksum := getStr d "checksum", md5 := getStr d "md5", inode := getNat d "inode",
    mtime := getNat d "mtime", remote := getStr d "remote" }

/-- what survives serialisation: falsy strings become `None`, inode/mtime are not written -/
def Meta.norm (m : Meta) : Meta :=
  let n (o : Option Str) : Option Str := match o with | some s => if s.isEmpty then none else some s | none => none
  { m with versionId := n m.versionId, etag := n m.etag, checksum := n m.checksum, md5 := n m.md5,
           remote := n m.remote, inode := none, mtime := none }

/-- `HashInfo.to_dict` -/
def HashInfo.toDict (h : HashInfo) : JObj :=
  match h.name, h.value with
  | some n, some v => if v.isEmpty || n.isEmpty then [] else [(n, .str v)]
  | _, _ => []

/-- `HashInfo.from_dict` (a dictionary with exactly one string item, or empty) -/
def HashInfo.fromDict (d : JObj) : Option HashInfo :=
  match d with
  | [] => some {}
  | [(n, .str v)] => some { name := some n, value := some v }
  | _ => none      -- `((name, value),) = d.items()` raises ValueError

structure Entry where
  mt : Option Meta := none
  hashInfo : Option HashInfo := none
  loaded : Option Bool := none
  deriving DecidableEq, Repr

/-- nested value of `DataIndexEntry.to_dict()` -/
structure EntryDict where
  mt : Option JObj
  hashInfo : Option JObj
  loaded : Option Bool
  deriving DecidableEq, Repr

def Entry.toDict (e : Entry) : EntryDict :=
  { mt := e.mt.map Meta.toDict,                       -- `if self.meta:` (an attrs object is truthy)
    hashInfo := match e.hashInfo with
      | some h => if h.truthy then some h.toDict else none  -- `if self.hash_info:`
      | none => none,
    loaded := e.loaded }

def Entry.fromDict (d : EntryDict) : Option Entry :=
  let mt := match d.mt with
    | some m => if m.isEmpty then none else some (Meta.fromDict m)    -- `if meta:` (empty dict is falsy)
    | none => none
  match d.hashInfo with
  | some h =>
    if h.isEmpty then some { mt, hashInfo := none, loaded := d.loaded }
    else match HashInfo.fromDict h with
      | some hi => some { mt, hashInfo := some hi, loaded := d.loaded }
      | none => none
  | none => some { mt, hashInfo := none, loaded := d.loaded }

/-- the serialisable projection of an entry (C20's notion of "the same entry") -/
def Entry.proj (e : Entry) : JObj × JObj × Option Bool :=
  ((e.mt.map Meta.toDict).getD [],
   (match e.hashInfo with | some h => h.toDict | none => []),
   e.loaded)

end DvcData.MetaInfo
