import DvcData.Model.Json
/-
  `Meta` (meta.py), `HashInfo` (hash_info.py) and `DataIndexEntry` (index/index.py:29-69):
  the fields and the `to_dict` / `from_dict` conversions.
-/
namespace DvcData.MetaInfo
open DvcData Json

abbrev Str := List Char

/-! dictionary keys, as explicit character lists (so that `decide` can compare them) -/
def kIsdir : Str := ['i','s','d','i','r']
def kSize : Str := ['s','i','z','e']
def kNfiles : Str := ['n','f','i','l','e','s']
def kIsexec : Str := ['i','s','e','x','e','c']
def kVersionId : Str := ['v','e','r','s','i','o','n','_','i','d']
def kEtag : Str := ['e','t','a','g']
def kChecksum : Str := ['c','h','e','c','k','s','u','m']
def kMd5 : Str := ['m','d','5']
def kRemote : Str := ['r','e','m','o','t','e']
def kInode : Str := ['i','n','o','d','e']
def kMtime : Str := ['m','t','i','m','e']

/-- the fields of `Meta` that take part in serialisation or comparison -/
structure Meta where
  isdir : Bool := false
  size : Option Nat := none
  nfiles : Option Nat := none
  isexec : Bool := false
  versionId : Option Str := none
  etag : Option Str := none
  checksum : Option Str := none
  md5 : Option Str := none
  inode : Option Nat := none
  mtime : Option Nat := none        -- modelled as an opaque stamp
  remote : Option Str := none
  deriving DecidableEq, Repr

structure HashInfo where
  name : Option Str := none
  value : Option Str := none
  deriving DecidableEq, Repr

/-- `bool(hash_info)` -/
def HashInfo.truthy (h : HashInfo) : Bool :=
  match h.value with | some v => !v.isEmpty | none => false

def dirSuffix : Str := ['.','d','i','r']
def endsWithDir (v : Str) : Bool := dirSuffix.isSuffixOf v

def HashInfo.isdir (h : HashInfo) : Bool :=
  match h.value with | some v => !v.isEmpty && endsWithDir v | none => false

def truthyStr : Option Str → Bool
  | some s => !s.isEmpty
  | none => false

def optStr (k : Str) : Option Str → JObj
  | some s => if s.isEmpty then [] else [(k, .str s)]
  | none => []

def optNat (k : Str) : Option Nat → JObj
  | some n => [(k, .int n)]
  | none => []

def optTrue (k : Str) (b : Bool) : JObj := if b then [(k, .bool true)] else []

/-- `Meta.to_dict` (insertion order as in the source) -/
def Meta.toDict (m : Meta) : JObj :=
  optTrue kIsdir m.isdir ++ optNat kSize m.size ++ optNat kNfiles m.nfiles ++
  optTrue kIsexec m.isexec ++ optStr kVersionId m.versionId ++ optStr kEtag m.etag ++
  optStr kChecksum m.checksum ++ optStr kMd5 m.md5 ++ optStr kRemote m.remote

def getStr (d : JObj) (k : Str) : Option Str :=
  match d.lookup k with | some (.str s) => some s | _ => none
def getNat (d : JObj) (k : Str) : Option Nat :=
  match d.lookup k with | some (.int n) => some n | _ => none
def getBool (d : JObj) (k : Str) : Bool :=
  match d.lookup k with | some (.bool b) => b | _ => false

/-- `Meta.from_dict` restricted to well-typed dictionaries -/
def Meta.fromDict (d : JObj) : Meta :=
  { isdir := getBool d kIsdir, size := getNat d kSize, nfiles := getNat d kNfiles,
    isexec := getBool d kIsexec, versionId := getStr d kVersionId, etag := getStr d kEtag,
    checksum := getStr d kChecksum, md5 := getStr d kMd5, inode := getNat d kInode,
    mtime := getNat d kMtime, remote := getStr d kRemote }

/-- what survives serialisation: falsy strings become `None`, inode/mtime are not written -/
def normStr (o : Option Str) : Option Str :=
  match o with | some s => if s.isEmpty then none else some s | none => none

def Meta.norm (m : Meta) : Meta :=
  { m with versionId := normStr m.versionId, etag := normStr m.etag, checksum := normStr m.checksum,
           md5 := normStr m.md5, remote := normStr m.remote, inode := none, mtime := none }

/-- `HashInfo.to_dict` -/
def HashInfo.toDict (h : HashInfo) : JObj :=
  match h.name, h.value with
  | some n, some v => if v.isEmpty || n.isEmpty then [] else [(n, .str v)]
  | _, _ => []

/-- `HashInfo.from_dict` (a dictionary with exactly one string item, or empty) -/
def HashInfo.fromDict (d : JObj) : Option HashInfo :=
  match d with
  | [] => some {}
  | [(n, .str v)] => some { name := some n, value := some v }
  | _ => none      -- `((name, value),) = d.items()` raises ValueError

structure Entry where
  mt : Option Meta := none
  hashInfo : Option HashInfo := none
  loaded : Option Bool := none
  deriving DecidableEq, Repr

/-- nested value of `DataIndexEntry.to_dict()` -/
structure EntryDict where
  mt : Option JObj
  hashInfo : Option JObj
  loaded : Option Bool
  deriving DecidableEq, Repr

def Entry.toDict (e : Entry) : EntryDict :=
  { mt := e.mt.map Meta.toDict,                       -- `if self.meta:` (an attrs object is truthy)
    hashInfo := match e.hashInfo with
      | some h => if h.truthy then some h.toDict else none  -- `if self.hash_info:`
      | none => none,
    loaded := e.loaded }

/-- `meta = d.get("meta"); if meta: ret.meta = Meta.from_dict(meta)` (an empty dict is falsy) -/
def metaOfDict? (d : Option JObj) : Option Meta :=
  match d with
  | some m => if m.isEmpty then none else some (Meta.fromDict m)
  | none => none

def Entry.fromDict (d : EntryDict) : Option Entry :=
  let mt := metaOfDict? d.mt
  match d.hashInfo with
  | some h =>
    if h.isEmpty then some { mt, hashInfo := none, loaded := d.loaded }
    else match HashInfo.fromDict h with
      | some hi => some { mt, hashInfo := some hi, loaded := d.loaded }
      | none => none
  | none => some { mt, hashInfo := none, loaded := d.loaded }

/-- the serialisable projection of an entry (C20's notion of "the same entry") -/
def Entry.proj (e : Entry) : JObj × JObj × Option Bool :=
  ((e.mt.map Meta.toDict).getD [],
   (match e.hashInfo with | some h => h.toDict | none => []),
   e.loaded)

end DvcData.MetaInfo
