import DvcData.Model.IndexDiff
/-
  Model of `index/checkout.py`: `_compare` (diff → five action lists) and `apply`
  (delete files, rmdir deepest-first, makedirs, create files from the cache, chmod),
  over a workspace given as a map from keys to nodes.
-/
namespace DvcData.IndexCheckout
open DvcData Path MetaInfo IndexDiff

inductive Node
  | file (oid : Str) (exec : Bool)
  | dir
  deriving DecidableEq, Repr

abbrev Ws := AList Key Node

structure Actions where
  filesDelete : List (Key × Entry) := []
  dirsDelete : List (Key × Entry) := []
  filesCreate : List (Key × Entry) := []
  dirsCreate : List (Key × Entry) := []
  filesChmod : List (Key × Entry) := []
  deriving Repr

def isDirE (e : Entry) : Bool := match e.mt with | some m => m.isdir | none => false
def isExecE (e : Entry) : Bool := match e.mt with | some m => m.isexec | none => false

def addCreate (a : Actions) (p : Key × Entry) : Actions :=
  if isDirE p.2 then { a with dirsCreate := a.dirsCreate ++ [p] }
  else { a with filesCreate := a.filesCreate ++ [p],
                filesChmod := if isExecE p.2 then a.filesChmod ++ [p] else a.filesChmod }

def addDelete (a : Actions) (p : Key × Entry) : Actions :=
  if isDirE p.2 then { a with dirsDelete := a.dirsDelete ++ [p] }
  else { a with filesDelete := a.filesDelete ++ [p] }

/-- one change of `_compare` (relink = False) -/
def newHasNode (new : Option Index) (k : Key) : Bool :=
  match new with | some i => hasNode i k | none => false

def stepChange (delete : Bool) (new : Option Index) (a : Actions) (c : Change) : Actions :=
  match c.typ, c.old, c.new with
  | .add, _, some n => addCreate a n
  | .delete, some o, _ =>
    if !delete then a
    else if isDirE o.2 && newHasNode new o.1 then a   -- still an implicit directory of the target (F9)
    else addDelete a o
  | .modify, some o, some n =>
    if o.2.hashInfo ≠ n.2.hashInfo ∨ isDirE o.2 ≠ isDirE n.2 then
      if isDirE o.2 && isDirE n.2 then a
      else addCreate (addDelete a o) n
    else if isExecE o.2 ≠ isExecE n.2 ∧ !isDirE n.2 then { a with filesChmod := a.filesChmod ++ [n] }
    else a
  | _, _, _ => a

/-- `compare(old, new, delete=...)`: the diff uses `meta_cmp_key = (isdir, isexec)` -/
def compare (delete : Bool) (old new : Option Index) : Actions :=
  (IndexDiff.diff { cmp := .dirExec } old new).foldl (stepChange delete new) {}

/-! ### the workspace -/

def properPrefix (p k : Key) : Bool := p.isPrefixOf k && p.length < k.length

/-- `fs.remove(path)`: a file is unlinked, a directory is removed with everything below it -/
def removePath (ws : Ws) (k : Key) : Ws := ws.filter fun e => !(k.isPrefixOf e.1)

/-- `fs.rmdir(path)` with errors ignored: only an existing, empty directory goes away -/
def rmdir (ws : Ws) (k : Key) : Ws :=
  if ws.lookup k = some .dir ∧ !(ws.any fun e => properPrefix k e.1) then ws.erase k else ws

/-- deepest first (the F4 repair) -/
def deepestFirst (ds : List Key) : List Key := ds.mergeSort fun a b => decide (b.length ≤ a.length)

inductive Outcome
  | ok (ws : Ws) (errors : List Key)
  | crash (what : String)
  deriving Repr

def prefixes (k : Key) : List Key := (List.range k.length).map fun i => k.take (i + 1)

/-- `os.makedirs(path, exist_ok=True)`: `none` when a file is in the way -/
def makedirs (ws : Ws) (k : Key) : Option Ws :=
  (prefixes k).foldlM (fun w p =>
    match w.lookup p with
    | some .dir => some w
    | some (.file ..) => none
    | none => some (w ++ [(p, .dir)])) ws

/-- create one file from the cache: `put_file` makes the parents, copies to a temp name and
    renames over the target; an unavailable source, a directory at the target or a file among the
    parents is reported through `onerror` -/
def createFile (cache : List Str) (acc : Ws × List Key) (p : Key × Entry) : Ws × List Key :=
  let (ws, errs) := acc
  match p.2.hashInfo with
  | none => (ws, errs ++ [p.1])
  | some h =>
    match h.value with
    | none => (ws, errs ++ [p.1])
    | some oid =>
      if !h.truthy then (ws, errs ++ [p.1]) else
      match makedirs ws p.1.dropLast with
      | none => (ws, errs ++ [p.1])
      | some ws1 =>
        if !(cache.contains oid) then (ws1, errs ++ [p.1])
        else match ws1.lookup p.1 with
          | some .dir => (ws1, errs ++ [p.1])
          | _ => (ws1.set p.1 (.file oid false), errs)

def chmodFile (ws : Ws) (p : Key × Entry) : Ws :=
  match ws.lookup p.1 with
  | some (.file oid _) => ws.set p.1 (.file oid true)
  | _ => ws

/-- `apply(diff, path, fs, onerror=..., update_meta=False)` with the copy link type -/
def apply (cache : List Str) (a : Actions) (ws : Ws) : Outcome :=
  let ws1 := a.filesDelete.foldl (fun w p => removePath w p.1) ws
  let ws2 := (deepestFirst (a.dirsDelete.map (·.1))).foldl rmdir ws1
  match (a.dirsCreate.map (·.1)).foldlM makedirs ws2 with
  | none => .crash "makedirs"
  | some ws3 =>
    let (ws4, errs) := a.filesCreate.foldl (createFile cache) (ws3, [])
    .ok (a.filesChmod.foldl chmodFile ws4) errs

/-- the index entry `md5(build(ws))` records for a workspace node -/
def nodeEntry : Node → Entry
  | .dir => { mt := some { isdir := true }, hashInfo := none, loaded := some true }
  | .file oid ex => { mt := some { isexec := ex }, hashInfo := some { name := some kMd5, value := some oid }, loaded := none }

/-- the hashed index of a workspace (`md5(build(ws))`): an explicit entry for every node -/
def indexOfWs (ws : Ws) : Index := ws.map fun e => (e.1, nodeEntry e.2)

end DvcData.IndexCheckout
