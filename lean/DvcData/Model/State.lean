import DvcData.Model.Basic
/-
  Model of the hash-state cache: `hashfile/state.py` (`State.save/get/_get/save_many/get_many`),
  `hashfile/cache.py` (`HashesCache.get_many` batching by 999), `hashfile/hash.py::hash_file`
  (cache consulted first, entry of another algorithm ignored) and `index/update.py`.

  Files are nodes `(bytes, stamp)`, a stamp being what `_checksum` tokenises: `(ino, mtime, size)`.
  The hash functions are a parameter `H : Algo → Bytes → Digest`.
-/
namespace DvcData.State
open DvcData

abbrev Bytes := List UInt8
abbrev Path := String
abbrev Algo := String
abbrev Digest := String

structure Stamp where
  ino : Nat
  mtime : Nat
  size : Nat
  deriving DecidableEq, Repr

structure Node where
  bytes : Bytes
  stamp : Stamp
  deriving DecidableEq, Repr

abbrev Fs := AList Path Node

/-- one row of the `hashes` table (the JSON entry written by `State.save`) -/
structure Row where
  version : Option Nat        -- `None` for entries written by old releases
  checksum : Stamp            -- what `_checksum(info)` tokenised (the token is injective, see trusted base)
  size : Nat
  algo : Algo                 -- `hash_info.to_dict()` = {algo: value}
  value : Digest
  deriving DecidableEq, Repr

abbrev Db := AList Path Row

def HASH_VERSION : Nat := 1

/-- `State.save(path, fs, hash_info)` for a local filesystem (no-op when the file is gone) -/
def save (db : Db) (fs : Fs) (p : Path) (algo : Algo) (value : Digest) : Db :=
  match fs.lookup p with
  | none => db
  | some n => db.set p { version := some HASH_VERSION, checksum := n.stamp, size := n.stamp.size, algo, value }

/-- `State._get`: the entry hits iff the stamp is unchanged and the format is not newer;
    version-less `md5` entries are the legacy text-normalising hash -/
def rowHit (r : Row) (n : Node) : Option (Algo × Digest) :=
  if r.checksum ≠ n.stamp then none
  else match r.version with
    | some v => if v > HASH_VERSION then none else some (r.algo, r.value)
    | none => some (if r.algo = "md5" then "md5-dos2unix" else r.algo, r.value)

/-- `State.get(path, fs)`; `isLocal = false` models any non-local filesystem -/
def get (db : Db) (fs : Fs) (isLocal : Bool) (p : Path) : Option (Algo × Digest) :=
  if !isLocal then none else
  match db.lookup p, fs.lookup p with
  | some r, some n => rowHit r n
  | _, _ => none

/-- `compat.batched(keys, n)` -/
def batched (n : Nat) (l : List Path) : List (List Path) :=
  if h : n = 0 ∨ l = [] then [] else
    l.take n :: batched n (l.drop n)
termination_by l.length
decreasing_by
  have : l ≠ [] := fun e => h (Or.inr e)
  have hn : n ≠ 0 := fun e => h (Or.inl e)
  simp only [List.length_drop]
  cases l with
  | nil => exact absurd rfl this
  | cons a r => simp; omega

/-- `State.get_many`: one SQL query per chunk of 999 keys, results in the order of the keys -/
def getMany (db : Db) (fs : Fs) (isLocal : Bool) (ps : List Path) : List (Path × Option (Algo × Digest)) :=
  (batched 999 ps).flatMap fun chunk => chunk.map fun p => (p, get db fs isLocal p)

/-- `hash_file(path, fs, name, state)`: returns the hash and the updated database -/
def hashFile (H : Algo → Bytes → Digest) (db : Db) (fs : Fs) (isLocal : Bool) (p : Path) (name : Algo) :
    Option (Digest × Db) :=
  match fs.lookup p with
  | none => none
  | some n =>
    match get db fs isLocal p with
    | some (a, v) => if a = name then some (v, db) else
        let v' := H name n.bytes
        some (v', if isLocal then save db fs p name v' else db)
    | none =>
      let v' := H name n.bytes
      some (v', if isLocal then save db fs p name v' else db)

/-- a file mutation (write, atomic replace, touch, re-create): new bytes under a new stamp -/
def mutate (fs : Fs) (p : Path) (b : Bytes) (s : Stamp) : Fs := fs.set p { bytes := b, stamp := s }
def delete (fs : Fs) (p : Path) : Fs := fs.erase p

end DvcData.State
