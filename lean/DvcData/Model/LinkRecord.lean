import DvcData.Model.Json
/-
  Model of the link record checkout saves (`hashfile/checkout.py::_save_link`, `hashfile/utils.py::_get_mtime_from_changes`,
  `get_mtime_and_size`, `_tokenize_mtimes`).  For a directory the record's second component is a token of the dictionary
  `{file path: mtime}`: `md5(json.dumps(d, sort_keys=True))` - a function of the dictionary as a finite map, modelled by its
  key-sorted item list (`canon`).  Checkout does not walk the directory again: it assembles the dictionary from the stats it
  took right after writing each added / modified file (`updated_mtimes`) and from the metadata the dry build recorded for the
  unchanged files (falling back to a stat when an entry carries none, skipping a path that is gone).
-/
namespace DvcData.LinkRecord
open DvcData Json

abbrev Path := List Char
abbrev Mtime := Nat
/-- `{path: mtime}` -/
abbrev Dict := AList Path Mtime

/-- what `_tokenize_mtimes` hashes: the items in key order -/
def canon (d : Dict) : List (Path × Mtime) := d.mergeSort fun a b => charsLe a.1 b.1

/-- `mtimes.update(updated_mtimes)` -/
def ofUpdated (updated : List (Path × Mtime)) : Dict := updated.foldl (fun m e => m.set e.1 e.2) []

/-- one unchanged entry: skipped when the path is already there; its recorded mtime, else a stat (`none`: the path is gone) -/
def addUnchanged (stat : Path → Option Mtime) (m : Dict) (e : Path × Option Mtime) : Dict :=
  if m.contains e.1 then m
  else match e.2 with
    | some t => m.set e.1 t
    | none => match stat e.1 with
      | some t => m.set e.1 t
      | none => m

/-- the dictionary `_get_mtime_from_changes` tokenises -/
def fromChanges (stat : Path → Option Mtime) (updated : List (Path × Mtime)) (unchanged : List (Path × Option Mtime)) : Dict :=
  unchanged.foldl (addUnchanged stat) (ofUpdated updated)

end DvcData.LinkRecord
