import DvcData.Model.PushFetch
/-
  Model of `StorageMapping.add_data / add_cache / add_remote` (index/index.py, as repaired by F29): a declaration sets one
  role in the *own* entry of its prefix (created empty when the prefix has none); lookup (`PushFetch.resolve`) falls back to
  shorter prefixes per role.
-/
namespace DvcData.PushFetch
open DvcData Path

structure Decl where
  pfx : Key
  role : Role
  store : StoreId
  deriving DecidableEq, Repr

def SInfo.set (s : SInfo) : Role → StoreId → SInfo
  | .data, x => { s with data := some x }
  | .cache, x => { s with cache := some x }
  | .remote, x => { s with remote := some x }

/-- `info = self._map.get(storage.key) or StorageInfo(); info.<role> = storage; self[storage.key] = info` -/
def addDecl (m : SMap) (d : Decl) : SMap :=
  AList.set m d.pfx (((AList.lookup m d.pfx).getD {}).set d.role d.store)

/-- the mapping after a sequence of `add_*` calls -/
def build (ds : List Decl) : SMap := ds.foldl addDecl []

end DvcData.PushFetch
