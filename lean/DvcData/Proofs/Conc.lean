import DvcData.Model.Conc
import DvcData.Proofs.AList
import DvcData.Proofs.ConcAbs
/-!
# The concurrent-writers model refines its finite abstraction

`absObj` is what the abstraction sees under one name; `step_abs` says a writer's concrete step acts
on it as `absStep`; `step_frame_objs` / `step_frame_tmps` say it touches nothing else.
-/
namespace DvcData.Conc
open DvcData Crash AList

variable (root : Bool) (H : Bytes → Oid)

def absObj (s : S) (oid : Oid) : AObj :=
  (s.objs.lookup oid).map fun o => (decide (H o.data = oid), o.prot)

/-! ### what each filesystem step does to the lookup of a name -/

theorem lookup_probeCreate (s : S) (oid k : Oid) :
    (exec s (.probeCreate oid)).objs.lookup k =
      if oid = k then some { data := [], prot := protOf (s.objs.lookup oid) }
      else s.objs.lookup k := by
  simp only [exec, AList.lookup_set]

theorem lookup_probeUnlink (s : S) (oid k : Oid) :
    (exec s (.probeUnlink oid)).objs.lookup k = if oid = k then none else s.objs.lookup k := by
  simp only [exec, AList.lookup_erase]

theorem lookup_remove (s : S) (oid k : Oid) :
    (exec s (.remove oid)).objs.lookup k = if oid = k then none else s.objs.lookup k := by
  simp only [exec, AList.lookup_erase]

theorem lookup_protect (s : S) (oid k : Oid) :
    (exec s (.protect oid)).objs.lookup k =
      if oid = k then (s.objs.lookup oid).map fun o => { o with prot := true } else s.objs.lookup k := by
  simp only [exec]
  cases h : s.objs.lookup oid with
  | none => by_cases e : oid = k <;> simp [e]; subst e; exact h
  | some o => simp only [AList.lookup_set, Option.map_some]

theorem lookup_saveRow (s : S) (oid k : Oid) : (exec s (.saveRow oid)).objs.lookup k = s.objs.lookup k := by
  simp only [exec]; split <;> rfl

theorem lookup_tmpCreate (s : S) (t : Tmp) (k : Oid) : (exec s (.tmpCreate t)).objs.lookup k = s.objs.lookup k := rfl

theorem lookup_append (s : S) (t : Tmp) (c : Bytes) (k : Oid) : (exec s (.append t c)).objs.lookup k = s.objs.lookup k := by
  simp only [exec]; split <;> rfl

theorem lookup_rename (s : S) (t : Tmp) (oid k : Oid) (b : Bytes) (hb : s.tmps.lookup t = some b) :
    (exec s (.rename t oid)).objs.lookup k = if oid = k then some { data := b, prot := false } else s.objs.lookup k := by
  simp only [exec, hb, AList.lookup_set]


/-! ### a writer's step only touches its own name and its own temp file -/

theorem step_oid (s : S) (th : Thread) : (th.step root H s).2.oid = th.oid ∧ (th.step root H s).2.t = th.t ∧
    (th.step root H s).2.chunks = th.chunks := by
  unfold Thread.step
  cases th.pc <;> simp only <;> (repeat' split) <;> simp

theorem step_frame_objs (s : S) (th : Thread) (k : Oid) (hk : th.oid ≠ k) :
    (th.step root H s).1.objs.lookup k = s.objs.lookup k := by
  unfold Thread.step
  cases th.pc <;> simp only <;> (repeat' split) <;>
    first
    | rfl
    | simp only [lookup_remove, lookup_protect, lookup_probeCreate, lookup_probeUnlink, lookup_saveRow,
        lookup_append, hk, if_false]
    | skip
  all_goals
    simp only [exec]
    split <;> simp [AList.lookup_set, hk]


theorem step_frame_tmps (s : S) (th : Thread) (t' : Tmp) (ht : th.t ≠ t') :
    (th.step root H s).1.tmps.lookup t' = s.tmps.lookup t' := by
  unfold Thread.step
  cases th.pc <;> simp only <;> (repeat' split) <;>
    first
    | rfl
    | (simp only [exec]; (repeat' split) <;> first | rfl | simp [AList.lookup_set, AList.lookup_erase, ht])

/-- the temp-file invariant of the stepping writer itself -/
theorem step_own_tmp (s : S) (th : Thread)
    (htmp : th.pc = .write → s.tmps.lookup th.t = some (th.chunks.take th.k).flatten) :
    (th.step root H s).2.pc = .write →
      (th.step root H s).1.tmps.lookup (th.step root H s).2.t =
        some ((th.step root H s).2.chunks.take (th.step root H s).2.k).flatten := by
  unfold Thread.step
  cases hpc : th.pc <;> simp only <;> (repeat' split) <;> intro hw <;>
    try (first | (simp at hw; done) | (rw [hpc] at hw; cases hw))
  · -- create
    simp [exec, AList.lookup_set]
  · -- write / append
    rename_i c hc
    have hb := htmp hpc
    simp only [exec, hb, AList.lookup_set, if_true]
    rw [List.take_add_one, hc]
    simp

/-- a writer's step acts on the abstraction of its name as `absStep` -/
theorem step_abs (s : S) (th : Thread) (hwf : H th.chunks.flatten = th.oid)
    (htmp : th.pc = .write → s.tmps.lookup th.t = some (th.chunks.take th.k).flatten) :
    absObj H (th.step root H s).1 th.oid =
      (absStep root (decide (H [] = th.oid)) (th.chunks[th.k]?).isNone (absObj H s th.oid) th.pc).1 ∧
    (th.step root H s).2.pc =
      (absStep root (decide (H [] = th.oid)) (th.chunks[th.k]?).isNone (absObj H s th.oid) th.pc).2 := by
  unfold Thread.step absStep absObj
  cases hpc : th.pc <;> simp only
  case stat =>
    cases hl : s.objs.lookup th.oid with
    | none => simp [hl]
    | some o => obtain ⟨d, p⟩ := o; cases p <;> simp [hl]
  case read =>
    cases hl : s.objs.lookup th.oid with
    | none => simp [hl]
    | some o => by_cases hm : H o.data = th.oid <;> simp [hl, hm]
  case discard => simp [lookup_remove]
  case vprotect =>
    simp only [lookup_protect, if_true]
    cases hl : s.objs.lookup th.oid <;> simp
  case probe =>
    cases hl : s.objs.lookup th.oid with
    | none => simp [lookup_probeCreate, hl, protOf, eq_comm]
    | some o =>
      obtain ⟨d, p⟩ := o
      cases p <;> cases root <;> simp [lookup_probeCreate, hl, protOf, eq_comm]
  case unlink => simp [lookup_probeUnlink]
  case create => simp [lookup_tmpCreate]
  case write =>
    have hb := htmp hpc
    cases hc : th.chunks[th.k]? with
    | some c => simp [lookup_append]
    | none =>
      simp only [Option.isNone_none, if_true, lookup_rename _ _ _ _ _ hb, Option.map_some]
      have hk : th.chunks.length ≤ th.k := by
        rcases Nat.lt_or_ge th.k th.chunks.length with h | h
        · rw [List.getElem?_eq_getElem h] at hc; cases hc
        · exact h
      rw [List.take_of_length_le hk, hwf]
      simp
  case protect =>
    simp only [lookup_protect, if_true]
    cases hl : s.objs.lookup th.oid <;> simp
  case save => simp [lookup_saveRow]
  case done => simp [hpc]
  case restat =>
    cases hl : s.objs.lookup th.oid with
    | none => simp [hl]
    | some o => obtain ⟨d, p⟩ := o; cases p <;> simp [hl]
  case reread =>
    cases hl : s.objs.lookup th.oid with
    | none => simp [hl]
    | some o => by_cases hm : H o.data = th.oid <;> simp [hl, hm]
  case rediscard => simp [lookup_remove]
  case failed => simp [hpc]

end DvcData.Conc
