import DvcData.Model.Json
namespace DvcData.Json
open List

/-! ### string escaping round trip (ported from the design spike) -/

theorem hexVal_hexDigit (d : Nat) (h : d < 16) : hexVal (hexDigit d) = some d := by
  have : ∀ d : Fin 16, hexVal (hexDigit d.val) = some d.val := by decide
  exact this ⟨d, h⟩

theorem parseHex4_hex4 (n : Nat) (h : n < 65536) :
    (match hex4 n with | [a,b,c,d] => parseHex4 a b c d | _ => none) = some n := by
  simp only [hex4, parseHex4]
  rw [hexVal_hexDigit _ (Nat.mod_lt _ (by omega)), hexVal_hexDigit _ (Nat.mod_lt _ (by omega)),
      hexVal_hexDigit _ (Nat.mod_lt _ (by omega)), hexVal_hexDigit _ (Nat.mod_lt _ (by omega))]
  simp only [Option.bind_eq_bind, Option.bind_some, Option.pure_def, Option.some.injEq]
  omega

theorem unescOne_uEsc_bmp (n : Nat) (h : n < 65536) (hs : ¬ (55296 ≤ n ∧ n < 56320)) (r : List Char) :
    unescOne (uEsc n ++ r) = some (Char.ofNat n, r) := by
  have hp := parseHex4_hex4 n h
  simp only [hex4] at hp
  simp only [uEsc, hex4, List.cons_append, List.nil_append, unescOne, hp, hs, if_false]

theorem unescOne_uEsc_pair (v w : Nat) (hv : 55296 ≤ v ∧ v < 56320) (hw : 56320 ≤ w ∧ w < 57344) (r : List Char) :
    unescOne (uEsc v ++ (uEsc w ++ r)) = some (Char.ofNat (65536 + (v - 55296) * 1024 + (w - 56320)), r) := by
  have hp := parseHex4_hex4 v (by omega)
  have hq := parseHex4_hex4 w (by omega)
  simp only [hex4] at hp hq
  simp only [uEsc, hex4, List.cons_append, List.nil_append, unescOne, hp, hq, hv, hw, and_self, if_true]

theorem char_eq_of_toNat (c : Char) (n : Nat) (h : c.toNat = n) : c = Char.ofNat n := by
  rw [← h, Char.ofNat_toNat]

theorem char_valid (c : Char) : c.toNat < 55296 ∨ (57343 < c.toNat ∧ c.toNat < 1114112) := by
  have := c.valid
  simp only [UInt32.isValidChar, Nat.isValidChar, Char.toNat] at *
  omega

theorem unescOne_plain (c : Char) (r : List Char) (h1 : c ≠ '"') (h2 : c ≠ '\\') :
    unescOne (c :: r) = some (c, r) := by
  unfold unescOne
  split <;> simp_all

theorem unescOne_escChar (c : Char) (r : List Char) : unescOne (escChar c ++ r) = some (c, r) := by
  unfold escChar
  split
  · next h => subst h; rfl
  split
  · next h => subst h; rfl
  split
  · next h => subst h; rfl
  split
  · next h => subst h; rfl
  split
  · next h => subst h; rfl
  split
  · next h => rw [char_eq_of_toNat c 8 h]; rfl
  split
  · next h => rw [char_eq_of_toNat c 12 h]; rfl
  split
  · next h1 h2 _ _ _ _ _ _ => exact unescOne_plain c r h1 h2
  split
  · next h =>
    have hv := char_valid c
    rw [unescOne_uEsc_bmp c.toNat h (by omega), Char.ofNat_toNat]
  · next h =>
    have hv := char_valid c
    simp only [List.append_assoc]
    rw [unescOne_uEsc_pair _ _ (by omega) (by omega)]
    have e : 65536 + (55296 + (c.toNat - 65536) / 1024 - 55296) * 1024 + (56320 + (c.toNat - 65536) % 1024 - 56320) = c.toNat := by omega
    rw [e, Char.ofNat_toNat]

theorem escChar_head_ne_quote (c : Char) (r : List Char) : ∃ h t, escChar c ++ r = h :: t ∧ h ≠ '"' := by
  unfold escChar
  repeat' split
  all_goals simp_all [uEsc]

theorem unesc_esc (s rest : List Char) (n : Nat) (hn : s.length < n) :
    unescFuel n (esc s ++ '"' :: rest) = some (s, rest) := by
  induction s generalizing n with
  | nil =>
    cases n with
    | zero => simp at hn
    | succ n => simp [esc, unescFuel]
  | cons c s ih =>
    cases n with
    | zero => simp at hn
    | succ n =>
      have hlen : s.length < n := by simp at hn; omega
      obtain ⟨h, t, e, hq⟩ := escChar_head_ne_quote c (esc s ++ '"' :: rest)
      have e' : esc (c :: s) ++ '"' :: rest = escChar c ++ (esc s ++ '"' :: rest) := by
        simp [esc, List.flatMap_cons, List.append_assoc]
      rw [e']
      have step : unescFuel (n+1) (h :: t) =
          (match unescOne (h :: t) with
           | none => none
           | some (c, r) => match unescFuel n r with
             | none => none
             | some (s, r') => some (c :: s, r')) := by
        exact unescFuel.eq_3 (h :: t) n (by intro r hr; exact hq (List.cons.inj hr).1)
      rw [e, step, ← e, unescOne_escChar]
      simp only [ih n hlen]

theorem esc_injective (s₁ s₂ : List Char) (h : esc s₁ = esc s₂) : s₁ = s₂ := by
  have a := unesc_esc s₁ [] (s₁.length + s₂.length + 1) (by omega)
  have b := unesc_esc s₂ [] (s₁.length + s₂.length + 1) (by omega)
  rw [h] at a
  rw [a] at b
  simpa using b

theorem parseStrLit_render (s rest : List Char) (f : Nat) (hf : s.length < f) :
    parseStrLit f (renderStr s ++ rest) = some (s, rest) := by
  simp only [renderStr, List.cons_append, List.append_assoc, parseStrLit]
  exact unesc_esc s rest f hf

theorem length_le_esc (s : List Char) : s.length ≤ (esc s).length := by
  induction s with
  | nil => simp [esc]
  | cons c r ih =>
    have : 1 ≤ (escChar c).length := by
      obtain ⟨h, t, e, _⟩ := escChar_head_ne_quote c []
      simp at e; rw [e]; simp
    simp only [esc, flatMap_cons, length_append, length_cons] at ih ⊢
    omega

/-! ### numbers -/

theorem isDigit_digitChar (d : Nat) (h : d < 10) : isDigit (digitChar d) = true ∧ (digitChar d).toNat - 48 = d := by
  have : ∀ d : Fin 10, isDigit (digitChar d.val) = true ∧ (digitChar d.val).toNat - 48 = d.val := by decide
  exact this ⟨d, h⟩

theorem renderNat_digits (n : Nat) : ∀ c ∈ renderNat n, isDigit c = true := by
  induction n using Nat.strongRecOn with
  | _ n ih =>
    rw [renderNat]
    split
    · intro c hc; simp at hc; subst hc; exact (isDigit_digitChar n (by omega)).1
    · intro c hc
      simp only [mem_append, mem_singleton] at hc
      rcases hc with hc | hc
      · exact ih (n / 10) (by omega) c hc
      · subst hc; exact (isDigit_digitChar _ (Nat.mod_lt _ (by omega))).1

theorem renderNat_ne_nil (n : Nat) : renderNat n ≠ [] := by
  rw [renderNat]; split <;> simp

theorem digitsVal_append (l : List Char) (c : Char) :
    digitsVal (l ++ [c]) = digitsVal l * 10 + (c.toNat - 48) := by
  simp [digitsVal, foldl_append]

theorem digitsVal_renderNat (n : Nat) : digitsVal (renderNat n) = n := by
  induction n using Nat.strongRecOn with
  | _ n ih =>
    rw [renderNat]
    split
    · rename_i h
      simp [digitsVal, (isDigit_digitChar n h).2]
    · rw [digitsVal_append, ih (n / 10) (by omega), (isDigit_digitChar _ (Nat.mod_lt _ (by omega))).2]
      omega

theorem takeWhile_append_of_all {α : Type} (p : α → Bool) (l r : List α) (h : ∀ x ∈ l, p x = true)
    (hr : ∀ x t, r = x :: t → p x = false) : (l ++ r).takeWhile p = l ∧ (l ++ r).dropWhile p = r := by
  induction l with
  | nil =>
    cases r with
    | nil => simp
    | cons x t => simp [takeWhile, dropWhile, hr x t rfl]
  | cons a l ih =>
    have ha := h a (by simp)
    have := ih (fun x hx => h x (mem_cons_of_mem _ hx))
    simp [takeWhile, dropWhile, ha, this.1, this.2]

theorem parseNat_render (n : Nat) (rest : List Char) (hr : ∀ x t, rest = x :: t → isDigit x = false) :
    parseNat (renderNat n ++ rest) = some (n, rest) := by
  unfold parseNat
  obtain ⟨h1, h2⟩ := takeWhile_append_of_all isDigit (renderNat n) rest (renderNat_digits n) hr
  simp only [h1, h2, digitsVal_renderNat]
  have := renderNat_ne_nil n
  cases h : renderNat n with
  | nil => exact absurd h this
  | cons a b => simp

end DvcData.Json
