import DvcData.Proofs.Transfer
namespace DvcData.Transfer
open DvcData Status

variable {Oid : Type} [DecidableEq Oid]

/-- `addAll` never lets a failing object arrive -/
theorem addAll_new_ok (cx : Ctx Oid) (xs : List Oid) : ∀ dest x, x ∈ (addAll cx dest xs).1 → x ∈ dest ∨ (x ∈ xs ∧ cx.fails x = false) := by
  induction xs with
  | nil => intro dest x h; exact Or.inl h
  | cons y ys ih =>
    intro dest x h
    simp only [addAll] at h
    split at h
    · rcases ih dest x h with h' | ⟨h1, h2⟩
      · exact Or.inl h'
      · exact Or.inr ⟨List.mem_cons_of_mem _ h1, h2⟩
    · rename_i hy
      rcases ih _ x h with h' | ⟨h1, h2⟩
      · rcases List.mem_append.mp h' with h'' | h''
        · exact Or.inl h''
        · simp at h''; subst h''; exact Or.inr ⟨by simp, by simpa using hy⟩
      · exact Or.inr ⟨List.mem_cons_of_mem _ h1, h2⟩

theorem addAll_failed_sub (cx : Ctx Oid) (xs : List Oid) : ∀ dest x, x ∈ (addAll cx dest xs).2 → x ∈ xs ∧ cx.fails x = true := by
  induction xs with
  | nil => intro dest x h; simp [addAll] at h
  | cons y ys ih =>
    intro dest x h
    simp only [addAll] at h
    split at h
    · rename_i hy
      rcases List.mem_cons.mp h with rfl | h'
      · exact ⟨by simp, hy⟩
      · obtain ⟨h1, h2⟩ := ih dest x h'
        exact ⟨List.mem_cons_of_mem _ h1, h2⟩
    · obtain ⟨h1, h2⟩ := ih _ x h
      exact ⟨List.mem_cons_of_mem _ h1, h2⟩

theorem addAll_nofail (cx : Ctx Oid) (hnf : ∀ x, cx.fails x = false) (xs : List Oid) :
    ∀ dest, addAll cx dest xs = (dest ++ xs, []) := by
  induction xs with
  | nil => intro dest; simp [addAll]
  | cons y ys ih => intro dest; simp [addAll, hnf y, ih]

/-! ### one directory step: what it does to dest / failed / pending -/

theorem stepDir_dest_mono (cx : Ctx Oid) (s : St Oid) (d : Oid) (y : Oid) (h : y ∈ s.dest) :
    y ∈ (stepDir cx s d).dest := by
  have hm := addAll_mono cx (s.pending.filter (· ∈ cx.L d)) s.dest y h
  unfold stepDir
  simp only
  split
  · exact hm
  · split
    · exact hm
    · split
      · exact hm
      · simp [hm]

theorem stepDir_failed_mono (cx : Ctx Oid) (s : St Oid) (d : Oid) (y : Oid) (h : y ∈ s.failed) :
    y ∈ (stepDir cx s d).failed := by
  unfold stepDir
  simp only
  split
  · simp [h]
  · split
    · simp [h]
    · split
      · simp [h]
      · exact h

/-- the processed directory is accounted for: uploaded or reported failed -/
theorem stepDir_dir_accounted (cx : Ctx Oid) (s : St Oid) (d : Oid) :
    d ∈ (stepDir cx s d).dest ∨ d ∈ (stepDir cx s d).failed := by
  unfold stepDir
  simp only
  split
  · right; simp
  · split
    · right; simp
    · split
      · right; simp
      · left; simp

/-- a pending file is, after the step, still pending, delivered, or reported failed -/
theorem stepDir_file_accounted (cx : Ctx Oid) (s : St Oid) (d : Oid) (x : Oid) (hx : x ∈ s.pending) :
    x ∈ (stepDir cx s d).pending ∨ x ∈ (stepDir cx s d).dest ∨ x ∈ (stepDir cx s d).failed := by
  by_cases hm : x ∈ cx.L d
  · have hb : x ∈ s.pending.filter (· ∈ cx.L d) := List.mem_filter.mpr ⟨hx, by simpa using hm⟩
    rcases addAll_covers cx _ s.dest x hb with h | h
    · right; left
      unfold stepDir
      simp only
      split
      · exact h
      · split
        · exact h
        · split
          · exact h
          · simp [h]
    · right; right
      have hne : (addAll cx s.dest (s.pending.filter (· ∈ cx.L d))).2 ≠ [] := List.ne_nil_of_mem h
      unfold stepDir
      simp only
      split
      · simp [h]
      · rename_i hc; exact absurd (Or.inl hne) hc
  · left
    have : x ∈ s.pending.filter (· ∉ cx.L d) := List.mem_filter.mpr ⟨hx, by simpa using hm⟩
    unfold stepDir
    simp only
    split
    · exact this
    · split
      · exact this
      · split
        · exact this
        · exact this

theorem stepDir_pending_sub (cx : Ctx Oid) (s : St Oid) (d : Oid) (x : Oid) (h : x ∈ (stepDir cx s d).pending) :
    x ∈ s.pending := by
  have key : x ∈ s.pending.filter (· ∉ cx.L d) → x ∈ s.pending := fun h => (List.mem_filter.mp h).1
  unfold stepDir at h
  simp only at h
  split at h
  · exact key h
  · split at h
    · exact key h
    · split at h
      · exact key h
      · exact key h

/-- the invariant carried through the directory loop -/
theorem foldl_accounts (cx : Ctx Oid) : ∀ (dirs : List Oid) (s : St Oid) (x : Oid),
    (x ∈ s.pending ∨ x ∈ s.dest ∨ x ∈ s.failed ∨ x ∈ dirs) →
    x ∈ (dirs.foldl (stepDir cx) s).pending ∨ x ∈ (dirs.foldl (stepDir cx) s).dest ∨
      x ∈ (dirs.foldl (stepDir cx) s).failed := by
  intro dirs
  induction dirs with
  | nil => intro s x h; simpa using h
  | cons d rest ih =>
    intro s x h
    simp only [List.foldl_cons]
    apply ih
    rcases h with h | h | h | h
    · rcases stepDir_file_accounted cx s d x h with h' | h' | h'
      · exact Or.inl h'
      · exact Or.inr (Or.inl h')
      · exact Or.inr (Or.inr (Or.inl h'))
    · exact Or.inr (Or.inl (stepDir_dest_mono cx s d x h))
    · exact Or.inr (Or.inr (Or.inl (stepDir_failed_mono cx s d x h)))
    · rcases List.mem_cons.mp h with rfl | h'
      · rcases stepDir_dir_accounted cx s x with h'' | h''
        · exact Or.inr (Or.inl h'')
        · exact Or.inr (Or.inr (Or.inl h''))
      · exact Or.inr (Or.inr (Or.inr h'))

/-- **accounting**: after `_do_transfer`, every object that had to move (pending files and the
    directories processed) is in the destination or reported failed — for every directory
    order and every failure predicate. -/
theorem doTransfer_accounts (cx : Ctx Oid) (s : St Oid) (dirs : List Oid) (x : Oid)
    (hx : x ∈ s.pending ∨ x ∈ dirs) :
    x ∈ (doTransfer cx s dirs).dest ∨ x ∈ (doTransfer cx s dirs).failed := by
  have h := foldl_accounts cx dirs s x (by rcases hx with h | h; exact Or.inl h; exact Or.inr (Or.inr (Or.inr h)))
  unfold doTransfer
  simp only
  rcases h with h | h | h
  · rcases addAll_covers cx _ (dirs.foldl (stepDir cx) s).dest x h with h' | h'
    · exact Or.inl h'
    · exact Or.inr (by simp [h'])
  · exact Or.inl (addAll_mono cx _ _ x h)
  · exact Or.inr (by simp [h])

/-! ### what is reported failed really is a requested object that did not make it -/

theorem stepDir_failed_sub (cx : Ctx Oid) (s : St Oid) (d : Oid) (x : Oid) (h : x ∈ (stepDir cx s d).failed) :
    x ∈ s.failed ∨ x = d ∨ (x ∈ s.pending ∧ cx.fails x = true) := by
  unfold stepDir at h
  simp only at h
  split at h
  · simp only [List.mem_append, List.mem_singleton] at h
    rcases h with (h | h) | h
    · exact Or.inl h
    · obtain ⟨h1, h2⟩ := addAll_failed_sub cx _ _ x h
      exact Or.inr (Or.inr ⟨(List.mem_filter.mp h1).1, h2⟩)
    · exact Or.inr (Or.inl h)
  · split at h
    · simp only [List.mem_append, List.mem_singleton] at h
      rcases h with h | h
      · exact Or.inl h
      · exact Or.inr (Or.inl h)
    · split at h
      · simp only [List.mem_append, List.mem_singleton] at h
        rcases h with h | h
        · exact Or.inl h
        · exact Or.inr (Or.inl h)
      · exact Or.inl h

theorem foldl_failed_sub (cx : Ctx Oid) : ∀ (dirs : List Oid) (s : St Oid) (x : Oid),
    x ∈ (dirs.foldl (stepDir cx) s).failed →
    x ∈ s.failed ∨ x ∈ dirs ∨ (x ∈ s.pending ∧ cx.fails x = true) := by
  intro dirs
  induction dirs with
  | nil => intro s x h; exact Or.inl h
  | cons d rest ih =>
    intro s x h
    simp only [List.foldl_cons] at h
    rcases ih _ x h with h' | h' | ⟨h1, h2⟩
    · rcases stepDir_failed_sub cx s d x h' with h'' | h'' | h''
      · exact Or.inl h''
      · exact Or.inr (Or.inl (by simp [h'']))
      · exact Or.inr (Or.inr h'')
    · exact Or.inr (Or.inl (List.mem_cons_of_mem _ h'))
    · exact Or.inr (Or.inr ⟨stepDir_pending_sub cx s d x h1, h2⟩)

theorem foldl_pending_sub (cx : Ctx Oid) : ∀ (dirs : List Oid) (s : St Oid) (x : Oid),
    x ∈ (dirs.foldl (stepDir cx) s).pending → x ∈ s.pending := by
  intro dirs
  induction dirs with
  | nil => intro s x h; exact h
  | cons d rest ih =>
    intro s x h
    simp only [List.foldl_cons] at h
    exact stepDir_pending_sub cx s d x (ih _ x h)

theorem doTransfer_failed_sub (cx : Ctx Oid) (s : St Oid) (dirs : List Oid) (x : Oid)
    (h : x ∈ (doTransfer cx s dirs).failed) : x ∈ s.failed ∨ x ∈ dirs ∨ x ∈ s.pending := by
  unfold doTransfer at h
  simp only [List.mem_append] at h
  rcases h with h | h
  · rcases foldl_failed_sub cx dirs s x h with h' | h' | h'
    · exact Or.inl h'
    · exact Or.inr (Or.inl h')
    · exact Or.inr (Or.inr h'.1)
  · exact Or.inr (Or.inr (foldl_pending_sub cx dirs s x (addAll_failed_sub cx _ _ x h).1))

/-! ### a fault-free run reports no failure -/

theorem stepDir_nofail (cx : Ctx Oid) (hnf : ∀ x, cx.fails x = false) (s : St Oid) (d : Oid)
    (hs : s.failed = []) (hm : ∀ f ∈ cx.L d, f ∉ cx.missing) : (stepDir cx s d).failed = [] := by
  unfold stepDir
  simp only [addAll_nofail cx hnf, hs]
  have h1 : ¬ (([] : List Oid) ≠ [] ∨ (cx.L d).any (fun x => decide (x ∈ ([] : List Oid))) = true) := by simp
  have h2 : ¬ ((cx.L d).any (fun x => decide (x ∈ cx.missing)) = true) := by
    simp only [List.any_eq_true, decide_eq_true_eq, not_exists, not_and]
    exact hm
  simp [h2, hnf d]

theorem foldl_nofail (cx : Ctx Oid) (hnf : ∀ x, cx.fails x = false) : ∀ (dirs : List Oid) (s : St Oid),
    s.failed = [] → (∀ d ∈ dirs, ∀ f ∈ cx.L d, f ∉ cx.missing) → (dirs.foldl (stepDir cx) s).failed = [] := by
  intro dirs
  induction dirs with
  | nil => intro s h _; exact h
  | cons d rest ih =>
    intro s h hm
    simp only [List.foldl_cons]
    exact ih _ (stepDir_nofail cx hnf s d h (hm d (by simp))) (fun d' hd' => hm d' (List.mem_cons_of_mem _ hd'))

/-- **retry completes**: with no failing upload and no entry missing on both sides nothing is
    reported failed, hence (by accounting) everything that had to move is in the destination -/
theorem doTransfer_nofail (cx : Ctx Oid) (hnf : ∀ x, cx.fails x = false) (s : St Oid) (dirs : List Oid)
    (hs : s.failed = []) (hm : ∀ d ∈ dirs, ∀ f ∈ cx.L d, f ∉ cx.missing) :
    (doTransfer cx s dirs).failed = [] := by
  unfold doTransfer
  simp only [addAll_nofail cx hnf, foldl_nofail cx hnf dirs s hs hm, List.append_nil]

end DvcData.Transfer
