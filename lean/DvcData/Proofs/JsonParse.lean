import DvcData.Proofs.Json
namespace DvcData.Json
open List

def renderMember (p : List Char × JVal) : List Char := renderStr p.1 ++ ':' :: ' ' :: renderVal p.2

/-- rendering of an object whose members are already in output order -/
def renderMembers (ms : JObj) : List Char := '{' :: commaSep (ms.map renderMember) ++ ['}']

theorem renderObj_eq (o : JObj) : renderObj o = renderMembers (sortKeys o) := rfl

def sepTail (xs : List (List Char)) (close : Char) : List Char :=
  xs.flatMap (fun x => ',' :: ' ' :: x) ++ [close]

theorem commaSep_cons (x : List Char) (xs : List (List Char)) (close : Char) :
    commaSep (x :: xs) ++ [close] = x ++ sepTail xs close := by
  induction xs generalizing x with
  | nil => simp [commaSep, sepTail]
  | cons y ys ih =>
    simp only [commaSep, append_assoc, cons_append]
    rw [ih y]
    simp [sepTail]

/-- "the next character is not a digit" (true in front of `, `, `}` and `]`) -/
def NoDigitHead (rest : List Char) : Prop := ∀ x t, rest = x :: t → isDigit x = false

theorem renderNat_head (n : Nat) : ∃ d ds, renderNat n = d :: ds ∧ isDigit d = true := by
  cases h : renderNat n with
  | nil => exact absurd h (renderNat_ne_nil n)
  | cons d ds => exact ⟨d, ds, rfl, renderNat_digits n d (by rw [h]; simp)⟩

theorem parseVal_render (v : JVal) (rest : List Char) (f : Nat)
    (hf : (renderVal v).length < f) (hr : NoDigitHead rest) :
    parseVal f (renderVal v ++ rest) = some (v, rest) := by
  cases v with
  | str s =>
    have hl : s.length < f := by
      have := length_le_esc s
      simp [renderVal, renderStr] at hf; omega
    simp only [renderVal, renderStr, cons_append, append_assoc, nil_append, parseVal]
    rw [unesc_esc s rest f hl]; rfl
  | bool b => cases b <;> rfl
  | null => rfl
  | int n =>
    obtain ⟨d, ds, e, hd⟩ := renderNat_head n
    have hp := parseNat_render n rest hr
    simp only [renderVal] at hp ⊢
    rw [e] at hp ⊢
    simp only [cons_append] at hp ⊢
    unfold parseVal
    split
    · rename_i heq; simp at heq; have h1 := heq.1; subst h1; exact absurd hd (by decide)
    · rename_i heq; simp at heq; have h1 := heq.1; subst h1; exact absurd hd (by decide)
    · rename_i heq; simp at heq; have h1 := heq.1; subst h1; exact absurd hd (by decide)
    · rename_i heq; simp at heq; have h1 := heq.1; subst h1; exact absurd hd (by decide)
    · rw [hp]; rfl

theorem parseMember_render (p : List Char × JVal) (rest : List Char) (f : Nat)
    (hf : (renderMember p).length < f) (hr : NoDigitHead rest) :
    parseMember f (renderMember p ++ rest) = some (p, rest) := by
  obtain ⟨k, v⟩ := p
  have hk : k.length < f := by
    have := length_le_esc k
    simp [renderMember, renderStr] at hf; omega
  have hv : (renderVal v).length < f := by simp [renderMember] at hf; omega
  unfold parseMember
  simp only [renderMember, append_assoc, cons_append]
  rw [parseStrLit_render k _ f hk]
  simp only
  rw [parseVal_render v rest f hv hr]; rfl

theorem noDigit_comma (t : List Char) : NoDigitHead (',' :: t) := by
  intro x t' h; simp at h; rw [← h.1]; decide
theorem noDigit_close (c : Char) (hc : isDigit c = false) (t : List Char) : NoDigitHead (c :: t) := by
  intro x t' h; simp at h; rw [← h.1]; exact hc

theorem noDigit_sepTail (xs : List (List Char)) (close : Char) (hc : isDigit close = false) (rest : List Char) :
    NoDigitHead (sepTail xs close ++ rest) := by
  cases xs with
  | nil => simpa [sepTail] using noDigit_close close hc rest
  | cons x xs => simpa [sepTail] using noDigit_comma _

theorem parseMembersTail_render (ms : JObj) (rest : List Char) : ∀ f : Nat,
    (sepTail (ms.map renderMember) '}').length < f →
    parseMembersTail f (sepTail (ms.map renderMember) '}' ++ rest) = some (ms, rest) := by
  induction ms with
  | nil =>
    intro f hf
    cases f with
    | zero => simp at hf
    | succ f => simp [sepTail, parseMembersTail]
  | cons m ms ih =>
    intro f hf
    cases f with
    | zero => simp at hf
    | succ f =>
      have e : sepTail ((m :: ms).map renderMember) '}' ++ rest =
          ',' :: ' ' :: (renderMember m ++ (sepTail (ms.map renderMember) '}' ++ rest)) := by
        simp [sepTail]
      have hlen : (sepTail ((m :: ms).map renderMember) '}').length =
          2 + (renderMember m).length + (sepTail (ms.map renderMember) '}').length := by
        simp [sepTail]; omega
      rw [e]
      simp only [parseMembersTail]
      rw [parseMember_render m _ (f+1) (by omega) (noDigit_sepTail _ '}' (by decide) rest)]
      simp only
      rw [ih f (by omega)]; rfl

theorem renderMember_head (p : List Char × JVal) : ∃ t, renderMember p = '"' :: t := by
  simp [renderMember, renderStr]

theorem parseObj_render (ms : JObj) (rest : List Char) (f : Nat)
    (hf : (renderMembers ms).length < f) :
    parseObj f (renderMembers ms ++ rest) = some (ms, rest) := by
  cases ms with
  | nil => simp [renderMembers, commaSep, parseObj]
  | cons m ms =>
    have e : renderMembers (m :: ms) ++ rest =
        '{' :: (renderMember m ++ (sepTail (ms.map renderMember) '}' ++ rest)) := by
      simp only [renderMembers, map_cons, cons_append]
      rw [commaSep_cons]; simp
    have hlen : (renderMembers (m :: ms)).length =
        1 + (renderMember m).length + (sepTail (ms.map renderMember) '}').length := by
      simp only [renderMembers, map_cons, cons_append, length_cons]
      rw [commaSep_cons]; simp; omega
    rw [e]
    obtain ⟨t, ht⟩ := renderMember_head m
    have hstep : parseObj f ('{' :: (renderMember m ++ (sepTail (ms.map renderMember) '}' ++ rest))) =
        (match parseMember f (renderMember m ++ (sepTail (ms.map renderMember) '}' ++ rest)) with
          | some (m, r') => (parseMembersTail f r').map fun p => (m :: p.1, p.2)
          | none => none) := by
      rw [ht]; simp only [cons_append]
      unfold parseObj
      split
      · rename_i heq; simp at heq
      · rename_i heq; simp at heq; subst heq; rfl
      · rename_i h1 h2; exact absurd rfl (h2 _)
    rw [hstep, parseMember_render m _ f (by omega) (noDigit_sepTail _ '}' (by decide) rest)]
    simp only
    rw [parseMembersTail_render ms rest f (by omega)]; rfl

/-- rendering of a list of objects whose members are already in output order -/
def renderObjs (os : List JObj) : List Char := '[' :: commaSep (os.map renderMembers) ++ [']']

theorem renderList_eq (l : List JObj) : renderList l = renderObjs (l.map sortKeys) := by
  simp only [renderList, renderObjs, map_map]
  rfl

theorem parseObjsTail_render (os : List JObj) (rest : List Char) : ∀ f : Nat,
    (sepTail (os.map renderMembers) ']').length < f →
    parseObjsTail f (sepTail (os.map renderMembers) ']' ++ rest) = some (os, rest) := by
  induction os with
  | nil =>
    intro f hf
    cases f with
    | zero => simp at hf
    | succ f => simp [sepTail, parseObjsTail]
  | cons o os ih =>
    intro f hf
    cases f with
    | zero => simp at hf
    | succ f =>
      have e : sepTail ((o :: os).map renderMembers) ']' ++ rest =
          ',' :: ' ' :: (renderMembers o ++ (sepTail (os.map renderMembers) ']' ++ rest)) := by
        simp [sepTail]
      have hlen : (sepTail ((o :: os).map renderMembers) ']').length =
          2 + (renderMembers o).length + (sepTail (os.map renderMembers) ']').length := by
        simp [sepTail]; omega
      rw [e]
      simp only [parseObjsTail]
      rw [parseObj_render o _ (f+1) (by omega)]
      simp only
      rw [ih f (by omega)]; rfl

theorem renderMembers_head (ms : JObj) : ∃ t, renderMembers ms = '{' :: t := by
  simp [renderMembers]

/-- **parser round trip**: parsing the rendering of a list of objects gives the objects back
    (members in output order) -/
theorem parseList_renderObjs (os : List JObj) : parseList (renderObjs os) = some os := by
  cases os with
  | nil => simp [renderObjs, commaSep, parseList]
  | cons o os =>
    have e : renderObjs (o :: os) = '[' :: (renderMembers o ++ (sepTail (os.map renderMembers) ']' ++ [])) := by
      simp only [renderObjs, map_cons, cons_append]
      rw [commaSep_cons]; simp
    have hlen : (renderObjs (o :: os)).length =
        1 + (renderMembers o).length + (sepTail (os.map renderMembers) ']').length := by
      rw [e]; simp; omega
    obtain ⟨t, ht⟩ := renderMembers_head o
    unfold parseList
    simp only
    rw [hlen, e]
    split
    · rename_i heq
      rw [ht] at heq; simp at heq
    · rename_i r heq1 heq
      have hr : r = renderMembers o ++ (sepTail (os.map renderMembers) ']' ++ []) := by
        simp at heq; simp [heq]
      subst hr
      rw [parseObj_render o _ _ (by omega)]
      simp only
      rw [parseObjsTail_render os [] _ (by omega)]
    · rename_i h1 h2; exact absurd rfl (h2 _)

theorem parseList_renderList (l : List JObj) : parseList (renderList l) = some (l.map sortKeys) := by
  rw [renderList_eq]; exact parseList_renderObjs _

/-- **injectivity of the serialisation**: equal bytes, equal (key-sorted) listings -/
theorem renderList_injective (l1 l2 : List JObj) (h : renderList l1 = renderList l2) :
    l1.map sortKeys = l2.map sortKeys := by
  have a := parseList_renderList l1
  have b := parseList_renderList l2
  rw [h] at a; rw [a] at b; simpa using b

end DvcData.Json
