import DvcData.Model.Transfer
import DvcData.Proofs.Sets
namespace DvcData.Transfer
open DvcData Status

variable {Oid : Type} [DecidableEq Oid]

/-- `ev` extends `d0` one object at a time, never adding a directory before its files -/
inductive SafeExt (cx : Ctx Oid) : List Oid → List Oid → Prop
  | refl (d) : SafeExt cx d d
  | snoc {d0 d x} : SafeExt cx d0 d → (cx.isDir x = true → ∀ f ∈ cx.L x, f ∈ d) → SafeExt cx d0 (d ++ [x])

theorem SafeExt.trans {cx : Ctx Oid} {a b c : List Oid} (h1 : SafeExt cx a b) (h2 : SafeExt cx b c) : SafeExt cx a c := by
  induction h2 with
  | refl => exact h1
  | snoc _ hx ih => exact .snoc ih hx

theorem closed_snoc {cx : Ctx Oid} {d : List Oid} {x : Oid} (h : Closed cx d)
    (hx : cx.isDir x = true → ∀ f ∈ cx.L x, f ∈ d) : Closed cx (d ++ [x]) := by
  intro t ht hd f hf
  simp only [List.mem_append, List.mem_singleton] at ht ⊢
  rcases ht with ht | rfl
  · exact Or.inl (h t ht hd f hf)
  · exact Or.inl (hx hd f hf)

theorem SafeExt.length_le {cx : Ctx Oid} {a b : List Oid} (h : SafeExt cx a b) : a.length ≤ b.length := by
  induction h with
  | refl => exact Nat.le_refl _
  | snoc _ _ ih => rw [List.length_append]; simp only [List.length_singleton]; omega

/-- every intermediate destination (every crash cut) of a safe extension is closed -/
theorem SafeExt.prefix_closed {cx : Ctx Oid} {d0 d : List Oid} (h : SafeExt cx d0 d) (h0 : Closed cx d0) :
    ∀ k, d0.length ≤ k → Closed cx (d.take k) := by
  induction h with
  | refl => intro k hk; rw [List.take_of_length_le hk]; exact h0
  | @snoc d x hs hx ih =>
    intro k hk
    by_cases hle : k ≤ d.length
    · rw [List.take_append_of_le_length hle]; exact ih k hk
    · have : (d ++ [x]).length ≤ k := by simp; omega
      rw [List.take_of_length_le this]
      have hd : Closed cx d := by
        have := ih d.length hs.length_le
        simpa using this
      exact closed_snoc hd hx

/-- files only: uploading files is always a safe extension -/
theorem addAll_safe (cx : Ctx Oid) (xs : List Oid) (hf : ∀ x ∈ xs, cx.isDir x = false) :
    ∀ dest, SafeExt cx dest (addAll cx dest xs).1 := by
  induction xs with
  | nil => intro dest; exact .refl _
  | cons x xs ih =>
    intro dest
    have hx := hf x (by simp)
    have ih' := ih (fun y hy => hf y (by simp [hy]))
    simp only [addAll]
    split
    · exact ih' dest
    · exact (SafeExt.snoc (.refl dest) (by intro h; simp [hx] at h)).trans (ih' _)

theorem addAll_mono (cx : Ctx Oid) (xs : List Oid) : ∀ dest y, y ∈ dest → y ∈ (addAll cx dest xs).1 := by
  induction xs with
  | nil => intro dest y h; exact h
  | cons x xs ih =>
    intro dest y h
    simp only [addAll]
    split
    · exact ih dest y h
    · exact ih _ y (by simp [h])

/-- after `addAll`, every requested object is in dest or in the failed list -/
theorem addAll_covers (cx : Ctx Oid) (xs : List Oid) : ∀ dest x, x ∈ xs →
    x ∈ (addAll cx dest xs).1 ∨ x ∈ (addAll cx dest xs).2 := by
  induction xs with
  | nil => intro _ _ h; simp at h
  | cons y ys ih =>
    intro dest x hx
    simp only [addAll]
    split
    · rcases List.mem_cons.mp hx with rfl | h
      · right; simp
      · rcases ih dest x h with h | h
        · left; exact h
        · right; simp [h]
    · rcases List.mem_cons.mp hx with rfl | h
      · left; exact addAll_mono cx ys _ _ (by simp)
      · exact ih _ x h

/-- the loop invariant: every entry of every directory still to be processed is accounted for -/
def Acc (cx : Ctx Oid) (s : St Oid) (dirs : List Oid) : Prop :=
  ∀ d ∈ dirs, ∀ f ∈ cx.L d, f ∈ s.dest ∨ f ∈ s.pending ∨ f ∈ s.failed ∨ f ∈ cx.missing

theorem stepDir_safe (cx : Ctx Oid) (s : St Oid) (d : Oid) (rest : List Oid)
    (hp : ∀ x ∈ s.pending, cx.isDir x = false) (hacc : Acc cx s (d :: rest)) :
    SafeExt cx s.dest (stepDir cx s d).dest ∧ Acc cx (stepDir cx s d) rest ∧
    (∀ x ∈ (stepDir cx s d).pending, cx.isDir x = false) := by
  have hb : ∀ x ∈ s.pending.filter (· ∈ cx.L d), cx.isDir x = false :=
    fun x hx => hp x (List.mem_filter.mp hx).1
  have hsafe := addAll_safe cx _ hb s.dest
  have hcov := addAll_covers cx (s.pending.filter (· ∈ cx.L d)) s.dest
  have hmono := addAll_mono cx (s.pending.filter (· ∈ cx.L d)) s.dest
  -- accounting is preserved for the remaining dirs whichever branch is taken
  have hacc' : ∀ (dest' failed' od : List Oid), (∀ y ∈ (addAll cx s.dest (s.pending.filter (· ∈ cx.L d))).1, y ∈ dest') →
      (∀ y ∈ s.failed, y ∈ failed') → (∀ y ∈ (addAll cx s.dest (s.pending.filter (· ∈ cx.L d))).2, (addAll cx s.dest (s.pending.filter (· ∈ cx.L d))).2 ≠ [] → y ∈ failed') →
      Acc cx { dest := dest', pending := s.pending.filter (· ∉ cx.L d), failed := failed', okDirs := od } rest := by
    intro dest' failed' od h1 h2 h3 d' hd' f hf
    rcases hacc d' (by simp [hd']) f hf with h | h | h | h
    · exact Or.inl (h1 _ (hmono _ h))
    · by_cases hm : f ∈ cx.L d
      · rcases hcov f (List.mem_filter.mpr ⟨h, by simpa using hm⟩) with h' | h'
        · exact Or.inl (h1 _ h')
        · exact Or.inr (Or.inr (Or.inl (h3 _ h' (List.ne_nil_of_mem h'))))
      · exact Or.inr (Or.inl (List.mem_filter.mpr ⟨h, by simpa using hm⟩))
    · exact Or.inr (Or.inr (Or.inl (h2 _ h)))
    · exact Or.inr (Or.inr (Or.inr h))
  have hpend : ∀ x ∈ s.pending.filter (· ∉ cx.L d), cx.isDir x = false :=
    fun x hx => hp x (List.mem_filter.mp hx).1
  unfold stepDir
  simp only
  split
  · next hfail =>
    refine ⟨hsafe, hacc' _ _ _ (fun _ h => h) (fun y h => by simp [h]) (fun y h _ => by simp [h]), hpend⟩
  · next hnf =>
    have hdf : (addAll cx s.dest (s.pending.filter (· ∈ cx.L d))).2 = [] := by
      cases hdf' : (addAll cx s.dest (s.pending.filter (· ∈ cx.L d))).2 with
      | nil => rfl
      | cons a l => exact absurd (Or.inl (by rw [hdf']; simp)) hnf
    split
    · exact ⟨hsafe, hacc' _ _ _ (fun _ h => h) (fun y h => by simp [h]) (fun y _ hne => absurd hdf hne), hpend⟩
    · next hnm =>
      split
      · exact ⟨hsafe, hacc' _ _ _ (fun _ h => h) (fun y h => by simp [h]) (fun y _ hne => absurd hdf hne), hpend⟩
      · refine ⟨hsafe.trans (.snoc (.refl _) ?_), hacc' _ _ _ (fun y h => by simp [h]) (fun _ h => h) (fun y _ hne => absurd hdf hne), hpend⟩
        -- the directory object goes up only when each entry is already there
        intro _ f hf
        rcases hacc d (by simp) f hf with h | h | h | h
        · exact hmono _ h
        · rcases hcov f (List.mem_filter.mpr ⟨h, by simpa using hf⟩) with h' | h'
          · exact h'
          · rw [hdf] at h'; simp at h'
        · exact absurd (Or.inr (List.any_eq_true.mpr ⟨f, hf, by simpa using h⟩)) hnf
        · exact absurd (List.any_eq_true.mpr ⟨f, hf, by simpa using h⟩) hnm

theorem foldl_safe (cx : Ctx Oid) : ∀ (dirs : List Oid) (s : St Oid),
    (∀ x ∈ s.pending, cx.isDir x = false) → Acc cx s dirs →
    SafeExt cx s.dest (dirs.foldl (stepDir cx) s).dest ∧
    (∀ x ∈ (dirs.foldl (stepDir cx) s).pending, cx.isDir x = false) := by
  intro dirs
  induction dirs with
  | nil => intro s hp _; exact ⟨.refl _, hp⟩
  | cons d rest ih =>
    intro s hp hacc
    obtain ⟨h1, h2, h3⟩ := stepDir_safe cx s d rest hp hacc
    obtain ⟨h4, h5⟩ := ih _ h3 h2
    exact ⟨h1.trans h4, h5⟩

/-- C04 core: for every processing order `dirs`, every failure predicate, every crash cut `k`,
    the destination is closed. -/
theorem closed_every_prefix (cx : Ctx Oid) (s : St Oid) (dirs : List Oid) (k : Nat)
    (h0 : Closed cx s.dest) (hp : ∀ x ∈ s.pending, cx.isDir x = false) (hacc : Acc cx s dirs)
    (hk : s.dest.length ≤ k) :
    Closed cx ((doTransfer cx s dirs).dest.take k) := by
  obtain ⟨h1, h2⟩ := foldl_safe cx dirs s hp hacc
  have h3 := addAll_safe cx _ h2 (dirs.foldl (stepDir cx) s).dest
  exact (h1.trans h3).prefix_closed h0 k hk


end DvcData.Transfer
